"""Shared machinery of bin/check: cargo build, TLC runs (model check / generator / trace validation),
known findings, evidence files, verdict lines."""
import json, os, re, subprocess, sys, time, hashlib, shutil

# the directory this script lives in (/verif for the registered commands; a snapshot worktree under `vp run`)
ROOT = os.path.dirname(os.path.dirname(os.path.abspath(__file__)))
SPEC = ROOT + '/spec'
HARNESS = ROOT + '/harness'
BIN = HARNESS + '/target/release/mlverif'
WORK = ROOT + '/work'
# Isolated mode (development aid for seeded changes, never used by the registered commands): VERIF_REPO=<checkout with the
# change applied> VERIF_ISO=<name> builds the harness against that checkout (cargo `paths` override) into its own target and
# work directories, so /repo is not touched and several changes can be tried in parallel.
ALT_REPO = os.environ.get('VERIF_REPO')
ISO = os.environ.get('VERIF_ISO')
if ALT_REPO and ISO:
    WORK = '/tmp/seedwork/' + ISO
    BIN = '/tmp/seedtarget/' + ISO + '/release/mlverif'
TLC_CP = '/opt/veriftools/tla/tla2tools.jar:/opt/veriftools/tla/CommunityModules-deps.jar'


class ToolError(Exception):
    pass


def log(*a):
    print(*a, flush=True)


def sh(cmd, cwd=None, env=None, timeout=None, out=None):
    e = dict(os.environ)
    e.setdefault('CARGO_NET_OFFLINE', 'true')
    if env:
        e.update(env)
    t0 = time.time()
    if out:
        with open(out, 'w') as f:
            try:
                p = subprocess.run(cmd, cwd=cwd, env=e, stdout=f, stderr=subprocess.STDOUT, timeout=timeout)
            except subprocess.TimeoutExpired:
                raise ToolError('timeout: ' + ' '.join(cmd))
        return p.returncode, time.time() - t0
    try:
        p = subprocess.run(cmd, cwd=cwd, env=e, stdout=subprocess.PIPE, stderr=subprocess.STDOUT, timeout=timeout, text=True)
    except subprocess.TimeoutExpired:
        raise ToolError('timeout: ' + ' '.join(cmd))
    return p.returncode, p.stdout


def build(profile='release'):
    """Rebuild the harness; the path dependency makes cargo rebuild the library from /repo's working tree."""
    cmd = ['cargo', 'build', '--offline'] + (['--release'] if profile == 'release' else ['--profile', profile])
    if ALT_REPO and ISO:
        cmd += ['--config', 'paths=["%s"]' % ALT_REPO, '--target-dir', '/tmp/seedtarget/' + ISO]
    rc, out = sh(cmd, cwd=HARNESS, timeout=1200)
    if rc != 0:
        log(out[-4000:])
        raise ToolError('cargo build failed')


def workdir(pid):
    d = f'{WORK}/{pid}'
    os.makedirs(d, exist_ok=True)
    return d


def tlc(module, cfg, tag, pid, workers=8, env=None, timeout=1500, extra=None, heap='8g', dfs=False):
    """Run TLC; returns (output text path, parsed summary)."""
    d = workdir(pid)
    meta = f'{d}/tlc-{tag}'
    shutil.rmtree(meta, ignore_errors=True)
    outp = f'{d}/{tag}.out'
    jopts = ['-XX:+UseParallelGC', f'-Xmx{heap}', '-Xss1g']
    if dfs:
        jopts.append('-Dtlc2.tool.queue.IStateQueue=StateDeque')
    cmd = ['java'] + jopts + ['-cp', TLC_CP, 'tlc2.TLC', '-workers', str(workers), '-metadir', meta, '-cleanup',
                              '-noGenerateSpecTE', '-config', f'{SPEC}/{cfg}', f'{SPEC}/{module}.tla'] + (extra or [])
    rc, wall = sh(cmd, cwd=SPEC, env=env, timeout=timeout, out=outp)
    shutil.rmtree(meta, ignore_errors=True)
    txt = open(outp, errors='replace').read()
    s = {'rc': rc, 'wall_s': round(wall, 2), 'cmd': ' '.join(cmd[cmd.index('tlc2.TLC'):]), 'out': outp}
    m = re.findall(r'(\d+) states generated, (\d+) distinct states found', txt)
    if m:
        s['generated'], s['distinct'] = int(m[-1][0]), int(m[-1][1])
    else:
        s['generated'], s['distinct'] = 0, 0
    m = re.search(r'Invariant (\w+) is violated', txt)
    s['violated'] = m.group(1) if m else None
    if re.search(r'Temporal properties were violated', txt):
        s['violated'] = s['violated'] or 'temporal'
    s['error'] = None
    if 'Error:' in txt and not s['violated']:
        m = re.search(r'Error: (.*)', txt)
        s['error'] = m.group(1)[:300] if m else 'error'
    s['completed'] = 'Model checking completed' in txt or 'Finished in' in txt
    return txt, s


def mc(module, cfg, pid, tag=None, workers=8, expect_violation=None, timeout=1500):
    """Exhaustive model check. Raises ToolError unless the outcome is the expected one."""
    tag = tag or cfg.replace('.cfg', '')
    txt, s = tlc(module, cfg, tag, pid, workers=workers, timeout=timeout)
    if s['error']:
        raise ToolError(f'TLC error in {cfg}: {s["error"]} (see {s["out"]})')
    if expect_violation:
        if s['violated'] != expect_violation:
            raise ToolError(f'{cfg}: expected invariant {expect_violation} to be violated by the model of the known finding, got {s["violated"]}')
    elif s['violated']:
        raise ToolError(f'{cfg}: design model violates {s["violated"]} (see {s["out"]}) - the specification itself is broken')
    return s


def apalache(module, init, inv, length, pid, cinit='ConstInit', expect_error=False, timeout=900):
    """One Apalache obligation (symbolic, unbounded integers): from every state satisfying `init`, `inv` holds for `length` steps.
    Raises ToolError unless the outcome is the expected one."""
    d = workdir(pid) + '/apalache'
    os.makedirs(d, exist_ok=True)
    shutil.copy(f'{SPEC}/{module}.tla', d)
    cmd = ['apalache-mc', 'check', f'--cinit={cinit}', f'--init={init}', f'--inv={inv}', f'--length={length}', f'{module}.tla']
    rc, out = sh(cmd, cwd=d, timeout=timeout)
    ok = 'The outcome is: NoError' in out
    err = 'The outcome is: Error' in out
    shutil.rmtree(d + '/_apalache-out', ignore_errors=True)
    if expect_error:
        if not err:
            raise ToolError(f'apalache {module} {init}=>{inv}: expected a counterexample (negative control), got: {out[-300:]}')
    elif not ok:
        raise ToolError(f'apalache {module} {init}=>{inv} (length {length}) failed: {out[-400:]}')
    return {'cmd': ' '.join(cmd), 'outcome': 'Error (expected: negative control)' if expect_error else 'NoError'}


def gen(module, cfg, pid, tag=None, workers=1, marker='GEN', timeout=1500, extra=None):
    """Run a generator configuration; collect the JSON payloads printed as <<"GEN", "json">>."""
    tag = tag or cfg.replace('.cfg', '')
    txt, s = tlc(module, cfg, tag, pid, workers=workers, timeout=timeout, extra=extra)
    if s['error'] or s['violated']:
        raise ToolError(f'TLC generator {cfg} failed: {s["error"] or s["violated"]} (see {s["out"]})')
    path = f'{workdir(pid)}/{tag}.ndjson'
    n = 0
    pre = f'<<"{marker}", '
    with open(path, 'w') as f:
        for line in txt.splitlines():
            if line.startswith(pre):
                body = line.strip()[len(pre):-2]
                try:
                    f.write(json.loads(body) + '\n')
                    n += 1
                except Exception:
                    pass
    s['behaviours'] = n
    s['path'] = path
    return s


def tagged_json(txt, marker):
    """Payloads of the lines TLC printed as <<"MARKER", "json string">>."""
    pre = f'<<"{marker}", '
    out = []
    for line in txt.splitlines():
        if line.startswith(pre):
            try:
                out.append(json.loads(json.loads(line.strip()[len(pre):-2])))
            except Exception:
                out.append({'unparsed': line[:300]})
    return out


def validate(module, cfg, trace, pid, tag='trace', timeout=3000, chunk_lines=None):
    """Trace validation: TLC replays the ndjson trace through <module>; returns violations / drift.
    chunk_lines: for traces whose lines are independent of each other (no behaviour state carried from line to line), a very
    long trace is validated in pieces of that many lines (TLC holds the whole deserialised trace in memory)."""
    if chunk_lines:
        n = sum(1 for _ in open(trace))
        if n > chunk_lines:
            viols, drifts, total = [], [], None
            k = 0
            with open(trace) as f:
                while True:
                    part = f'{trace}.part'
                    cnt = 0
                    with open(part, 'w') as g:
                        for line in f:
                            g.write(line)
                            cnt += 1
                            if cnt >= chunk_lines:
                                break
                    if cnt == 0:
                        break
                    v, d, s = validate(module, cfg, part, pid, tag=tag, timeout=timeout)
                    for x in v:
                        x['line'] += k * chunk_lines
                    for x in d:
                        if isinstance(x, dict) and 'line' in x:
                            x['line'] += k * chunk_lines
                    viols += v
                    drifts += d
                    if total is None:
                        total = dict(s)
                    else:
                        total['lines'] += s['lines']
                        total['wall_s'] = round(total['wall_s'] + s['wall_s'], 2)
                    k += 1
                    if cnt < chunk_lines:
                        break
            os.remove(f'{trace}.part')
            total['chunks'] = k
            return viols, drifts, total
    txt, s = tlc(module, cfg, tag, pid, workers=1, env={'TRACE': trace}, timeout=timeout, dfs=True, heap='12g')
    viols = [{'line': v.get('line'), 'b': v.get('b'), 'conjuncts': sorted(v.get('failed', [])), **{k: x for k, x in v.items() if k not in ('line', 'b', 'failed')}}
             for v in tagged_json(txt, 'VIOL')]
    drifts = tagged_json(txt, 'DRIFT')
    if re.search(r'^<<\s*"(VIOL|DRIFT)",\s*$', txt, re.M):
        raise ToolError(f'unparsable VIOL/DRIFT output of {module} (see {s["out"]})')
    if s['error'] or s['violated'] or 'REJECTED' in txt or not s['completed']:
        raise ToolError(f'trace validation {module} did not consume the trace: {s["error"] or s["violated"] or "rejected"} (see {s["out"]})')
    s['lines'] = s['distinct'] - 1
    return viols, drifts, s


def run_harness(args, pid, tag='harness', timeout=3000):
    rc, out = sh([BIN] + args, cwd=ROOT, timeout=timeout)
    open(f'{workdir(pid)}/{tag}.log', 'w').write(out)
    if rc not in (0,):
        log(out[-3000:])
        raise ToolError(f'harness {args[0]} exited {rc}')
    return out


def known_findings(pid):
    try:
        return [k for k in json.load(open(ROOT + '/known_findings.json')) if k['property'] == pid]
    except FileNotFoundError:
        return []


class LazyLines:
    """lines[i] of a (possibly huge) file without holding it in memory: index of line offsets, built on first use."""

    def __init__(self, path):
        self.path, self.idx = path, None

    def __getitem__(self, i):
        if self.idx is None:
            self.idx = [0]
            with open(self.path, 'rb') as f:
                for line in f:
                    self.idx.append(self.idx[-1] + len(line))
        with open(self.path, 'rb') as f:
            f.seek(self.idx[i])
            return f.readline().decode()


def read_lines(path):
    with open(path) as f:
        return f.readlines()


def extract_behaviour(trace_lines, line_no):
    """Lines of the behaviour that contains 1-based trace line `line_no` (from its reset up to that line)."""
    i = line_no - 1
    start = i
    while start > 0 and '"e":"reset"' not in trace_lines[start]:
        start -= 1
    return [json.loads(x) for x in trace_lines[start:i + 1]]


def write_evidence(pid, tier, seed, coverage, wall, violations, assumptions, level='model_checking'):
    os.makedirs(ROOT + '/evidence', exist_ok=True)
    ev = {'property_id': pid, 'tier': tier, 'seed': seed, 'level': level, 'coverage': coverage,
          'assumptions': assumptions, 'wall_s': round(wall, 2), 'violations': violations}
    json.dump(ev, open(f'{ROOT}/evidence/{pid}.json', 'w'), indent=1)


class Verdict:
    """Collects violations / known findings / drift and prints the contract lines."""

    def __init__(self, pid, tier, seed, keep_replays=False):
        self.pid, self.tier, self.seed = pid, tier, seed
        self.t0 = time.time()
        self.violations = []   # (signature, replay_path, text)
        self.known_hits = {}   # id -> text
        self.drift = []
        self.notes = []
        self.kf = known_findings(pid)
        self.keep = keep_replays
        d = workdir(pid)
        for f in ([] if keep_replays else os.listdir(d)):
            if f.startswith('replay-') and f.endswith('.json'):
                os.remove(f'{d}/{f}')

    def violation(self, signature, text, replay_obj, features=None):
        """Report a violation; matched against the known findings by signature (+ feature dict)."""
        for k in self.kf:
            if k.get('status') == 'known' and (k.get('signature') == signature or (k.get('signature', '').endswith('*') and signature.startswith(k['signature'][:-1]))):
                want = k.get('match') or {}
                if all((features or {}).get(a) == b for a, b in want.items()):
                    self.known_hits.setdefault(k['id'], k.get('description', text))
                    return
        same = [v for v in self.violations if v[0] == signature]
        if same and len(same) >= 3:
            # keep at most three replay files per signature
            self.violations.append((signature, same[0][1], text))
            return
        p = f'{workdir(self.pid)}/{"rereplay" if self.keep else "replay"}-{len(set(v[1] for v in self.violations)) + 1}.json'
        json.dump({'property': self.pid, 'tier': self.tier, 'seed': self.seed, 'signature': signature,
                   'text': text, 'features': features, **replay_obj}, open(p, 'w'), indent=1)
        self.violations.append((signature, p, text))

    def finish(self, coverage, assumptions):
        wall = time.time() - self.t0
        coverage = dict(coverage)
        coverage['drift'] = self.drift[:20]
        coverage['drift_count'] = len(self.drift)
        coverage['known_findings_hit'] = sorted(self.known_hits)
        coverage['notes'] = self.notes[:20]
        if not self.keep and not os.environ.get('VERIF_NO_EVIDENCE'):
            write_evidence(self.pid, self.tier, self.seed, coverage, wall, len(self.violations), assumptions)
        for d in self.drift[:10]:
            log(f'SPEC-DRIFT property={self.pid} {json.dumps(d)[:400]}')
        for kid, text in sorted(self.known_hits.items()):
            log(f'KNOWN-FINDING: property={self.pid} {kid} {text}')
        seen = set()
        for sig, p, text in self.violations:
            if sig in seen or len(seen) >= 12:
                continue
            seen.add(sig)
            n = sum(1 for v in self.violations if v[0] == sig)
            log(f'VIOLATION property={self.pid} replay={p}')
            log(f'  signature={sig} occurrences={n}: {text[:400]}')
        held = not self.violations
        log(f'RESULT property={self.pid} tier={self.tier} held={str(held).lower()} violations={len(self.violations)} '
            f'known={len(self.known_hits)} drift={len(self.drift)} wall_s={wall:.1f}')
        return 0 if held else 1
