#!/usr/bin/env python3
"""Regenerates /verif/MANIFEST.json from the table below (single source of truth for the interface)."""
import json, subprocess
PROPS = [json.loads(l)['id'] for l in open('/verif/properties.jsonl')]
HOOKS = subprocess.run(['git', '-C', '/repo', 'log', '--format=%h %s'], capture_output=True, text=True).stdout.splitlines()
HOOK_COMMITS = [l.split()[0] for l in HOOKS if l.split(' ', 1)[1].startswith('verif hooks')]

SERVER_NOTE = ('Trusted base: TLC; the harness codec/crypto (independent of the library codec); the H4 snapshot hook reading '
               'the stores; the simulated wire delivering one datagram per tick. The exhaustive part is bounded by the '
               'constants of MC_Server_*.cfg; beyond them the evidence is the seeded random histories.')
CLAIMED = {
 'C03': dict(text='TLC model-checks the Server design (functional Step in the order of Server::handle_request) with every L1 formula quantified over every request in every reachable state; TLC then exports, for every state of that graph, the shortest history reaching it plus every enabled request, and each (state, request) pair is replayed on a real server-mode node over the simulated wire; the recorded reply datagrams and store projections are validated by TLC against the same module (ServerTrace), L1 evaluated on the observations.',
             ref='DESIGN.md section 5 C03, section 11', technique='TLA+ Server module: TLC exhaustive MC + TLC-generated state-graph behaviours replayed on the real node + TLC trace validation'),
 'C04': dict(text='Same machinery as C03 with the mutable-item alphabet (seq/cas combinations, two keys, salts, capacity-2 LRU store): every transition of the bounded design graph is replayed on the real node and judged by TLC; SeqMonotone, Cas301, Seq302, AcceptHigherOrSame and GetReturnsLast are evaluated on every observed step.',
             ref='DESIGN.md section 5 C04, section 11', technique='TLA+ Server module: exhaustive MC + state-graph replay + trace validation'),
 'C15': dict(text='Tokens.tla decides the timing statement (valid >= 5 min, rejected after 10 min + gap) exhaustively over a half-minute clock; MC_Server_tok explores tokens x senders x rotations; all transitions are replayed on a real node under the virtual clock with real token bytes (own, other IP, other port, other node, bit-flipped, empty), and TLC re-derives the secret epochs from the trace to judge every acceptance/rejection, including the boundary instants 5 min +- 1 ms.',
             ref='DESIGN.md section 5 C15, section 11', technique='TLA+ Tokens + Server modules: exhaustive MC + replay under virtual clock + trace validation'),
}
CLAIMED['C19'] = dict(text='IdMath.tla defines the XOR metric, bucket distance, CRC32C (two 16-bit limbs) / BEP42 and hex parsing; TLC checks the metric laws exhaustively on a small id universe and the BEP42 vectors, then recomputes the library output for every recorded call (161 first-differing-bit classes x fills, character-class mutations of hex strings incl. multi-byte and sign characters, IP classes x r). The thorough tier adds the complete 2^28 masked BEP42 sweep in Rust against the harness reference, which TLC validates against the TLA+ operator.',
             ref='DESIGN.md section 5 C19', technique='TLA+ IdMath operators as oracle: TLC MC of metric laws + TLC validation of recorded library calls (+ Rust sweep against TLC-validated reference)')
RT_NOTE = 'Trusted base: TLC; the IdMath operators (validated in C19); the harness BEP42 classification of universe nodes; the H4/H5 hooks (table projection, re-key). Exhaustive part bounded by MC_RT.cfg (4-bit ids, K = 2, 9 nodes over 5 IPs).'
CLAIMED['C11'] = dict(text='RT.tla models ClosestNodes::add (IP rule + secure-first/XOR insertion), RoutingTable::closest and take_until_secure; TLC explores every reachable small table and every target (answer members, order, prefix property), then validates every recorded closest() answer, accumulator order and take_until_secure slice of the real code over real 160-bit ids with the L1 formulas recomputed from the observed table. The literal prefix formula is known to fail (KF-C11-1); the model reproduces exactly that counterexample and the check reports any omission not explained by it.',
             ref='DESIGN.md section 5 C11', technique='TLA+ RT module: TLC exhaustive MC + TLC trace validation of recorded public-API operations')
CLAIMED['C12'] = dict(text='RT.tla models add / remove / re-key / staleness in the order of the code; TLC checks NoSelf, UniqueIds, BucketMatchesDistance, BucketSize, IpRule in every reachable state and EvictOnlyStaleHead for every possible add from every state; the same invariants are then evaluated by TLC on the OBSERVED projection of the real table after every operation of seeded random sequences (shared IPs, secure/insecure ids, clustered ids, clock across the 15 min boundary), with the model transition checked for conformance.',
             ref='DESIGN.md section 5 C12', technique='TLA+ RT module: TLC exhaustive MC + TLC trace validation of recorded public-API operations')
CLAIMED['C16'] = dict(text='MostRecent.tla models the fold over the delivered stream; TLC checks the L1 formula for every ordered sub-sequence (responses may be lost) of seq patterns with gaps, duplicates and ties, and generates those arrival sequences; each is executed on a real threaded node through the real API wrappers (async flavour polled by hand, sync flavour on a helper thread) against fake storage peers, and TLC judges the returned item against the observed arrival order.',
             ref='DESIGN.md section 5 C16', technique='TLA+ MostRecent module: TLC exhaustive MC + TLC-generated arrival orders replayed through the real API + TLC trace validation')
CLAIMED['C10'] = dict(text='Krpc.tla defines the space of buildable messages as records of labels and Encode(m), the bencode dictionary (BEP5/43/44/signed-peers key names, compact formats) the wire form must be. TLC enumerates the space (one state per message); each message is built through the H3 mirror, encoded by the library, decoded by the independent harness codec and compared by TLC with Encode(m); canonical form and decode(encode(m)) equivalence are checked per message, and the BEP5 example messages are decoded, compared with their stated values and re-encoded.',
             ref='DESIGN.md section 5 C10', technique='TLA+ Krpc module as wire-format oracle: TLC enumeration of the message space + TLC validation of observed dictionaries / round trips')
CLAIMED['C05'] = dict(text='The structured neighbourhood of valid KRPC messages is a TLA+ state space (MC_KrpcShapes: base message x field path x deviation, pairs in the thorough tier); TLC enumerates it, the harness serialises every shape with its own encoder and feeds it - with truncations and byte mutations - to the decoder, to live server and client nodes (unsolicited and as the reply to their own in-flight requests) and, for error replies, to real API callers; TLC judges the recorded liveness observations (no panic, node still answers a ping, calls still complete).',
             ref='DESIGN.md section 5 C05', technique='TLA+ shape space enumerated by TLC, replayed on decoder / live nodes / API callers; liveness observations judged by TLC')
CLAIMED['C09'] = dict(text='Sock.tla models the in-flight table and the attribution rule; TLC checks OnlyAddressee, SpoofIsStutter, GenuineStillAccepted and AtMostOnce for every possible incoming (tid, address) in every reachable state with an adversary that knows the sequential ids, and enumerates the injection plans. Each plan runs on a real client against fake peers; SockTrace rebuilds the model in-flight table from the observed sends and judges the observed effect of every delivered response/error (in-flight table, query / put / table / vote / caller state via H4 snapshots) and the final API result against an injection-free run.',
             ref='DESIGN.md section 5 C09', technique='TLA+ Sock module: TLC exhaustive MC + TLC-enumerated injection plans on the real node + TLC trace validation of snapshot deltas')
PUTQ_NOTE = 'Trusted base: TLC; the simulator (reply delays decide the arrival order); fake peers; arrivals-while-pending computed from the datagram log and the observed completion instant.'
CLAIMED['C08'] = dict(text='PutQ.tla models the tallies (bubbling rule), check() with its 3xx majority early exit and the final decision; TLC evaluates OkIffAck / ConcurrencyOnlyIfAnswered / QueryErrorOtherwise on every run (kind x replica-set size x arrival sequence, the rest lost) and generates those runs; each is executed by a real writer against fake storage peers (large sets through extra_nodes), and TLC validates the observed result against the model and the L1 formulas on the arrivals that reached the writer while the call was pending, plus token ownership of every store request. The literal OkIffAck is known to fail for >= 5 nodes (KF-C08-1); the model reproduces it.',
             ref='DESIGN.md section 5 C08', technique='TLA+ PutQ module: TLC exhaustive enumeration of store-phase runs + replay on a real writer + TLC trace validation')
CLAIMED['C17'] = dict(text='PutQ.tla carries the local conflict rule table (LocalRule) and the majority rule; TLC checks the rule table over all item relations; the harness places a second put_mutable at each phase of the first one (during its lookup, in its store phase, after completion) for every relation (same item, seq lower/equal/higher, cas none/0/1/2) on a real node and TLC judges both callers\' results, that each gets exactly one, and that the replaced query leaks no caller; 301/302 majorities and non-mutable kinds are covered by the store-phase runs.',
             ref='DESIGN.md section 5 C17', technique='TLA+ PutQ module: rule table checked by TLC + phase-placed conflict scenarios on the real node + TLC trace validation')
Q_NOTE = 'Trusted base: TLC; the simulator (virtual clock, fixed tick cadence 250 ms); fake peers; H4 snapshots. The exhaustive design-level result is for one target, 3 peers, K = 2, up to 3 overlapping calls (MC_Query_*); on the real code the evidence is the enumerated fault plans.'
CLAIMED['C06'] = dict(text='Query.tla models one client node as the chain of state functions of Actor::tick (API message, receive, check puts, visit closest, check lookups, start puts, cleanup, deliver) with peers that answer, lose or age requests; TLC checks NotStuck, ExactlyOne and NoLeak as invariants and Terminates as a temporal property under weak fairness for every interleaving of 2-3 overlapping calls on one target. TLC also enumerates fault plans (every single fault of every reply index, pairs in the thorough tier) for 15 call scenarios; each plan runs on a real node (inline and through the production run loop) and TLC judges outcome counts, termination and the bound (contacted + 2) x (Tmax + cadence).',
             ref='DESIGN.md section 5 C06', technique='TLA+ Query module: TLC safety + liveness MC; TLC-enumerated fault plans replayed on the real node; TLC trace validation')
CLAIMED['C20'] = dict(text='NoLeak is an invariant of Query.tla (exhaustive for overlapping calls) and is evaluated by TLC on the H4 snapshot taken after a quiet period at the end of every fault-plan run on the real node; capacity bounds and LRU eviction order of the stores come from the Server module (exhaustive for capacities 1-2, random histories with capacities 1-3 validated by TLC); the statistics mirror (DHT size / responders / subnets = aggregate over cached lookups, never negative) and the 1000-entry cache cap are checked by TLC on snapshots taken while more than 1000 distinct lookups of all kinds roll the cache.',
             ref='DESIGN.md section 5 C20', technique='TLA+ Query + Server modules: TLC MC; TLC trace validation of H4 snapshots at quiescence, cache/statistics snapshots and store projections')
CLAIMED['C02'] = dict(text='Auth.tla states which crafted responses may surface (only authentic ones) for every delivery order and loss pattern of Byzantine responders; TLC enumerates every assignment of crafting labels to three responders per lookup kind, the harness realises each label with real keys / hashes on fake peers answering a real lookup, and TLC checks that every item the API yielded re-verifies (harness-side SHA-1 / Ed25519 against the requested target, key, salt, info_hash) and came from an authentic responder; authentic responses not surfacing is reported as drift.',
             ref='DESIGN.md section 5 C02', technique='TLA+ Auth module: TLC enumeration of Byzantine label assignments replayed on a real lookup + TLC trace validation with independent re-verification')
NOTE = {'C02': 'Trusted base: TLC; harness crypto (ed25519-dalek, sha1_smol used directly); the fix 66acd98 (key must hash to target) is what makes the wrong_key label fail to surface.', 'C06': Q_NOTE, 'C20': Q_NOTE + ' Float sums of the statistics are compared in the harness with relative tolerance 1e-6; TLC compares the integer counters exactly.', 'C08': PUTQ_NOTE, 'C17': PUTQ_NOTE, 'C09': 'Trusted base: TLC; the H4 snapshot projection; the settle-tick argument (state is a fixpoint of input-less ticks at a frozen instant). Replies to expired requests are only required to leave query/table state unchanged.', 'C10': 'Trusted base: TLC; the harness bencode/KRPC codec (independent of serde_bencode); the H3 WireMessage mirror of the crate-private Message.', 'C05': 'Trusted base: TLC; catch_unwind / thread-death detection in the simulator; the shape space is the bounded neighbourhood stated in MC_KrpcShapes plus seeded random mutations - not all byte strings up to the MTU.', 'C16': 'Trusted base: TLC; the lock-step simulator (production actor::run thread); fake peers signing authentic items; arrival order read from the simulator datagram log.', 'C11': RT_NOTE, 'C12': RT_NOTE, 'C19': 'Trusted base: TLC, CommunityModules Bitwise; the harness char->code point conversion. The 2^28 sweep is a Rust comparison against a reference that TLC validates on sampled vectors, not a TLC verdict.', 'C03': SERVER_NOTE, 'C04': SERVER_NOTE, 'C15': SERVER_NOTE + ' CRC32C token forgery by linearity is out of scope (design matter).'}
NA_REASON = {}

def main():
    checks = []
    for p in PROPS:
        if p in CLAIMED:
            c = CLAIMED[p]
            checks.append({
                'property_id': p,
                'quick_cmd': f'bin/check {p} quick',
                'thorough_cmd': f'bin/check {p} thorough',
                'evidence_file': f'/verif/evidence/{p}.json',
                'replay_cmd_template': f'bin/check {p} quick --replay {{path}}',
                'engine': 'tlc+mlverif',
                'level_claimed': {'category': 'model_checking', 'text': c['text'], 'design_ref': c['ref']},
                'level_note': NOTE[p],
                'technique': c['technique'],
            })
    m = {
        'version': 1,
        'setup_cmd': 'cd /verif/harness && cargo build --release --offline',
        'hooks': {
            'guard': 'cfg(mainline_verif)',
            'enable': 'rustflags --cfg mainline_verif in /verif/harness/.cargo/config.toml; the harness crate has a path dependency on /repo, so every check rebuilds the library from /repo\'s working tree with the hooks on',
            'baseline_off_cmd': 'cd /repo && cargo test --workspace --no-fail-fast --offline',
            'source_commits': HOOK_COMMITS,
            'add_only': False,
        },
        'engines': [
            {'name': 'tlc', 'path': '/verif/spec', 'serves_properties': sorted(CLAIMED), 'kind_free_text': 'TLA+ specifications checked by TLC 1.8 (exhaustive MC configs, generator configs, trace-validation configs)'},
            {'name': 'mlverif', 'path': '/verif/harness', 'serves_properties': sorted(CLAIMED), 'kind_free_text': 'Rust harness: deterministic simulator (virtual clock, in-memory UDP, lock-step threads), independent KRPC codec, replay drivers and trace recorders'},
        ],
        'checks': checks,
        'notes': 'bin/check <ID> <tier>: cargo build (rebuilds /repo with hooks) -> TLC model check -> TLC generator -> harness replay on the real code -> TLC trace validation -> known-findings classification -> evidence. Exit 2 = tool error.',
        'not_applicable': [{'property_id': p, 'reason': NA_REASON.get(p, 'check not built yet (work in progress in this round)')} for p in PROPS if p not in CLAIMED],
    }
    json.dump(m, open('/verif/MANIFEST.json', 'w'), indent=1)
    print('claimed', sorted(CLAIMED))

main()
