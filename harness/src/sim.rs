//! Deterministic discrete-event simulator around real nodes.
//!
//! * inline nodes: `Actor` values owned here; the harness stores the next input in the endpoint and
//!   calls the public `Actor::tick()`;
//! * threaded nodes: real `Dht` handles whose production `actor::run` thread runs in lock-step
//!   (it only runs between a grant and its next `recv_from`);
//! * fake peers: harness callbacks bound to addresses, speaking KRPC through the harness codec.
//!
//! Time is the library's virtual clock and advances only here.
use crate::krpc::Msg;
use crate::rng::Rng;
use dht::verif::{self as v, Actor, Config, Grant};
use dht::{Dht, ServerSettings};
use std::collections::{BTreeMap, BinaryHeap, HashMap, HashSet};
use std::net::{Ipv4Addr, SocketAddrV4};
use std::time::Duration;

pub const MS: u64 = 1_000_000;
pub const WATCHDOG: Duration = Duration::from_secs(20);

#[derive(Clone, Debug)]
pub struct NetCfg {
    pub lat_min_ms: u64,
    pub lat_max_ms: u64,
    /// per-mille
    pub loss: u64,
    /// per-mille
    pub dup: u64,
    pub cadence_ms: u64,
}
impl Default for NetCfg {
    fn default() -> Self {
        NetCfg {
            lat_min_ms: 5,
            lat_max_ms: 40,
            loss: 0,
            dup: 0,
            cadence_ms: 250,
        }
    }
}

#[derive(Clone, Debug)]
pub struct Wire {
    pub id: u64,
    pub from: SocketAddrV4,
    pub to: SocketAddrV4,
    pub bytes: Vec<u8>,
    pub sent_ns: u64,
}

/// What the schedule decides for a datagram at send time.
#[derive(Clone, Debug, PartialEq)]
pub enum Fate {
    /// deliver after this many ms
    Deliver(u64),
    Drop,
    /// deliver twice: after a and after b ms
    Dup(u64, u64),
}

/// One tick of the traced node: the instant and the datagram it was given (None = the read timed out).
#[derive(Clone, Debug)]
pub struct TickRec {
    pub t_ns: u64,
    pub input: Option<(Vec<u8>, SocketAddrV4)>,
}

#[derive(Clone, Debug)]
pub struct WireRec {
    pub id: u64,
    pub from: SocketAddrV4,
    pub to: SocketAddrV4,
    pub sent_ns: u64,
    pub fate: Fate,
    /// delivery instants (ns) actually executed; empty if dropped / destination dead
    pub delivered_ns: Vec<u64>,
    pub msg: Option<Msg>,
}

pub enum Kind {
    Inline(Box<Actor>),
    Threaded(Option<Dht>),
    Fake,
}

pub struct SimNode {
    pub idx: usize,
    pub addr: SocketAddrV4,
    pub ep: u64,
    pub kind: Kind,
    pub alive: bool,
    pub panicked: bool,
    pub hung: bool,
    pub next_idle_ns: u64,
    /// NAT: inbound only from addresses this node has sent to; no hair-pinning.
    pub nat: bool,
    pub sent_to: HashSet<SocketAddrV4>,
    pub ticks: u64,
}

#[derive(PartialEq, Eq)]
struct Ev {
    t: u64,
    seq: u64,
    wire: u64,
}
impl Ord for Ev {
    fn cmp(&self, o: &Self) -> std::cmp::Ordering {
        (o.t, o.seq).cmp(&(self.t, self.seq))
    }
}
impl PartialOrd for Ev {
    fn partial_cmp(&self, o: &Self) -> Option<std::cmp::Ordering> {
        Some(self.cmp(o))
    }
}

pub struct Outgoing {
    pub from: SocketAddrV4,
    pub to: SocketAddrV4,
    pub bytes: Vec<u8>,
    /// extra delay before the datagram enters the network (ms)
    pub delay_ms: u64,
}

pub type FakeHandler = Box<dyn FnMut(u64, &Wire, Option<&Msg>) -> Vec<Outgoing>>;
pub type FateFn = Box<dyn FnMut(&Wire, Option<&Msg>, &mut Rng) -> Option<Fate>>;

pub struct NodeOpts {
    pub ip: Ipv4Addr,
    pub port: u16,
    pub server_mode: bool,
    pub bootstrap: Vec<String>,
    pub public_ip: Option<Ipv4Addr>,
    pub settings: Option<ServerSettings>,
    pub threaded: bool,
    pub nat: bool,
}
impl NodeOpts {
    pub fn server(ip: Ipv4Addr, bootstrap: &[String]) -> Self {
        NodeOpts {
            ip,
            port: 6881,
            server_mode: true,
            bootstrap: bootstrap.to_vec(),
            public_ip: None,
            settings: None,
            threaded: false,
            nat: false,
        }
    }
    pub fn client(ip: Ipv4Addr, bootstrap: &[String]) -> Self {
        NodeOpts {
            server_mode: false,
            ..Self::server(ip, bootstrap)
        }
    }
    pub fn threaded(mut self) -> Self {
        self.threaded = true;
        self
    }
}

pub struct Sim {
    pub nodes: Vec<SimNode>,
    pub by_addr: HashMap<SocketAddrV4, usize>,
    pub fakes: HashMap<SocketAddrV4, FakeHandler>,
    /// a fake that receives every datagram addressed to an unknown address
    pub sink: Option<FakeHandler>,
    queue: BinaryHeap<Ev>,
    wires: BTreeMap<u64, Wire>,
    next_wire: u64,
    next_seq: u64,
    pub cfg: NetCfg,
    pub rng: Rng,
    pub fate: Option<FateFn>,
    pub record: bool,
    pub log: Vec<WireRec>,
    log_index: HashMap<u64, usize>,
    pub start_ns: u64,
    pub steps: u64,
    /// observe every delivery to this (inline) node: settle tick + snapshot before, snapshot after
    pub watch: Option<usize>,
    pub watch_log: Vec<WatchRec>,
    /// record every tick of this node (instant + input) in `tick_log`
    pub tick_trace: Option<usize>,
    pub tick_log: Vec<TickRec>,
}

pub struct WatchRec {
    pub wire: Wire,
    pub t_ns: u64,
    pub pre: v::Snapshot,
    pub post: v::Snapshot,
}

impl Sim {
    pub fn new(seed: u64, cfg: NetCfg) -> Self {
        v::sim_reset();
        v::reset_clock();
        crate::rng::seed_global(seed);
        Sim {
            nodes: vec![],
            by_addr: HashMap::new(),
            fakes: HashMap::new(),
            sink: None,
            queue: BinaryHeap::new(),
            wires: BTreeMap::new(),
            next_wire: 0,
            next_seq: 0,
            cfg,
            rng: Rng::new(seed),
            fate: None,
            record: false,
            log: vec![],
            log_index: HashMap::new(),
            start_ns: v::now_ns(),
            steps: 0,
            watch: None,
            watch_log: vec![],
            tick_trace: None,
            tick_log: vec![],
        }
    }

    pub fn now_ns(&self) -> u64 {
        v::now_ns()
    }
    /// virtual milliseconds since the start of this simulation
    pub fn now_ms(&self) -> u64 {
        (v::now_ns() - self.start_ns) / MS
    }

    fn advance_to(&mut self, t: u64) {
        let now = v::now_ns();
        if t > now {
            v::advance(Duration::from_nanos(t - now));
        }
    }

    // ------------------------------------------------------------ node construction

    pub fn add_node(&mut self, o: NodeOpts) -> usize {
        let idx = self.nodes.len();
        let config = Config {
            bootstrap: o.bootstrap.clone(),
            port: Some(o.port),
            server_settings: o.settings.clone().unwrap_or_default(),
            server_mode: o.server_mode,
            public_ip: o.public_ip,
        };
        v::sim_next_ip(o.ip);
        let (kind, ep, addr) = if o.threaded {
            let before = v::sim_bound_count();
            let h = std::thread::spawn(move || Dht::new(config));
            // start-up hand-shake: grant input-less ticks at a frozen instant until build returns
            let t0 = std::time::Instant::now();
            while v::sim_bound_count() == before {
                if h.is_finished() || t0.elapsed() > WATCHDOG {
                    break;
                }
                std::thread::yield_now();
            }
            if v::sim_bound_count() == before {
                let r = h.join();
                panic!("threaded node failed to bind: {:?}", r.map(|x| x.map(|_| ())));
            }
            let (ep, addr) = v::sim_last_bound();
            while !h.is_finished() {
                if v::sim_parked_now(ep) {
                    v::sim_step(ep, Grant::Timeout, WATCHDOG);
                } else {
                    std::thread::yield_now();
                }
                if t0.elapsed() > WATCHDOG {
                    panic!("threaded node start-up timed out");
                }
            }
            let dht = h.join().expect("builder thread").expect("Dht::new");
            v::sim_wait_parked(ep, WATCHDOG);
            // discard datagrams of frozen-time ticks? no: they are real output; keep them
            (Kind::Threaded(Some(dht)), ep, addr)
        } else {
            v::sim_inline(true);
            let actor = Actor::new(config).expect("Actor::new");
            v::sim_inline(false);
            let (ep, addr) = v::sim_last_bound();
            (Kind::Inline(Box::new(actor)), ep, addr)
        };
        self.by_addr.insert(addr, idx);
        self.nodes.push(SimNode {
            idx,
            addr,
            ep,
            kind,
            alive: true,
            panicked: false,
            hung: false,
            next_idle_ns: self.now_ns(),
            nat: o.nat,
            sent_to: HashSet::new(),
            ticks: 0,
        });
        self.collect_outbox();
        idx
    }

    pub fn add_fake(&mut self, addr: SocketAddrV4, h: FakeHandler) {
        self.fakes.insert(addr, h);
    }

    pub fn actor(&mut self, n: usize) -> &mut Actor {
        match &mut self.nodes[n].kind {
            Kind::Inline(a) => a,
            _ => panic!("node {n} is not inline"),
        }
    }
    pub fn dht(&self, n: usize) -> Dht {
        match &self.nodes[n].kind {
            Kind::Threaded(Some(d)) => d.clone(),
            _ => panic!("node {n} is not threaded"),
        }
    }
    pub fn is_threaded(&self, n: usize) -> bool {
        matches!(self.nodes[n].kind, Kind::Threaded(_))
    }

    /// Crash a node: it stops receiving and its thread (if any) ends.
    pub fn crash(&mut self, n: usize) {
        if !self.nodes[n].alive {
            return;
        }
        self.nodes[n].alive = false;
        let ep = self.nodes[n].ep;
        let old = std::mem::replace(&mut self.nodes[n].kind, Kind::Fake);
        match old {
            Kind::Threaded(d) => {
                drop(d);
                // one grant so the loop observes Disconnected
                let mut guard = 0;
                while !v::sim_is_dead(ep) && guard < 100 {
                    v::sim_step(ep, Grant::Timeout, WATCHDOG);
                    guard += 1;
                }
            }
            Kind::Inline(a) => drop(a),
            Kind::Fake => {}
        }
        // whatever it emitted while dying is discarded
        let _ = v::sim_take_outbox();
    }

    /// Snapshot of a node's state (H4 projection).
    pub fn snapshot(&mut self, n: usize) -> Option<v::Snapshot> {
        if !self.nodes[n].alive {
            return None;
        }
        match &self.nodes[n].kind {
            Kind::Inline(a) => Some(a.verif_snapshot()),
            Kind::Threaded(Some(d)) => {
                let rx = v::request_snapshot(d);
                let ep = self.nodes[n].ep;
                // the message is consumed at the start of the next loop iteration; ticks at a frozen
                // instant with no input are idempotent
                for _ in 0..4 {
                    if let Ok(s) = rx.try_recv() {
                        self.collect_outbox();
                        return Some(s);
                    }
                    if v::sim_step(ep, Grant::Timeout, WATCHDOG) != Some(true) {
                        break;
                    }
                }
                let r = rx.try_recv().ok();
                self.collect_outbox();
                r
            }
            _ => None,
        }
    }

    // ------------------------------------------------------------ network

    pub fn inject(&mut self, from: SocketAddrV4, to: SocketAddrV4, bytes: Vec<u8>, delay_ms: u64) -> u64 {
        let id = self.next_wire;
        self.next_wire += 1;
        let w = Wire {
            id,
            from,
            to,
            bytes,
            sent_ns: self.now_ns(),
        };
        let msg = Msg::parse(&w.bytes);
        let t = self.now_ns() + delay_ms * MS;
        if self.record {
            self.log_index.insert(id, self.log.len());
            self.log.push(WireRec {
                id,
                from,
                to,
                sent_ns: w.sent_ns,
                fate: Fate::Deliver(delay_ms),
                delivered_ns: vec![],
                msg,
            });
        }
        self.wires.insert(id, w);
        self.push_ev(t, id);
        id
    }

    fn push_ev(&mut self, t: u64, wire: u64) {
        self.next_seq += 1;
        self.queue.push(Ev {
            t,
            seq: self.next_seq,
            wire,
        });
    }

    fn send(&mut self, from: SocketAddrV4, to: SocketAddrV4, bytes: Vec<u8>, extra_delay_ms: u64) {
        let id = self.next_wire;
        self.next_wire += 1;
        let w = Wire {
            id,
            from,
            to,
            bytes,
            sent_ns: self.now_ns(),
        };
        let msg = Msg::parse(&w.bytes);
        let mut fate = None;
        if let Some(f) = self.fate.as_mut() {
            fate = f(&w, msg.as_ref(), &mut self.rng);
        }
        let fate = fate.unwrap_or_else(|| {
            let lat = |r: &mut Rng, c: &NetCfg| r.range(c.lat_min_ms, c.lat_max_ms);
            if self.cfg.loss > 0 && self.rng.below(1000) < self.cfg.loss {
                Fate::Drop
            } else if self.cfg.dup > 0 && self.rng.below(1000) < self.cfg.dup {
                Fate::Dup(lat(&mut self.rng, &self.cfg), lat(&mut self.rng, &self.cfg))
            } else {
                Fate::Deliver(lat(&mut self.rng, &self.cfg))
            }
        });
        let now = self.now_ns() + extra_delay_ms * MS;
        match &fate {
            Fate::Deliver(ms) => self.push_ev(now + ms * MS, id),
            Fate::Drop => {}
            Fate::Dup(a, b) => {
                self.push_ev(now + a * MS, id);
                self.push_ev(now + b * MS, id);
            }
        }
        if self.record {
            self.log_index.insert(id, self.log.len());
            self.log.push(WireRec {
                id,
                from,
                to,
                sent_ns: w.sent_ns,
                fate: fate.clone(),
                delivered_ns: vec![],
                msg,
            });
        }
        if fate != Fate::Drop {
            self.wires.insert(id, w);
        }
    }

    fn collect_outbox(&mut self) {
        for d in v::sim_take_outbox() {
            if let Some(&i) = self.by_addr.get(&d.from) {
                self.nodes[i].sent_to.insert(d.to);
            }
            self.send(d.from, d.to, d.bytes, 0);
        }
    }

    // ------------------------------------------------------------ stepping

    fn tick_node(&mut self, n: usize, input: Option<(Vec<u8>, SocketAddrV4)>) {
        if !self.nodes[n].alive {
            return;
        }
        self.steps += 1;
        self.nodes[n].ticks += 1;
        if self.tick_trace == Some(n) {
            self.tick_log.push(TickRec { t_ns: self.now_ns(), input: input.clone() });
        }
        let ep = self.nodes[n].ep;
        let grant = match input {
            Some((b, from)) => Grant::Datagram(b, from),
            None => Grant::Timeout,
        };
        match &mut self.nodes[n].kind {
            Kind::Inline(a) => {
                v::sim_set_input(ep, grant);
                let r = std::panic::catch_unwind(std::panic::AssertUnwindSafe(|| a.tick()));
                if r.is_err() {
                    self.nodes[n].panicked = true;
                    self.nodes[n].alive = false;
                }
            }
            Kind::Threaded(_) => match v::sim_step(ep, grant, WATCHDOG) {
                Some(true) => {}
                Some(false) => {
                    self.nodes[n].alive = false;
                    self.nodes[n].panicked = v::sim_panicked(ep);
                }
                None => {
                    self.nodes[n].alive = false;
                    self.nodes[n].hung = true;
                }
            },
            Kind::Fake => {}
        }
        self.nodes[n].next_idle_ns = self.now_ns() + self.cfg.cadence_ms * MS;
        self.collect_outbox();
    }

    /// Deliver `bytes` from `from` to inline node `n` right now and return what it emitted during
    /// that tick (not routed into the network).
    pub fn exchange(&mut self, n: usize, from: SocketAddrV4, bytes: &[u8]) -> Vec<v::Datagram> {
        let ep = self.nodes[n].ep;
        self.steps += 1;
        if let Kind::Inline(a) = &mut self.nodes[n].kind {
            v::sim_set_input(ep, Grant::Datagram(bytes.to_vec(), from));
            let r = std::panic::catch_unwind(std::panic::AssertUnwindSafe(|| a.tick()));
            if r.is_err() {
                self.nodes[n].panicked = true;
                self.nodes[n].alive = false;
            }
        }
        v::sim_take_outbox()
    }

    /// Put the datagrams emitted outside a tick (an API call handled inline) on the wire now.
    pub fn flush(&mut self) {
        self.collect_outbox();
    }

    /// Give node `n` one input-less tick right now (e.g. after issuing an API call).
    pub fn poke(&mut self, n: usize) {
        self.tick_node(n, None);
    }

    fn deliver(&mut self, wid: u64) {
        let w = match self.wires.get(&wid) {
            Some(w) => w.clone(),
            None => return,
        };
        let now = self.now_ns();
        if let Some(&n) = self.by_addr.get(&w.to) {
            let node = &self.nodes[n];
            if !node.alive {
                return;
            }
            if node.nat && (!node.sent_to.contains(&w.from) || w.from == node.addr) {
                return;
            }
            if self.record {
                if let Some(&i) = self.log_index.get(&wid) {
                    self.log[i].delivered_ns.push(now);
                }
            }
            if self.watch == Some(n) {
                // an input-less tick at this instant makes the state a fixpoint of "nothing arrives"
                self.tick_node(n, None);
                let pre = self.snapshot(n);
                self.tick_node(n, Some((w.bytes.clone(), w.from)));
                let post = self.snapshot(n);
                if let (Some(pre), Some(post)) = (pre, post) {
                    self.watch_log.push(WatchRec { wire: w.clone(), t_ns: now, pre, post });
                }
                return;
            }
            self.tick_node(n, Some((w.bytes.clone(), w.from)));
            return;
        }
        let msg = Msg::parse(&w.bytes);
        let outs = if let Some(h) = self.fakes.get_mut(&w.to) {
            h(now, &w, msg.as_ref())
        } else if let Some(h) = self.sink.as_mut() {
            h(now, &w, msg.as_ref())
        } else {
            return;
        };
        if self.record {
            if let Some(&i) = self.log_index.get(&wid) {
                self.log[i].delivered_ns.push(now);
            }
        }
        for o in outs {
            self.send(o.from, o.to, o.bytes, o.delay_ms);
        }
    }

    fn next_event_time(&self) -> Option<u64> {
        let q = self.queue.peek().map(|e| e.t);
        let idle = self
            .nodes
            .iter()
            .filter(|n| n.alive && !matches!(n.kind, Kind::Fake))
            .map(|n| n.next_idle_ns)
            .min();
        match (q, idle) {
            (Some(a), Some(b)) => Some(a.min(b)),
            (a, b) => a.or(b),
        }
    }

    /// Execute the next event (datagram delivery or idle tick) if it is due at or before `limit_ns`.
    pub fn step(&mut self, limit_ns: u64) -> bool {
        let t = match self.next_event_time() {
            Some(t) if t <= limit_ns => t,
            _ => {
                self.advance_to(limit_ns);
                return false;
            }
        };
        self.advance_to(t);
        let now = self.now_ns();
        if let Some(e) = self.queue.peek() {
            if e.t <= now {
                let e = self.queue.pop().expect("peeked");
                self.deliver(e.wire);
                return true;
            }
        }
        // idle tick of the first due node (by index: deterministic)
        let due: Option<usize> = self
            .nodes
            .iter()
            .filter(|n| n.alive && !matches!(n.kind, Kind::Fake) && n.next_idle_ns <= now)
            .map(|n| n.idx)
            .next();
        if let Some(n) = due {
            self.tick_node(n, None);
        }
        true
    }

    /// Run for `ms` virtual milliseconds.
    pub fn run_for(&mut self, ms: u64) {
        let limit = self.now_ns() + ms * MS;
        while self.step(limit) {}
    }

    /// Run until `done()` or `max_ms` virtual milliseconds elapsed; returns whether done.
    pub fn run_until(&mut self, max_ms: u64, mut done: impl FnMut(&mut Sim) -> bool) -> bool {
        let limit = self.now_ns() + max_ms * MS;
        loop {
            if done(self) {
                return true;
            }
            if !self.step(limit) {
                return done(self);
            }
        }
    }

    pub fn pending_datagrams(&self) -> usize {
        self.queue.len()
    }

    /// Shut every threaded node down (must be called before the Sim is dropped).
    pub fn shutdown(&mut self) {
        for n in 0..self.nodes.len() {
            if self.is_threaded(n) {
                self.crash(n);
            }
        }
    }
}

impl Drop for Sim {
    fn drop(&mut self) {
        self.shutdown();
    }
}

pub fn private_ip(i: usize) -> Ipv4Addr {
    Ipv4Addr::new(10, (i / 60000) as u8, ((i / 250) % 240) as u8, (i % 250) as u8 + 1)
}

/// Public (non-exempt) addresses spread over many /6 subnets.
pub fn public_ip(i: usize) -> Ipv4Addr {
    let a = [45u8, 62, 77, 81, 93, 104, 131, 146, 151, 185, 193, 203, 212, 5, 23, 37];
    Ipv4Addr::new(a[i % a.len()], (i / 16 % 250) as u8 + 1, (i / 4000) as u8 + 7, (i % 250) as u8 + 1)
}
