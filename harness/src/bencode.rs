//! Independent bencode codec (not sharing code with the library under test).
use std::collections::BTreeMap;

#[derive(Clone, Debug, PartialEq, Eq)]
pub enum B {
    Int(i128),
    Bytes(Vec<u8>),
    List(Vec<B>),
    /// Sorted dictionary.
    Dict(BTreeMap<Vec<u8>, B>),
    /// A dictionary written with exactly this key order / duplicates (for malformed input).
    RawDict(Vec<(Vec<u8>, B)>),
    /// Raw bytes spliced into the output verbatim (for malformed input).
    Raw(Vec<u8>),
}

impl B {
    pub fn bytes<T: AsRef<[u8]>>(b: T) -> B {
        B::Bytes(b.as_ref().to_vec())
    }
    pub fn str(s: &str) -> B {
        B::Bytes(s.as_bytes().to_vec())
    }
    pub fn dict() -> B {
        B::Dict(BTreeMap::new())
    }
    pub fn set(&mut self, k: &str, v: B) -> &mut Self {
        if let B::Dict(m) = self {
            m.insert(k.as_bytes().to_vec(), v);
        }
        self
    }
    pub fn remove(&mut self, k: &str) -> Option<B> {
        if let B::Dict(m) = self {
            m.remove(k.as_bytes())
        } else {
            None
        }
    }
    pub fn get(&self, k: &str) -> Option<&B> {
        match self {
            B::Dict(m) => m.get(k.as_bytes()),
            _ => None,
        }
    }
    pub fn get_mut(&mut self, k: &str) -> Option<&mut B> {
        match self {
            B::Dict(m) => m.get_mut(k.as_bytes()),
            _ => None,
        }
    }
    pub fn as_bytes(&self) -> Option<&[u8]> {
        match self {
            B::Bytes(b) => Some(b),
            _ => None,
        }
    }
    pub fn as_int(&self) -> Option<i128> {
        match self {
            B::Int(i) => Some(*i),
            _ => None,
        }
    }
    pub fn as_list(&self) -> Option<&[B]> {
        match self {
            B::List(l) => Some(l),
            _ => None,
        }
    }
    pub fn encode(&self) -> Vec<u8> {
        let mut out = Vec::new();
        self.enc(&mut out);
        out
    }
    fn enc(&self, out: &mut Vec<u8>) {
        match self {
            B::Int(i) => {
                out.push(b'i');
                out.extend(i.to_string().bytes());
                out.push(b'e');
            }
            B::Bytes(b) => {
                out.extend(b.len().to_string().bytes());
                out.push(b':');
                out.extend(b);
            }
            B::List(l) => {
                out.push(b'l');
                for x in l {
                    x.enc(out);
                }
                out.push(b'e');
            }
            B::Dict(m) => {
                out.push(b'd');
                for (k, v) in m {
                    out.extend(k.len().to_string().bytes());
                    out.push(b':');
                    out.extend(k);
                    v.enc(out);
                }
                out.push(b'e');
            }
            B::RawDict(m) => {
                out.push(b'd');
                for (k, v) in m {
                    out.extend(k.len().to_string().bytes());
                    out.push(b':');
                    out.extend(k);
                    v.enc(out);
                }
                out.push(b'e');
            }
            B::Raw(r) => out.extend(r),
        }
    }

    /// Strict decoder: canonical bencode only (sorted unique keys, minimal integers, no trailing bytes).
    pub fn decode_canonical(bytes: &[u8]) -> Result<B, String> {
        let mut p = Parser {
            b: bytes,
            i: 0,
            strict: true,
        };
        let v = p.value(0)?;
        if p.i != bytes.len() {
            return Err(format!("trailing bytes at {}", p.i));
        }
        Ok(v)
    }
    /// Lenient decoder (accepts unsorted keys, keeps the last duplicate).
    pub fn decode(bytes: &[u8]) -> Result<B, String> {
        let mut p = Parser {
            b: bytes,
            i: 0,
            strict: false,
        };
        p.value(0)
    }

    /// JSON rendering used in traces: ints as numbers (strings when beyond 2^31), byte strings as
    /// `{"h": hex}`; dictionary keys as text.
    pub fn to_json(&self) -> serde_json::Value {
        use serde_json::{json, Value};
        match self {
            B::Int(i) => {
                if *i >= -(1 << 31) && *i < (1 << 31) {
                    json!(*i as i64)
                } else {
                    json!({ "big": i.to_string() })
                }
            }
            B::Bytes(b) => json!({ "h": hex(b) }),
            B::List(l) => Value::Array(l.iter().map(|x| x.to_json()).collect()),
            B::Dict(m) => {
                let mut o = serde_json::Map::new();
                for (k, v) in m {
                    o.insert(String::from_utf8_lossy(k).to_string(), v.to_json());
                }
                Value::Object(o)
            }
            B::RawDict(m) => {
                let mut o = serde_json::Map::new();
                for (k, v) in m {
                    o.insert(String::from_utf8_lossy(k).to_string(), v.to_json());
                }
                Value::Object(o)
            }
            B::Raw(r) => json!({ "raw": hex(r) }),
        }
    }
}

struct Parser<'a> {
    b: &'a [u8],
    i: usize,
    strict: bool,
}

impl Parser<'_> {
    fn value(&mut self, depth: usize) -> Result<B, String> {
        if depth > 64 {
            return Err("too deep".into());
        }
        let c = *self.b.get(self.i).ok_or("eof")?;
        match c {
            b'i' => {
                self.i += 1;
                let start = self.i;
                while *self.b.get(self.i).ok_or("eof in int")? != b'e' {
                    self.i += 1;
                }
                let s = std::str::from_utf8(&self.b[start..self.i]).map_err(|e| e.to_string())?;
                if self.strict && (s == "-0" || (s.len() > 1 && s.starts_with('0')) || s.starts_with("-0") || s.is_empty()) {
                    return Err(format!("non canonical int {s}"));
                }
                let v: i128 = s.parse().map_err(|_| format!("bad int {s}"))?;
                self.i += 1;
                Ok(B::Int(v))
            }
            b'l' => {
                self.i += 1;
                let mut l = vec![];
                while *self.b.get(self.i).ok_or("eof in list")? != b'e' {
                    l.push(self.value(depth + 1)?);
                }
                self.i += 1;
                Ok(B::List(l))
            }
            b'd' => {
                self.i += 1;
                let mut m = BTreeMap::new();
                let mut last: Option<Vec<u8>> = None;
                while *self.b.get(self.i).ok_or("eof in dict")? != b'e' {
                    let k = match self.value(depth + 1)? {
                        B::Bytes(k) => k,
                        _ => return Err("non-string key".into()),
                    };
                    if self.strict {
                        if let Some(l) = &last {
                            if *l >= k {
                                return Err("keys not strictly ascending".into());
                            }
                        }
                    }
                    last = Some(k.clone());
                    let v = self.value(depth + 1)?;
                    m.insert(k, v);
                }
                self.i += 1;
                Ok(B::Dict(m))
            }
            b'0'..=b'9' => {
                let start = self.i;
                while *self.b.get(self.i).ok_or("eof in len")? != b':' {
                    if !self.b[self.i].is_ascii_digit() {
                        return Err("bad length".into());
                    }
                    self.i += 1;
                }
                let s = std::str::from_utf8(&self.b[start..self.i]).map_err(|e| e.to_string())?;
                if self.strict && s.len() > 1 && s.starts_with('0') {
                    return Err("non canonical length".into());
                }
                let n: usize = s.parse().map_err(|_| "bad length")?;
                self.i += 1;
                if self.i + n > self.b.len() {
                    return Err("string past end".into());
                }
                let v = self.b[self.i..self.i + n].to_vec();
                self.i += n;
                Ok(B::Bytes(v))
            }
            _ => Err(format!("unexpected byte {c} at {}", self.i)),
        }
    }
}

pub fn hex(b: &[u8]) -> String {
    let mut s = String::with_capacity(b.len() * 2);
    for x in b {
        s.push_str(&format!("{x:02x}"));
    }
    s
}

pub fn unhex(s: &str) -> Vec<u8> {
    (0..s.len() / 2)
        .map(|i| u8::from_str_radix(&s[2 * i..2 * i + 2], 16).unwrap_or(0))
        .collect()
}
