//! C01 driver: put-then-get in networks of real nodes (1..20 servers + clients deterministic verdict;
//! 50..300 nodes by success rate), all four data kinds, any writer/reader pair, crash subsets after the
//! put, readers with a concurrent lookup for the same key. Judged by PutGetTrace.tla.
use crate::calls::{Call, GetKind, Item, Outcome};
use crate::crypto;
use crate::net::*;
use crate::rng::Rng;
use crate::sim::*;
use crate::util::{Args, Out};
use dht::verif as v;
use dht::{Id, MutableItem, PutRequestSpecific};
use serde_json::{json, Value};
use std::collections::{HashMap, HashSet};
use std::net::SocketAddrV4;

pub struct Stored {
    kind: &'static str,
    target: [u8; 20],
    request: PutRequestSpecific,
    get: GetKind,
    expect: Item,
}

/// Values of every size class up to the legal maximum of 1000 bytes: a short text, 640 bytes, 1000 bytes (with the `nodes`
/// list of a storing node that knows 20 peers the answer is a datagram of about 1.6 kB)
fn sized(mut val: Vec<u8>, i: u64) -> Vec<u8> {
    let want = match i % 4 {
        1 => 1000,
        2 => 640,
        3 => 999,
        _ => val.len(),
    };
    let mut k = 0u8;
    while val.len() < want {
        val.push(b'a' + (k % 26));
        k = k.wrapping_add(7);
    }
    val
}

pub fn make_item(kind: &'static str, i: u64, writer: SocketAddrV4) -> Stored {
    match kind {
        "immutable" => {
            let val = sized(format!("immutable value number {i}").into_bytes(), i);
            let t = crypto::immutable_target(&val);
            Stored { kind, target: t, request: PutRequestSpecific::PutImmutable(v::PutImmutableRequestArguments { target: Id::from(t), v: val.clone().into() }), get: GetKind::Immutable, expect: Item::Immutable(val) }
        }
        "mutable" | "mutable_salt" => {
            let sk = crypto::keypair(7);
            let salt: Option<Vec<u8>> = if kind == "mutable_salt" { Some(format!("salt{i}").into_bytes()) } else { None };
            let val = sized(format!("mutable value {i}").into_bytes(), i);
            let item = MutableItem::new(&sk, &val, 40 + i as i64, salt.as_deref());
            let t = *item.target().as_bytes();
            let expect = Item::from_mutable(&item);
            Stored { kind, target: t, request: PutRequestSpecific::PutMutable(v::PutMutableRequestArguments::from(item, None)), get: GetKind::Mutable { salt, seq: None }, expect }
        }
        "announce" | "announce_implied" => {
            let t = crypto::sha1(format!("infohash {i}").as_bytes());
            let implied = kind == "announce_implied";
            let port = if implied { writer.port() } else { 4242 };
            Stored { kind, target: t, request: PutRequestSpecific::AnnouncePeer(v::AnnouncePeerRequestArguments { info_hash: Id::from(t), port: if implied { 0 } else { 4242 }, implied_port: if implied { Some(true) } else { None } }), get: GetKind::Peers, expect: Item::Peers(vec![SocketAddrV4::new(*writer.ip(), port)]) }
        }
        _ => {
            let sk = crypto::keypair(8);
            let t = crypto::sha1(format!("signed infohash {i}").as_bytes());
            let ts = v::unix_micros();
            let sig = crypto::sign(&sk, &crypto::announce_signable(&t, ts));
            let k = sk.verifying_key().to_bytes();
            Stored { kind: "signed", target: t, request: PutRequestSpecific::AnnounceSignedPeer(v::AnnounceSignedPeerRequestArguments { info_hash: Id::from(t), t: ts, k, sig }), get: GetKind::SignedPeers, expect: Item::SignedPeers(vec![(k, ts, sig)]) }
        }
    }
}

fn found(call: &Call, expect: &Item) -> bool {
    call.items.iter().any(|(_, it)| match (it, expect) {
        (Item::Immutable(a), Item::Immutable(b)) => a == b,
        (Item::Mutable { k, seq, v, .. }, Item::Mutable { k: k2, seq: s2, v: v2, .. }) => k == k2 && seq == s2 && v == v2,
        (Item::Peers(a), Item::Peers(b)) => b.iter().all(|x| a.contains(x)),
        (Item::SignedPeers(a), Item::SignedPeers(b)) => b.iter().all(|x| a.iter().any(|y| y.0 == x.0 && y.1 == x.1 && y.2 == x.2)),
        _ => false,
    })
}

/// acknowledgements delivered to the writer for its store requests while the put was pending
fn ackers(net: &Net, writer: usize, target: &[u8; 20], log0: usize, done_ns: u64) -> Vec<SocketAddrV4> {
    let me = net.sim.nodes[writer].addr;
    let mut tids: HashMap<Vec<u8>, SocketAddrV4> = HashMap::new();
    let mut acks = vec![];
    for r in &net.sim.log[log0..] {
        if let Some(m) = &r.msg {
            if r.from == me && m.is_request() && m.target() == Some(*target) {
                let q = m.q.clone().unwrap_or_default();
                if q == "put" || q.starts_with("announce") {
                    tids.insert(m.tid.clone(), r.to);
                }
            } else if r.to == me && m.is_response() && !r.delivered_ns.is_empty() && r.delivered_ns[0] <= done_ns {
                if tids.get(&m.tid) == Some(&r.from) {
                    acks.push(r.from);
                }
            }
        }
    }
    acks
}

#[allow(clippy::too_many_arguments)]
pub fn trial(net: &mut Net, b: u64, kind: &'static str, writer: usize, reader: usize, crash: &[usize], concurrent: &str, rng: &mut Rng) -> Value {
    trial_opts(net, b, kind, writer, reader, crash, concurrent, rng, false)
}

/// `polled`: the reader already looked the key up (before it existed) and a server joined afterwards: the get follows within
/// the lifetime of the reader's cached lookup, and the reader contacts the whole network once more before the crashes.
#[allow(clippy::too_many_arguments)]
pub fn trial_opts(net: &mut Net, b: u64, kind: &'static str, writer: usize, reader: usize, crash: &[usize], concurrent: &str, rng: &mut Rng, polled: bool) -> Value {
    let waddr = net.sim.nodes[writer].addr;
    let st = make_item(kind, b, waddr);
    let log0 = net.sim.log.len();
    let mut put = net.sim.call_put(writer, st.request.clone(), None, "put");
    net.sim.poke(writer);
    net.sim.run_calls(&mut [&mut put], 60_000);
    let put_done = put.done_ns().unwrap_or(net.sim.now_ns());
    let acks = ackers(net, writer, &st.target, log0, put_done);
    // every fourth mutable trial: the writer REWRITES the item under the same seq with another value (both puts return Ok): the
    // lookup must return what was written last
    let mut st = st;
    let mut rewritten = false;
    if b % 4 == 2 && kind.starts_with("mutable") && put.done() {
        if let PutRequestSpecific::PutMutable(a) = &st.request {
            let sk = crypto::keypair(7);
            let val = format!("rewritten value {b}").into_bytes();
            let item = MutableItem::new(&sk, &val, a.seq, a.salt.as_deref());
            let expect = Item::from_mutable(&item);
            let req = PutRequestSpecific::PutMutable(v::PutMutableRequestArguments::from(item, None));
            let mut put2 = net.sim.call_put(writer, req.clone(), None, "rewrite");
            net.sim.poke(writer);
            net.sim.run_calls(&mut [&mut put2], 60_000);
            if matches!(put2.outcome(), Some(Outcome::PutOk(_))) {
                st.request = req;
                st.expect = expect;
                rewritten = true;
            }
        }
    }
    // every third announce: a SECOND announcer for the same info_hash, on the writer's IP address (another client behind the
    // same NAT / on the same host, other port; for signed announcements: another signer) announces after the first one.
    // The first announcer's record must still be found.
    // (every other time the second announcer names port 0 explicitly - nothing stops a client from doing so)
    let mut second = "";
    if b % 3 == 1 && (kind.starts_with("announce") || st.kind == "signed") && !polled {
        let mut o = NodeOpts::client(*waddr.ip(), &net.boot);
        o.port = 7000 + (b % 50000) as u16;
        let w2 = net.sim.add_node(o);
        net.clients.push(w2);
        net.sim.run_for(3000);
        let req2 = if st.kind == "signed" {
            let sk = crypto::keypair(9);
            let ts = v::unix_micros();
            let sig = crypto::sign(&sk, &crypto::announce_signable(&st.target, ts));
            PutRequestSpecific::AnnounceSignedPeer(v::AnnounceSignedPeerRequestArguments { info_hash: Id::from(st.target), t: ts, k: sk.verifying_key().to_bytes(), sig })
        } else {
            PutRequestSpecific::AnnouncePeer(v::AnnouncePeerRequestArguments { info_hash: Id::from(st.target), port: if (b / 6) % 2 == 0 { 0 } else { 4343 }, implied_port: None })
        };
        let mut put2 = net.sim.call_put(w2, req2, None, "put2");
        net.sim.poke(w2);
        net.sim.run_calls(&mut [&mut put2], 60_000);
        second = if matches!(put2.outcome(), Some(Outcome::PutOk(_))) { "+second_announcer" } else { "+second_announcer_failed" };
    }
    // the get may come right away, a minute later, or after several maintenance rounds
    let delay_ms = match if polled { 0 } else { b % 5 } {
        0 | 1 => rng.range(100, 3000),
        2 => rng.range(46_000, 70_000),
        3 => rng.range(330_000, 400_000),
        _ => rng.range(930_000, 1_000_000),
    };
    net.sim.run_for(delay_ms);
    if polled {
        // unrelated traffic: the reader looks another target up and thereby hears from every server, the late joiner included
        let mut other = net.sim.call_get(reader, GetKind::Immutable, crypto::sha1(&[b as u8, 0xAA]), "unrelated");
        net.sim.poke(reader);
        net.sim.run_calls(&mut [&mut other], 60_000);
        net.sim.run_for(500);
    }
    for &c in crash {
        net.sim.crash(c);
    }
    let alive: HashSet<SocketAddrV4> = net.sim.nodes.iter().filter(|n| n.alive).map(|n| n.addr).collect();
    let knows_live = net.sim.snapshot(reader).map(|s| s.routing_table.nodes.iter().any(|n| n.addr.parse::<SocketAddrV4>().map(|a| alive.contains(&a)).unwrap_or(false))).unwrap_or(false);
    let mut extra: Option<Call> = None;
    match concurrent {
        "get" => extra = Some(net.sim.call_get(reader, st.get.clone(), st.target, "other_get")),
        "find_node" => extra = Some(net.sim.call_get(reader, GetKind::FindNode, st.target, "other_fn")),
        "put" => {
            // the reader itself writes a newer version of the same key (and salt) and reads while that put is in flight
            if let PutRequestSpecific::PutMutable(a) = &st.request {
                let sk = crypto::keypair(7);
                let item = MutableItem::new(&sk, b"newer version by the reader", a.seq + 1, a.salt.as_deref());
                extra = Some(net.sim.call_put(reader, PutRequestSpecific::PutMutable(v::PutMutableRequestArguments::from(item, Some(a.seq))), None, "own_put"));
            }
        }
        _ => {}
    }
    let mut get = net.sim.call_get(reader, st.get.clone(), st.target, "get");
    net.sim.poke(reader);
    let done = match extra.as_mut() {
        Some(e) => net.sim.run_calls(&mut [&mut get, e], 120_000),
        None => net.sim.run_calls(&mut [&mut get], 120_000),
    };
    let raddr = net.sim.nodes[reader].addr;
    json!({"e":"putget","b":b,"servers":net.servers.len(),"clients":net.clients.len(),"plan":net.spec.plan,"kind":st.kind,
        "writer":waddr.to_string(),"reader":raddr.to_string(),"reader_is_client":net.clients.contains(&reader),
        "put": put.outcome().map(|o| o.name()).unwrap_or("pending".into()),
        "put_ok": matches!(put.outcome(), Some(Outcome::PutOk(_))),
        "ackers": acks.iter().map(|a| a.to_string()).collect::<Vec<_>>(),
        "live_ackers_other_than_reader": acks.iter().filter(|a| alive.contains(a) && **a != raddr).count(),
        "crashed": crash.iter().map(|&c| net.sim.nodes[c].addr.to_string()).collect::<Vec<_>>(),
        "reader_knows_live": knows_live, "get_done": done, "found": found(&get, &st.expect), "items": get.items.len(),
        "concurrent": concurrent, "second_announcer": second, "rewritten": rewritten, "delay_ms": delay_ms, "panicked": net.sim.nodes.iter().any(|n| n.panicked)})
}

pub fn run(args: &Args) -> i32 {
    let seed = args.u64("seed", 1);
    let thorough = args.thorough();
    let mut out = Out::create(&args.str("out", "/verif/work/C01/trace.ndjson"));
    let mut rng = Rng::new(seed ^ 0xC01);
    let kinds: [&'static str; 6] = ["immutable", "mutable", "mutable_salt", "announce", "announce_implied", "signed"];
    let mut b = 0u64;
    let mut samples = vec![];
    let only = args.get("only").and_then(|x| x.parse::<u64>().ok());
    let sizes: Vec<usize> = if thorough { vec![1, 2, 3, 4, 5, 6, 8, 10, 13, 16, 20] } else { vec![1, 2, 3, 5, 10, 20] };
    let reps = if thorough { 240 } else { 7 };
    for (si, &s) in sizes.iter().enumerate() {
        for rep in 0..reps {
            let spec = NetSpec { servers: s, clients: [0, 2, 5, 1][(si + rep) % 4].min(30), plan: if (si + rep) % 3 == 1 { "public".into() } else { "private".into() }, join: if rep % 2 == 0 { "sequential".into() } else { "simultaneous".into() }, dead_bootstrap: 0, seed: seed ^ ((si * 1000 + rep) as u64) };
            if only.is_some() && only != Some(b) {
                // consume the same random numbers so that ids stay aligned
                for _ in 0..8 {
                    rng.next_u64();
                }
                b += 1;
                continue;
            }
            let mut rr = rng.fork();
            for _ in 0..7 {
                rng.next_u64();
            }
            let mut net = build(&spec);
            let all: Vec<usize> = net.servers.iter().chain(net.clients.iter()).cloned().collect();
            let writer = *rr.pick(&all);
            let mut reader = *rr.pick(&all);
            if all.len() > 1 {
                while reader == writer {
                    reader = *rr.pick(&all);
                }
            }
            // crash subset: any subset of the other nodes (first node included)
            let crash: Vec<usize> = all.iter().cloned().filter(|&n| n != reader && rr.chance([0, 1, 3, 5][rep % 4], 10)).collect();
            let concurrent = ["none", "none", "get", "put", "find_node"][rep % 5];
            let ev = trial(&mut net, b, kinds[(si + rep) % 6], writer, reader, &crash, concurrent, &mut rr);
            if samples.len() < 3 && rep == 2 {
                samples.push(ev.clone());
            }
            out.line(&ev);
            b += 1;
        }
    }
    // the reader polled the key before it existed (its lookup is cached); a server joins afterwards, the write is acknowledged
    // by it too, and then every node the reader's cached lookup knows crashes: the late joiner alone still serves the value
    for (i, &sv) in (if thorough { vec![1usize, 2, 3, 4, 6, 9, 14, 19] } else { vec![1usize, 3, 6, 12] }).iter().enumerate() {
        if only.is_some() && only != Some(b) {
            b += 1;
            continue;
        }
        let spec = NetSpec { servers: sv, clients: 2, plan: "private".into(), join: "sequential".into(), dead_bootstrap: 0, seed: seed ^ (5000 + i as u64) };
        let mut net = build(&spec);
        let mut rr = Rng::new(seed ^ (777 + i as u64));
        let kind = kinds[i % 6];
        let writer = net.clients[0];
        let reader = net.clients[1];
        let st = make_item(kind, b, net.sim.nodes[writer].addr);
        let mut poll = net.sim.call_get(reader, st.get.clone(), st.target, "poll");
        net.sim.poke(reader);
        net.sim.run_calls(&mut [&mut poll], 60_000);
        let late = net.sim.add_node(NodeOpts::server(node_ip(&spec.plan, sv + 10), &net.boot));
        net.sim.run_for(4000);
        let crash: Vec<usize> = net.servers.clone();
        net.servers.push(late);
        let ev = trial_opts(&mut net, b, kind, writer, reader, &crash, "polled", &mut rr, true);
        out.line(&ev);
        b += 1;
    }
    // larger networks: success rate over several keys, no crashes
    let big: Vec<usize> = if thorough { vec![50, 100, 200, 300] } else { vec![50] };
    for &s in &big {
        if only.is_some() {
            break;
        }
        let spec = NetSpec { servers: s, clients: 10, plan: "private".into(), join: "sequential".into(), dead_bootstrap: 0, seed: seed ^ (s as u64 * 17) };
        let mut net = build(&spec);
        let all: Vec<usize> = net.servers.iter().chain(net.clients.iter()).cloned().collect();
        let trials = if thorough { 60 } else { 8 };
        let mut ok = 0;
        for i in 0..trials {
            let writer = *rng.pick(&all);
            let mut reader = *rng.pick(&all);
            while reader == writer {
                reader = *rng.pick(&all);
            }
            let ev = trial(&mut net, b, kinds[i % 6], writer, reader, &[], "none", &mut rng);
            if ev["found"] == true {
                ok += 1;
            }
            b += 1;
        }
        out.line(&json!({"e":"rate","b":b,"servers":s,"trials":trials,"found":ok,"floor_percent":60}));
    }
    out.finish();
    if let Some(p) = args.get("summary") {
        crate::util::write_json(p, &json!({"runs": b, "distinct_nontrivial": b, "samples": samples}));
    }
    println!("putget driver: trials={b}");
    0
}
