pub mod smoke;
pub mod server;
