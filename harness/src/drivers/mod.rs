pub mod smoke;
