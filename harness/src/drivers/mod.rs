pub mod smoke;
pub mod server;
pub mod idmath;
pub mod rt;
pub mod codec;
pub mod sock;
pub mod shapes;
pub mod mostrecent;
