pub mod smoke;
pub mod server;
pub mod idmath;
pub mod rt;
pub mod mostrecent;
