//! C09 driver: one real client node performs a lookup / put against honest fake peers while a third
//! party injects messages at TLC-enumerated points (k-th request x phase x source x tid x content).
//! Every delivery to the node is bracketed by H4 snapshots (after a settling input-less tick), so the
//! effect of each incoming message on the in-flight table and on query / table / vote state is
//! observed; SockTrace.tla keeps the model in-flight table from the observed sends and judges.
use crate::bencode::{hex, B};
use crate::calls::{Call, GetKind, Outcome};
use crate::crypto;
use crate::fakenet::*;
use crate::krpc;
use crate::sim::*;
use crate::util::{Args, Out};
use dht::verif as v;
use serde_json::{json, Value};
use std::cell::RefCell;
use std::net::{Ipv4Addr, SocketAddrV4};
use std::rc::Rc;

fn core_digest(s: &v::Snapshot) -> String {
    let q: Vec<_> = s.queries.iter().map(|q| (&q.target, &q.candidates, &q.visited, &q.responders, q.responses, &q.votes)).collect();
    let p: Vec<_> = s.puts.iter().map(|p| (&p.target, p.stored_at, &p.errors, p.started)).collect();
    let rt: Vec<_> = s.routing_table.nodes.iter().map(|n| (&n.id, &n.addr)).collect();
    let srt: Vec<_> = s.signed_peers_routing_table.nodes.iter().map(|n| (&n.id, &n.addr)).collect();
    format!("{:?}|{:?}|{:?}|{:?}|{:?}|{}|{:?}|{:?}", q, p, rt, srt, s.public_address, s.firewalled, s.put_senders, s.get_senders)
}
fn inflight_digest(s: &v::Snapshot) -> String {
    let e: Vec<_> = s.inflight.entries.iter().map(|(t, to, _)| (t, to)).collect();
    format!("{:?}|{}|{}", e, s.inflight.estimated_rtt_ns, s.inflight.deviation_rtt_ns)
}

struct RunOut {
    events: Vec<Value>,
    result: String,
    done: bool,
    panicked: bool,
}

fn outcome_string(c: &Call) -> String {
    let items: Vec<String> = c.items.iter().map(|(_, i)| i.to_json().to_string()).collect();
    let mut items = items;
    items.sort();
    items.dedup();
    format!("{:?}|{:?}", c.outcome().map(|o| match o { Outcome::Closest(v) => format!("closest{}", v.len()), o => o.name() }), items)
}

fn run_plan(plan: Option<&Value>, seed: u64) -> RunOut {
    let mut sim = Sim::new(seed, NetCfg { lat_min_ms: 10, lat_max_ms: 10, ..Default::default() });
    sim.record = true;
    let ids: Vec<[u8; 20]> = (0..4).map(|i| crypto::sha1(&[i as u8, 42])).collect();
    let delayed: Rc<RefCell<Option<(Vec<u8>, u64)>>> = Rc::new(RefCell::new(None));
    let d2 = delayed.clone();
    let val = b"value for c09".to_vec();
    let target = crypto::immutable_target(&val);
    let val2 = val.clone();
    let all: Vec<([u8; 20], SocketAddrV4)> = ids.iter().enumerate().map(|(i, id)| (*id, SocketAddrV4::new(fake_ip(i), 6881))).collect();
    let nodes = krpc::compact_nodes(&all);
    let policy: Policy = Box::new(move |me, m, w| {
        let delay = match d2.borrow().as_ref() {
            Some((t, ms)) if t[..] == m.tid[..] => *ms,
            _ => 10,
        };
        if m.q.as_deref() == Some("get") && me.idx == 2 {
            // one peer holds the value
            return Reply::One(lookup_reply(&nodes, me, m, w, &[("v", B::bytes(&val2))], true), delay);
        }
        if delay != 10 {
            let s = FakeNetState { peers: vec![], seen: vec![], policy: Box::new(|_, _, _| Reply::Silent), default_delay_ms: 0, listed: vec![] };
            let _ = s;
            let q = m.q.clone().unwrap_or_default();
            let mut r = B::dict();
            if q == "get" || q == "find_node" {
                r.set("nodes", B::bytes(&nodes));
            }
            if q == "get" {
                r.set("token", B::bytes(me.token()));
            }
            return Reply::One(krpc::response(&m.tid, &me.id, r, Some(&w.from)), delay);
        }
        Reply::Default
    });
    let net = FakeNet::install(&mut sim, &ids, policy);
    let c = sim.add_node(NodeOpts::client(private_ip(5), &[net.bootstrap()[0].clone()]));
    sim.run_for(2500);
    sim.watch = Some(c);
    let caddr = sim.nodes[c].addr;
    let log0 = sim.log.len();
    let scenario = plan.map(|p| p["scenario"].as_str().unwrap_or("lookup")).unwrap_or("lookup").to_string();
    let mut call = if scenario == "put" {
        sim.call_put(c, dht::PutRequestSpecific::PutImmutable(v::PutImmutableRequestArguments { target: target.into(), v: val.clone().into() }), None, "put")
    } else {
        sim.call_get(c, GetKind::Immutable, target, "get")
    };
    sim.poke(c);
    let limit = sim.now_ns() + 30_000 * MS;
    let mut seen_sends = 0usize;
    let mut scan = log0;
    let mut injected = false;
    let mut dup_tid: Option<Vec<u8>> = None;
    let k = plan.map(|p| p["k"].as_u64().unwrap_or(0) as usize).unwrap_or(usize::MAX);
    loop {
        call.poll(sim.now_ns());
        if call.done() && sim.pending_datagrams() == 0 {
            break;
        }
        if !sim.step(limit) {
            break;
        }
        while scan < sim.log.len() {
            let (from, to, msg) = (sim.log[scan].from, sim.log[scan].to, sim.log[scan].msg.clone());
            scan += 1;
            let m = match msg {
                Some(m) => m,
                None => continue,
            };
            if from == caddr && m.is_request() {
                if seen_sends == k && !injected {
                    injected = true;
                    let p = plan.expect("plan");
                    let tid = m.tid_u32().unwrap_or(0);
                    let phase = p["phase"].as_str().unwrap_or("");
                    if phase == "before" {
                        *delayed.borrow_mut() = Some((m.tid.clone(), 120));
                    }
                    if phase == "late" || phase == "late_duplicate" {
                        // the genuine reply arrives after the request expired (other requests still in flight)
                        *delayed.borrow_mut() = Some((m.tid.clone(), 700));
                        if phase == "late_duplicate" {
                            // ... and is then retransmitted
                            dup_tid = Some(m.tid.clone());
                        }
                    } else if phase == "duplicate" {
                        dup_tid = Some(m.tid.clone());
                    } else {
                        let stid = match p["tid"].as_str().unwrap_or("") {
                            "same" => tid,
                            "next" => tid.wrapping_add(1),
                            "prev" => tid.wrapping_sub(1),
                            _ => tid.wrapping_add(100_000),
                        };
                        let src = match p["source"].as_str().unwrap_or("") {
                            "wrong_ip" => SocketAddrV4::new(Ipv4Addr::new(10, 66, 6, 6), to.port()),
                            "wrong_port" => SocketAddrV4::new(*to.ip(), to.port() + 119),
                            _ => to,
                        };
                        let evil_id = crypto::sha1(b"evil");
                        let evil_nodes: Vec<([u8; 20], SocketAddrV4)> = (0..3).map(|i| (crypto::sha1(&[i, 66]), SocketAddrV4::new(Ipv4Addr::new(10, 99, 0, i + 1), 6881))).collect();
                        let b = match p["content"].as_str().unwrap_or("") {
                            "nodes" => {
                                let mut r = B::dict();
                                r.set("nodes", B::bytes(krpc::compact_nodes(&evil_nodes)));
                                r.set("token", B::bytes(b"evil"));
                                krpc::response(&stid.to_be_bytes(), &evil_id, r, Some(&SocketAddrV4::new(Ipv4Addr::new(6, 6, 6, 6), 6666)))
                            }
                            "ack" => krpc::response(&stid.to_be_bytes(), &evil_id, B::dict(), None),
                            _ => krpc::error(&stid.to_be_bytes(), 301, "spoofed"),
                        };
                        sim.inject(src, caddr, b.encode(), 50);
                    }
                }
                seen_sends += 1;
            } else if to == caddr && dup_tid.as_deref() == Some(&m.tid[..]) && (m.is_response() || m.is_error()) {
                // duplicate of the genuine reply from the right address, a little later
                dup_tid = None;
                let bytes = sim.log[scan - 1].msg.as_ref().map(|m| m.raw.encode()).unwrap_or_default();
                // (the log records a datagram when it is sent: a delayed genuine reply is still on its way)
                let late = plan.map(|p| p["phase"] == "late_duplicate").unwrap_or(false);
                sim.inject(from, caddr, bytes, if late { 740 } else { 30 });
            }
        }
    }
    sim.run_for(3000);
    call.poll(sim.now_ns());
    // build the event list: sends and watched receives in time order
    let mut evs: Vec<(u64, u64, Value)> = vec![];
    for r in &sim.log[log0..] {
        if r.from == caddr {
            if let Some(m) = &r.msg {
                if m.is_request() {
                    evs.push((r.sent_ns, 1, json!({"e":"send","tid":m.tid_u32().unwrap_or(0),"to":r.to.to_string(),"t":(r.sent_ns - sim.start_ns) / MS})));
                }
            }
        }
    }
    for w in &sim.watch_log {
        if let Some(m) = crate::krpc::Msg::parse(&w.wire.bytes) {
            if m.is_request() {
                continue;
            }
            let ci = inflight_digest(&w.pre) != inflight_digest(&w.post);
            let cc = core_digest(&w.pre) != core_digest(&w.post);
            evs.push((w.t_ns, 0, json!({"e":"recv","tid":m.tid_u32().map(|x| x as i64).unwrap_or(-1),"from":w.wire.from.to_string(),"y":m.y,
                "t":(w.t_ns - sim.start_ns) / MS,"changed_inflight":ci,"changed_core":cc,"timeout_ms":w.pre.inflight.timeout_ns / MS,
                "entries_before":w.pre.inflight.entries.len(),"entries_after":w.post.inflight.entries.len()})));
        }
    }
    evs.sort_by_key(|e| (e.0, e.1));
    RunOut { events: evs.into_iter().map(|e| e.2).collect(), result: outcome_string(&call), done: call.done(), panicked: sim.nodes[c].panicked }
}

/// Generations of requests: the client knows exactly four peers. Lookup H0 is never answered (the in-flight table fills up to
/// its capacity and is emptied when everything in it has expired), lookup H1 is answered LATE (900 ms: after its requests
/// expired and the table was emptied again), lookup H2 - same peers, same distance order - starts 700 ms after H1, so H1's late
/// answers arrive while H2's requests are outstanding. A transaction id is not used twice for one address, and the late
/// answers change nothing.
fn generations(seed: u64) -> RunOut {
    let mut sim = Sim::new(seed ^ 0x6E, NetCfg { lat_min_ms: 10, lat_max_ms: 10, ..Default::default() });
    sim.record = true;
    let ids: Vec<[u8; 20]> = (0..4).map(|i| crypto::sha1(&[i as u8, 43])).collect();
    let all: Vec<([u8; 20], SocketAddrV4)> = ids.iter().enumerate().map(|(i, id)| (*id, SocketAddrV4::new(fake_ip(i), 6881))).collect();
    let nodes = krpc::compact_nodes(&all);
    let mode = Rc::new(std::cell::Cell::new(0u8));
    let m2 = mode.clone();
    let policy: Policy = Box::new(move |me, m, w| match m2.get() {
        1 => Reply::Silent,
        // 10 + j: the first j peers answer, the burst leaves 4 - j unanswered requests behind
        x if x >= 10 => {
            if (me.idx as u8) < x - 10 {
                Reply::Default
            } else {
                Reply::Silent
            }
        }
        2 => {
            let mut r = B::dict();
            r.set("nodes", B::bytes(&nodes));
            r.set("token", B::bytes(me.token()));
            r.set("values", B::List(vec![B::bytes(&[10, 66, 66, 66, 0x1a, 0x0a][..])]));
            Reply::One(krpc::response(&m.tid, &me.id, r, Some(&w.from)), 900)
        }
        _ => Reply::Default,
    });
    let net = FakeNet::install(&mut sim, &ids, policy);
    let c = sim.add_node(NodeOpts::client(private_ip(5), &net.bootstrap()));
    sim.run_for(2500);
    sim.watch = Some(c);
    let caddr = sim.nodes[c].addr;
    let log0 = sim.log.len();
    let h0 = crypto::sha1(b"generation 0");
    let h1 = crypto::sha1(b"generation 1");
    let mut h2 = h1;
    h2[19] ^= 1;
    mode.set(1);
    let mut c0 = sim.call_get(c, GetKind::Peers, h0, "h0");
    sim.poke(c);
    sim.run_for(1200);
    mode.set(2);
    let mut c1 = sim.call_get(c, GetKind::Peers, h1, "h1");
    sim.poke(c);
    sim.run_for(700);
    mode.set(1);
    let mut c2 = sim.call_get(c, GetKind::Peers, h2, "h2");
    sim.poke(c);
    sim.run_for(2500);
    // more unanswered generations: the table passes through every capacity (4, 8, 16, 32) full of expired requests
    let mut more = vec![];
    // fill the in-flight table up to EXACTLY its capacity with unanswered requests (bursts of four, the last one as small as
    // needed), then let everything in it expire at once: the table is emptied in one go
    let mut k = 0u8;
    loop {
        let (len, cap) = match sim.snapshot(c) {
            Some(s) => (s.inflight.entries.len(), s.inflight.capacity.max(4)),
            None => break,
        };
        if len >= cap || k > 40 {
            break;
        }
        let room = cap - len;
        mode.set(if room >= 4 { 1 } else { 10 + (4 - room) as u8 });
        more.push(sim.call_get(c, GetKind::Peers, crypto::sha1(&[b'f', k]), "fill"));
        sim.poke(c);
        sim.run_for(60);
        k += 1;
    }
    sim.run_for(1500);
    // ... and go on: unanswered generations 700 ms apart
    for k in 0..10u8 {
        mode.set(1);
        more.push(sim.call_get(c, GetKind::Peers, crypto::sha1(&[b'g', k]), "hk"));
        sim.poke(c);
        sim.run_for(700);
    }
    sim.run_for(1500);
    let now = sim.now_ns();
    c0.poll(now);
    c1.poll(now);
    c2.poll(now);
    let mut evs: Vec<(u64, u64, Value)> = vec![];
    for r in &sim.log[log0..] {
        if r.from == caddr {
            if let Some(m) = &r.msg {
                if m.is_request() {
                    evs.push((r.sent_ns, 1, json!({"e":"send","tid":m.tid_u32().unwrap_or(0),"to":r.to.to_string(),"t":(r.sent_ns - sim.start_ns) / MS})));
                }
            }
        }
    }
    for w in &sim.watch_log {
        if let Some(m) = crate::krpc::Msg::parse(&w.wire.bytes) {
            if m.is_request() {
                continue;
            }
            let ci = inflight_digest(&w.pre) != inflight_digest(&w.post);
            let cc = core_digest(&w.pre) != core_digest(&w.post);
            evs.push((w.t_ns, 0, json!({"e":"recv","tid":m.tid_u32().map(|x| x as i64).unwrap_or(-1),"from":w.wire.from.to_string(),"y":m.y,
                "t":(w.t_ns - sim.start_ns) / MS,"changed_inflight":ci,"changed_core":cc,"timeout_ms":w.pre.inflight.timeout_ns / MS,
                "entries_before":w.pre.inflight.entries.len(),"entries_after":w.post.inflight.entries.len()})));
        }
    }
    evs.sort_by_key(|e| (e.0, e.1));
    // what the last lookup yielded: nobody answered IT
    let result = format!("h2:{}", c2.items.len());
    RunOut { events: evs.into_iter().map(|e| e.2).collect(), result, done: c0.done() && c1.done() && c2.done(), panicked: sim.nodes[c].panicked }
}

/// One request at a time: the client knows ONE peer, which answers the bootstrap and then falls silent. Every lookup sends
/// exactly one request. Four lookups started together fill the in-flight table (capacity 4) with requests that all expire together;
/// after a quiet second the table is emptied in one go; six more lookups follow. No (transaction id, address) pair is used twice.
fn single_file(seed: u64) -> RunOut {
    let mut sim = Sim::new(seed ^ 0x51F, NetCfg { lat_min_ms: 10, lat_max_ms: 10, ..Default::default() });
    sim.record = true;
    let ids: Vec<[u8; 20]> = vec![crypto::sha1(&[7u8, 44])];
    let silent = Rc::new(std::cell::Cell::new(false));
    let s2 = silent.clone();
    let net = FakeNet::install(&mut sim, &ids, Box::new(move |_, _, _| if s2.get() { Reply::Silent } else { Reply::Default }));
    let c = sim.add_node(NodeOpts::client(private_ip(5), &net.bootstrap()));
    sim.run_for(2500);
    silent.set(true);
    sim.watch = Some(c);
    let caddr = sim.nodes[c].addr;
    let log0 = sim.log.len();
    let mut calls = vec![];
    let mut caps = vec![];
    // (all four at the same instant: they expire between the same two ticks)
    // (top the table up to exactly its capacity within a tenth of a second: everything in it expires before the table is
    // looked at again with all of it expired)
    sim.run_for(700);
    let mut k = 0u8;
    for _ in 0..4 {
        let room = sim.snapshot(c).map(|s| s.inflight.capacity.max(4).saturating_sub(s.inflight.entries.len())).unwrap_or(0);
        if room == 0 {
            break;
        }
        for _ in 0..room {
            calls.push(sim.call_get(c, GetKind::Peers, crypto::sha1(&[b's', k]), "s"));
            k += 1;
        }
        sim.flush();
    }
    sim.poke(c);
    sim.run_for(20);
    if let Some(s) = sim.snapshot(c) {
        caps.push(json!([s.inflight.entries.len(), s.inflight.capacity]));
    }
    sim.run_for(1000);
    if let Some(s) = sim.snapshot(c) {
        caps.push(json!([s.inflight.entries.len(), s.inflight.capacity]));
    }
    for k in 0..6u8 {
        calls.push(sim.call_get(c, GetKind::Peers, crypto::sha1(&[b't', k]), "t"));
        sim.poke(c);
        sim.run_for(100);
    }
    sim.run_for(2000);
    let now = sim.now_ns();
    for call in calls.iter_mut() {
        call.poll(now);
    }
    let mut evs: Vec<(u64, u64, Value)> = vec![];
    for r in &sim.log[log0..] {
        if r.from == caddr {
            if let Some(m) = &r.msg {
                if m.is_request() {
                    evs.push((r.sent_ns, 1, json!({"e":"send","tid":m.tid_u32().unwrap_or(0),"to":r.to.to_string(),"t":(r.sent_ns - sim.start_ns) / MS})));
                }
            }
        }
    }
    evs.sort_by_key(|e| (e.0, e.1));
    let items: usize = calls.iter().map(|c| c.items.len()).sum();
    RunOut { events: evs.into_iter().map(|e| e.2).collect(), result: format!("items:{items} table:{}", serde_json::to_string(&caps).unwrap_or_default()), done: calls.iter().all(|c| c.done()), panicked: sim.nodes[c].panicked }
}

pub fn run(args: &Args) -> i32 {
    let seed = args.u64("seed", 1);
    let mut out = Out::create(&args.str("out", "/verif/work/C09/trace.ndjson"));
    let mut plans: Vec<Value> = vec![];
    if let Some(path) = args.get("in") {
        for line in std::fs::read_to_string(path).expect("plans").lines() {
            if let Ok(Value::Array(a)) = serde_json::from_str::<Value>(line) {
                plans.extend(a);
            }
        }
    }
    plans.sort_by_key(|p| p.to_string());
    let stride = args.u64("stride", 1) as usize;
    let base_lookup = run_plan(Some(&json!({"scenario":"lookup","k":999})), seed);
    let base_put = run_plan(Some(&json!({"scenario":"put","k":999})), seed);
    let mut b = 0u64;
    let mut samples = vec![];
    let mut events = 0u64;
    for (i, p) in plans.iter().enumerate() {
        if i % stride != 0 {
            continue;
        }
        let r = run_plan(Some(p), seed);
        let base = if p["scenario"] == "put" { &base_put } else { &base_lookup };
        out.line(&json!({"e":"reset","b":b,"plan":p}));
        for e in &r.events {
            out.line(e);
        }
        events += r.events.len() as u64;
        out.line(&json!({"e":"end","b":b,"done":r.done,"panicked":r.panicked,"same_result":r.result == base.result,"expect_same":p["phase"] != "late" && p["phase"] != "late_duplicate","result":r.result,"baseline":base.result}));
        if samples.len() < 3 && i % 50 == 7 {
            samples.push(json!({"plan": p, "result": r.result, "events": r.events.len()}));
        }
        b += 1;
    }
    for g in 0..2u64 {
        let r = generations(seed.wrapping_add(g));
        out.line(&json!({"e":"reset","b":b,"plan":{"scenario":"generations","k":g}}));
        for e in &r.events {
            out.line(e);
        }
        events += r.events.len() as u64;
        out.line(&json!({"e":"end","b":b,"done":r.done,"panicked":r.panicked,"same_result":r.result == "h2:0","expect_same":true,"result":r.result,"baseline":"h2:0"}));
        b += 1;
    }
    for g in 0..2u64 {
        let r = single_file(seed.wrapping_add(g * 31));
        out.line(&json!({"e":"reset","b":b,"plan":{"scenario":"single_file","k":g}}));
        for e in &r.events {
            out.line(e);
        }
        events += r.events.len() as u64;
        out.line(&json!({"e":"end","b":b,"done":r.done,"panicked":r.panicked,"same_result":r.result.starts_with("items:0"),"expect_same":true,"result":r.result,"baseline":"items:0"}));
        b += 1;
    }
    out.finish();
    let summary = json!({"plans": b, "events": events, "samples": samples});
    if let Some(p) = args.get("summary") {
        crate::util::write_json(p, &summary);
    }
    let _ = hex(&[]);
    println!("sock driver: plans={b} events={events}");
    0
}
