//! C14 driver: networks of real nodes over several virtual hours with peers crashing and restarting
//! (same address, new id) at arbitrary instants and lookups issued between maintenance rounds. At every
//! 5-minute boundary: every live node's tables (both, mapped to node incarnations), who answered whom
//! since the previous boundary (lookup and ping requests, from the datagram log) and which refresh
//! lookups started. Judged by MaintTrace.tla.
use crate::calls::GetKind;
use crate::crypto;
use crate::net::*;
use crate::rng::Rng;
use crate::sim::*;
use crate::util::{Args, Out};
use serde_json::{json, Value};
use std::collections::HashMap;
use std::net::SocketAddrV4;

/// `blackout`: half way through, every server except one crashes at the same instant (all the peers the survivors know go
/// silent together); the ordinary churn (crashes of single peers, restarts, lookups) goes on around it.
/// `busy`: one server keeps OVERLAPPING lookups in flight all the time (a relay / crawler / resolver: a new lookup every
/// 150 ms while every round trip takes 300..400 ms), so no tick of that node ever starts without an active lookup; maintenance
/// (ping rounds, eviction of silent peers, refresh) must go on regardless.
pub fn timeline(b: u64, servers: usize, hours: u64, churn: u64, seed: u64, out: &mut Out, mode: &str) -> u64 {
    let blackout = mode == "blackout";
    let busy = mode == "busy";
    let spec = NetSpec { servers, clients: 1, plan: "private".into(), join: "sequential".into(), dead_bootstrap: 0, seed };
    let mut net = build(&spec);
    let mut rng = Rng::new(seed ^ 0x14);
    let busy_node = if busy { net.servers.get(1).cloned() } else { None };
    if busy {
        net.sim.cfg.lat_min_ms = 150;
        net.sim.cfg.lat_max_ms = 200;
    }
    let mut busy_rng = Rng::new(seed ^ 0xB5);
    // advance virtual time; in busy mode the busy node starts a lookup of a random target every 150 ms (nobody waits for it)
    let mut run_for = move |net: &mut Net, ms: u64| match busy_node {
        Some(bn) if net.sim.nodes[bn].alive => {
            let end = net.sim.now_ns() + ms * MS;
            while net.sim.now_ns() < end {
                let kind = if busy_rng.chance(1, 4) { GetKind::FindNode } else { GetKind::Immutable };
                let _ = net.sim.call_get(bn, kind, busy_rng.id(), "busy");
                let slice = (end - net.sim.now_ns()).min(150 * MS);
                net.sim.run_for(slice / MS + if slice % MS > 0 { 1 } else { 0 });
            }
        }
        _ => net.sim.run_for(ms),
    };
    let start = net.sim.now_ns();
    // incarnations: sim node index = incarnation id; id (hex) -> incarnation
    let mut id_of: HashMap<String, usize> = HashMap::new();
    let mut addr_inc: HashMap<SocketAddrV4, usize> = HashMap::new();
    let mut own_id: HashMap<usize, [u8; 20]> = HashMap::new();
    let refresh_ids = |net: &mut Net, id_of: &mut HashMap<String, usize>, own_id: &mut HashMap<usize, [u8; 20]>| {
        for n in 0..net.sim.nodes.len() {
            if net.sim.nodes[n].alive {
                if let Some(s) = net.sim.snapshot(n) {
                    id_of.insert(s.id.clone(), n);
                    own_id.insert(n, id_of_hex(&s.id));
                }
            }
        }
    };
    refresh_ids(&mut net, &mut id_of, &mut own_id);
    for n in 0..net.sim.nodes.len() {
        addr_inc.insert(net.sim.nodes[n].addr, n);
    }
    out.line(&json!({"e":"reset","b":b,"servers":servers,"hours":hours,"first":0,
        "nodes": (0..net.sim.nodes.len()).map(|n| json!({"n":n,"server":net.servers.contains(&n)})).collect::<Vec<_>>()}));
    let mut lines = 1u64;
    let mut scan = net.sim.log.len();
    let mut crashes = 0usize;
    let mut last_ans: HashMap<(usize, usize), u64> = HashMap::new();
    let mut sticky_exempt: std::collections::HashSet<(usize, usize)> = std::collections::HashSet::new();
    let boundaries = hours * 12;
    let mut pending: HashMap<(SocketAddrV4, Vec<u8>), (usize, usize, String)> = HashMap::new(); // (from addr, tid) -> (n, p incarnation, q)
    for k in 1..=boundaries {
        let target_ns = start + k * 300_000 * MS;
        // events inside this 5-minute window
        let mut evs: Vec<(u64, u8)> = vec![];
        for _ in 0..rng.below(churn + 1) {
            evs.push((net.sim.now_ns() + rng.below(299_000) * MS, rng.below(3) as u8));
        }
        // boundary-adjacent instants too
        if rng.chance(1, 6) {
            evs.push((target_ns - 1 * MS, 0));
        }
        if blackout && k == boundaries / 2 {
            evs.push((net.sim.now_ns() + 100_000 * MS, 9));
        }
        evs.sort();
        for (t, what) in evs {
            let now = net.sim.now_ns();
            if t > now {
                run_for(&mut net, (t - now) / MS);
            }
            // the busy node itself never crashes (it is the observer of interest)
            let alive: Vec<usize> = (1..net.sim.nodes.len()).filter(|&n| net.sim.nodes[n].alive && net.servers.contains(&n) && Some(n) != busy_node).collect();
            match what {
                9 => {
                    // everybody but the most recently started live server goes down (the adaptive client too: by now it is a
                    // server like the others), so every peer the survivor knows is silent
                    let live: Vec<usize> = (0..net.sim.nodes.len()).filter(|&n| net.sim.nodes[n].alive).collect();
                    let keep = live.iter().cloned().filter(|n| net.servers.contains(n)).last();
                    if let Some(keep) = keep {
                        for p in live {
                            if p != keep {
                                net.sim.crash(p);
                                crashes += 1;
                                out.line(&json!({"e":"crash","p":p,"t":(net.sim.now_ns() - start) / MS}));
                                lines += 1;
                            }
                        }
                    }
                }
                0 if alive.len() > 2 => {
                    let p = *rng.pick(&alive);
                    net.sim.crash(p);
                    crashes += 1;
                    out.line(&json!({"e":"crash","p":p,"t":(net.sim.now_ns() - start) / MS}));
                    lines += 1;
                }
                1 => {
                    // restart a crashed server at the same address under a new id
                    let dead: Vec<usize> = net.servers.iter().cloned().filter(|&n| !net.sim.nodes[n].alive).collect();
                    if let Some(&old) = dead.first() {
                        let addr = net.sim.nodes[old].addr;
                        if addr_inc.get(&addr) == Some(&old) {
                            // the restarted server is given the usual bootstrap address plus that of a server that is up right now
                            // (after a blackout the usual one is down)
                            let mut boot = net.boot.clone();
                            if let Some(&up) = alive.last() {
                                boot.push(net.sim.nodes[up].addr.to_string());
                            }
                            let n = net.sim.add_node(NodeOpts::server(*addr.ip(), &boot));
                            net.servers.push(n);
                            addr_inc.insert(addr, n);
                            refresh_ids(&mut net, &mut id_of, &mut own_id);
                            out.line(&json!({"e":"start","p":n,"t":(net.sim.now_ns() - start) / MS,"replaces":old}));
                            lines += 1;
                        }
                    }
                }
                _ => {
                    // a lookup between maintenance rounds
                    let all: Vec<usize> = (0..net.sim.nodes.len()).filter(|&n| net.sim.nodes[n].alive).collect();
                    let n = *rng.pick(&all);
                    let t = rng.id();
                    let _ = do_lookup(&mut net, n, GetKind::Immutable, t, "bg");
                }
            }
        }
        let now = net.sim.now_ns();
        if target_ns > now {
            run_for(&mut net, (target_ns - now) / MS);
        }
        refresh_ids(&mut net, &mut id_of, &mut own_id);
        // who answered whom since the last boundary; refresh lookups started
        let mut answers: HashMap<(usize, usize), u64> = HashMap::new();
        let mut refreshes: HashMap<usize, u64> = HashMap::new();
        while scan < net.sim.log.len() {
            let r = &net.sim.log[scan];
            scan += 1;
            let m = match &r.msg {
                Some(m) => m,
                None => continue,
            };
            if m.is_request() {
                if let (Some(n), Some(p)) = (addr_inc_at(&net, &r.from, r.sent_ns), addr_inc_at(&net, &r.to, r.sent_ns)) {
                    let q = m.q.clone().unwrap_or_default();
                    if q == "find_node" && m.target().as_ref() == own_id.get(&n) {
                        let e = refreshes.entry(n).or_insert(r.sent_ns);
                        *e = (*e).min(r.sent_ns);
                    }
                    pending.insert((r.from, m.tid.clone()), (n, p, q));
                }
            } else if m.is_response() && !r.delivered_ns.is_empty() && m.ro != Some(1) {
                if let Some((n, p, q)) = pending.remove(&(r.to, m.tid.clone())) {
                    let lookup_or_ping = q == "ping" || q == "find_node" || q == "get" || q == "get_peers" || q == "get_signed_peers";
                    // the answer counts for the incarnation that actually sent it
                    if lookup_or_ping && net.sim.nodes[p].addr == r.from && m.arg_id("id").as_ref() == own_id.get(&p) {
                        let e = answers.entry((n, p)).or_insert(0);
                        *e = (*e).max(r.delivered_ns[0]);
                    }
                }
            }
        }
        if pending.len() > 50_000 {
            pending.clear();
        }
        let mut tables = vec![];
        let mut alive = vec![];
        let mut exempt: Vec<Value> = vec![];
        for n in 0..net.sim.nodes.len() {
            if !net.sim.nodes[n].alive {
                continue;
            }
            alive.push(n);
            if let Some(s) = net.sim.snapshot(n) {
                let mut ps: Vec<i64> = vec![];
                let mut stale_or_unknown = 0;
                for x in s.routing_table.nodes.iter().chain(s.signed_peers_routing_table.nodes.iter()) {
                    match id_of.get(&x.id) {
                        Some(&p) if net.sim.nodes[p].addr.to_string() == x.addr => {
                            if !ps.contains(&(p as i64)) {
                                ps.push(p as i64)
                            }
                        }
                        _ => stale_or_unknown += 1,
                    }
                }
                // capacity exemption: a peer that answered but is absent although its bucket is full in both tables
                for ((an, ap), _) in answers.iter() {
                    if *an == n && !ps.contains(&(*ap as i64)) {
                        if let (Some(a), Some(bid)) = (own_id.get(&n), own_id.get(ap)) {
                            let d = crypto::distance(a, bid) as u8;
                            // every crash so far can have freed at most one slot of the bucket since the peer answered
                            let full = |t: &dht::verif::TableSnap| t.nodes.iter().filter(|x| x.bucket == d).count() + crashes >= 20;
                            if full(&s.routing_table) && full(&s.signed_peers_routing_table) {
                                exempt.push(json!([n, ap]));
                            }
                        }
                    }
                }
                if let Ok(dp) = std::env::var("DEBUG_PAIR") {
                    let v: Vec<usize> = dp.split(',').filter_map(|x| x.parse().ok()).collect();
                    if v.len() == 2 && v[0] == n && k == boundaries {
                        if let (Some(a), Some(bid)) = (own_id.get(&n), own_id.get(&v[1])) {
                            let d = crypto::distance(a, bid) as u8;
                            eprintln!("DEBUG n={n} p={} dist={d} main_bucket={} signed_bucket={} p_id={} p_addr={}", v[1],
                                s.routing_table.nodes.iter().filter(|x| x.bucket == d).count(),
                                s.signed_peers_routing_table.nodes.iter().filter(|x| x.bucket == d).count(),
                                crate::bencode::hex(bid), net.sim.nodes[v[1]].addr);
                            for x in s.routing_table.nodes.iter().filter(|x| x.bucket == d) {
                                eprintln!("   main {} {} age_s={}", &x.id[..8], x.addr, x.age_ns / 1_000_000_000);
                            }
                            for x in s.signed_peers_routing_table.nodes.iter().filter(|x| x.addr == net.sim.nodes[v[1]].addr.to_string()) {
                                eprintln!("   signed entry at p addr: {} bucket {} age_s={}", &x.id[..8], x.bucket, x.age_ns / 1_000_000_000);
                            }
                        }
                    }
                }
                // the two tables separately (members that map to a node as it is now), and the node's own id (a re-key re-buckets)
                let members = |t: &dht::verif::TableSnap| -> Vec<i64> {
                    let mut v: Vec<i64> = vec![];
                    for x in t.nodes.iter() {
                        if let Some(&p) = id_of.get(&x.id) {
                            if net.sim.nodes[p].addr.to_string() == x.addr && !v.contains(&(p as i64)) {
                                v.push(p as i64);
                            }
                        }
                    }
                    v
                };
                tables.push(json!([n, ps, s.routing_table.size, stale_or_unknown, members(&s.routing_table), members(&s.signed_peers_routing_table), s.id]));
            }
        }
        for (k2, t) in answers.iter() {
            let e = last_ans.entry(*k2).or_insert(0);
            *e = (*e).max(*t);
        }
        for x in &exempt {
            sticky_exempt.insert((x[0].as_u64().unwrap_or(0) as usize, x[1].as_u64().unwrap_or(0) as usize));
        }
        // an exemption lasts while the peer stays absent from the node's tables
        let in_table = |n: usize, p: usize| tables.iter().any(|t: &Value| t[0].as_u64() == Some(n as u64) && t[1].as_array().map(|a| a.iter().any(|x| x.as_u64() == Some(p as u64))).unwrap_or(false));
        sticky_exempt.retain(|(n, p)| !in_table(*n, *p));
        let now_b = net.sim.now_ns();
        // pairs whose last answer is at most 15 minutes old: [n, p, age_s, exempt]
        let mut ans: Vec<Value> = last_ans.iter().filter(|(_, t)| now_b - **t <= 900_000 * MS)
            .map(|((n, p), t)| json!([n, p, (now_b - t) / MS / 1000, sticky_exempt.contains(&(*n, *p))])).collect();
        ans.sort_by_key(|v| v.to_string());
        let mut refr: Vec<Value> = refreshes.iter().map(|(n, t)| json!([n, (t - start) / MS])).collect();
        refr.sort_by_key(|v| v.to_string());
        out.line(&json!({"e":"boundary","t":(net.sim.now_ns() - start) / MS,"alive":alive,"tables":tables,"answers":ans,"refreshes":refr,"exempt":exempt,
            "panicked": net.sim.nodes.iter().any(|n| n.panicked)}));
        lines += 1;
    }
    if let Ok(w) = std::env::var("DEBUG_WIRE") {
        let v: Vec<std::net::SocketAddrV4> = w.split(',').filter_map(|x| x.parse().ok()).collect();
        if v.len() == 1 {
            let mut cnt: std::collections::BTreeMap<String, (u64, u64)> = Default::default();
            for r in &net.sim.log {
                if r.from == v[0] {
                    cnt.entry(r.to.to_string()).or_default().0 += 1;
                } else if r.to == v[0] {
                    cnt.entry(r.from.to_string()).or_default().1 += 1;
                }
            }
            eprintln!("WIRE counts (sent, received) of {}: {:?}", v[0], cnt);
        }
        if v.len() == 2 {
            for r in &net.sim.log {
                if (r.from == v[0] && r.to == v[1]) || (r.from == v[1] && r.to == v[0]) {
                    let m = r.msg.as_ref();
                    eprintln!("WIRE {} {} -> {} {} delivered={:?}", r.sent_ns.saturating_sub(start) / MS / 1000, r.from, r.to,
                        m.map(|m| m.q.clone().unwrap_or(m.response_kind().to_string())).unwrap_or_default(), r.delivered_ns.iter().map(|x| x.saturating_sub(start) / MS / 1000).collect::<Vec<_>>());
                }
            }
        }
    }
    lines
}

/// incarnation that owned `addr` at time `t` (the latest node created at that address)
fn addr_inc_at(net: &Net, addr: &SocketAddrV4, _t: u64) -> Option<usize> {
    // nodes are created in order; the latest node with this address that is alive, else the latest one
    let mut best: Option<usize> = None;
    for n in 0..net.sim.nodes.len() {
        if net.sim.nodes[n].addr == *addr {
            best = Some(n);
        }
    }
    best
}

/// A server whose far bucket is FULL in the main table: 25 peers, all at distance 160 from it, all answering everything. The
/// first 20 do not support signed announcements (no version in their messages): they fill the main table's bucket and stay out
/// of the signed-peers table. The last 5 do: the main table has no room for them, the signed-peers table takes them. For an
/// hour, at every 5-minute boundary: who is in which table, who has answered within the last 15 minutes.
pub fn fullbucket(b: u64, seed: u64, out: &mut Out) -> u64 {
    use crate::bencode::B;
    use crate::fakenet::*;
    use crate::krpc;
    let mut sim = Sim::new(seed ^ 0xF0B0, NetCfg { lat_min_ms: 2, lat_max_ms: 6, cadence_ms: 1000, ..Default::default() });
    sim.record = true;
    let mut rng = Rng::new(seed ^ b ^ 0xFB);
    let n = 25usize;
    let boot: Vec<String> = (0..n).map(|i| format!("{}:6881", fake_ip(i))).collect();
    let c = sim.add_node(NodeOpts::server(private_ip(7), &boot));
    let own = sim.snapshot(c).map(|s| crate::bencode::unhex(&s.id)).unwrap_or_default();
    let ids: Vec<[u8; 20]> = (0..n)
        .map(|_| {
            let mut id = rng.id();
            id[0] = (id[0] & 0x7f) | (!own[0] & 0x80);
            id
        })
        .collect();
    let all: Vec<([u8; 20], SocketAddrV4)> = ids.iter().enumerate().map(|(i, id)| (*id, SocketAddrV4::new(fake_ip(i), 6881))).collect();
    let nodes = krpc::compact_nodes(&all);
    let policy: Policy = Box::new(move |me, m, w| {
        let q = m.q.clone().unwrap_or_default();
        let mut r = B::dict();
        if q != "ping" {
            r.set("nodes", B::bytes(&nodes));
            if q != "find_node" {
                r.set("token", B::bytes(me.token()));
            }
        }
        let mut msg = krpc::response(&m.tid, &me.id, r, Some(&w.from));
        if me.idx < 20 {
            msg.remove("v");
        }
        Reply::One(msg, 1)
    });
    let _net = FakeNet::install(&mut sim, &ids, policy);
    let caddr = sim.nodes[c].addr;
    let start = sim.now_ns();
    let peer_of: HashMap<String, usize> = all.iter().enumerate().map(|(i, (_, a))| (a.to_string(), i)).collect();
    let mut last_ans: HashMap<usize, u64> = HashMap::new();
    let mut log_pos = 0;
    let mut lines = 0;
    for _k in 0..12 {
        sim.run_for(300_000);
        while log_pos < sim.log.len() {
            let r = &sim.log[log_pos];
            if r.to == caddr && !r.delivered_ns.is_empty() {
                if let (Some(&p), Some(m)) = (peer_of.get(&r.from.to_string()), r.msg.as_ref()) {
                    if !m.is_request() {
                        let e = last_ans.entry(p).or_insert(0);
                        *e = (*e).max(r.delivered_ns[0]);
                    }
                }
            }
            log_pos += 1;
        }
        let now = sim.now_ns();
        let snap = match sim.snapshot(c) {
            Some(s) => s,
            None => break,
        };
        let members = |t: &dht::verif::TableSnap| -> Vec<usize> { t.nodes.iter().filter_map(|x| peer_of.get(&x.addr).cloned()).collect() };
        let answered: Vec<usize> = last_ans.iter().filter(|(_, t)| now - **t <= 15 * 60_000 * MS).map(|(p, _)| *p).collect();
        out.line(&json!({"e":"tablewatch","b":b,"t":(now - start) / MS,"main":members(&snap.routing_table),"signed":members(&snap.signed_peers_routing_table),
            "answered":answered,"capable":(20..n).collect::<Vec<usize>>(),"bucket_capacity":20,"boot_alive_ms":(now - start) / MS,"id":snap.id,"panicked":sim.nodes[c].panicked}));
        lines += 1;
    }
    sim.shutdown();
    lines
}

/// An outage: a joiner and its only bootstrap server; the server goes down at minute 11 (the joiner's table empties when the
/// entry goes stale), and a server is back at the bootstrap address at minute 32 - between two 15-minute refreshes. Watched at
/// every 5-minute boundary for an hour: with a reachable bootstrap node the table does not stay empty.
pub fn outage(b: u64, seed: u64, down_min: u64, up_min: u64, out: &mut Out) -> u64 {
    let mut sim = Sim::new(seed ^ 0x0A7A, NetCfg { lat_min_ms: 2, lat_max_ms: 6, cadence_ms: 1000, ..Default::default() });
    sim.record = true;
    let bip = private_ip(1);
    let first = sim.add_node(NodeOpts::server(bip, &[]));
    let boot = vec![format!("{bip}:6881")];
    let j = sim.add_node(NodeOpts::server(private_ip(2), &boot));
    let start = sim.now_ns();
    let mut lines = 0;
    let mut servers = vec![first];
    let mut up_since: Option<u64> = Some(start);
    for k in 1..=12u64 {
        let target = start + k * 300_000 * MS;
        for (min, what) in [(down_min, 0u8), (up_min, 1u8)] {
            let t = start + min * 60_000 * MS;
            if t > sim.now_ns() && t <= target {
                let d = (t - sim.now_ns()) / MS;
                sim.run_for(d);
                if what == 0 {
                    sim.crash(*servers.last().expect("server"));
                    up_since = None;
                } else {
                    servers.push(sim.add_node(NodeOpts::server(bip, &[])));
                    up_since = Some(sim.now_ns());
                }
            }
        }
        let d = (target - sim.now_ns()) / MS;
        sim.run_for(d);
        let now = sim.now_ns();
        let snap = match sim.snapshot(j) {
            Some(s) => s,
            None => break,
        };
        let baddr = format!("{bip}:6881");
        let members = |t: &dht::verif::TableSnap| -> Vec<usize> { t.nodes.iter().filter(|x| x.addr == baddr).map(|_| servers.len() - 1).collect() };
        out.line(&json!({"e":"tablewatch","b":b,"t":(now - start) / MS,"main":members(&snap.routing_table),"signed":members(&snap.signed_peers_routing_table),
            "answered":Vec::<usize>::new(),"capable":Vec::<usize>::new(),"bucket_capacity":20,"boot_alive_ms":up_since.map(|t| (now - t) / MS).unwrap_or(0),
            "id":snap.id,"panicked":sim.nodes[j].panicked}));
        lines += 1;
    }
    sim.shutdown();
    lines
}

pub fn run(args: &Args) -> i32 {
    let seed = args.u64("seed", 1);
    let thorough = args.thorough();
    let mut out = Out::create(&args.str("out", "/verif/work/C14/trace.ndjson"));
    let plans: Vec<(usize, u64, u64)> = if thorough {
        (0..60).map(|i| ([5usize, 8, 12, 20, 35, 50][i % 6], [2u64, 3, 4][i % 3], (i % 3) as u64)).collect()
    } else {
        vec![(5, 1, 0), (6, 2, 1), (8, 1, 2), (12, 1, 1), (20, 1, 0), (7, 2, 2), (35, 1, 0), (45, 1, 1)]
    };
    // blackouts: all known peers go silent at once (the 2-node network: the other node; larger ones: everybody but one)
    let blackouts: Vec<(usize, u64, u64)> = if thorough { vec![(2, 2, 0), (3, 2, 1), (5, 3, 0), (9, 2, 1), (14, 2, 2), (20, 2, 0), (30, 2, 1)] } else { vec![(2, 2, 0), (4, 2, 1), (9, 2, 0)] };
    let only = args.get("only").and_then(|x| x.parse::<u64>().ok());
    let mut lines = 0;
    let mut b = 0u64;
    for (servers, hours, churn) in plans {
        if only.is_none() || only == Some(b) {
            lines += timeline(b, servers, hours, churn, seed ^ (b * 104729), &mut out, "");
        }
        b += 1;
    }
    for (servers, hours, churn) in blackouts {
        if only.is_none() || only == Some(b) {
            lines += timeline(b, servers, hours, churn, seed ^ (b * 104729), &mut out, "blackout");
        }
        b += 1;
    }
    // busy observers: overlapping lookups on one server throughout, peers crashing around it
    let busies: Vec<(usize, u64, u64)> = if thorough { vec![(5, 2, 1), (8, 2, 2), (12, 1, 1), (20, 1, 1)] } else { vec![(6, 1, 1), (10, 1, 2)] };
    for (servers, hours, churn) in busies {
        if only.is_none() || only == Some(b) {
            lines += timeline(b, servers, hours, churn, seed ^ (b * 104729), &mut out, "busy");
        }
        b += 1;
    }
    // outages of the only bootstrap server that end between two refreshes
    for (down, up) in (if thorough { vec![(11u64, 32u64), (3, 24), (12, 41), (26, 49), (11, 36)] } else { vec![(11u64, 32u64), (12, 41)] }) {
        if only.is_none() || only == Some(b) {
            out.line(&json!({"e":"reset","b":b,"first":-1,"servers":1}));
            lines += 1 + outage(b, seed ^ (down * 31 + up), down, up, &mut out);
        }
        b += 1;
    }
    // a full bucket in the main table, signed-capable peers beside it
    for i in 0..(if thorough { 6 } else { 1 }) {
        if only.is_none() || only == Some(b) {
            out.line(&json!({"e":"reset","b":b,"first":-1,"servers":1}));
            lines += 1 + fullbucket(b, seed ^ (i * 7919 + 3), &mut out);
        }
        b += 1;
    }
    out.finish();
    if let Some(p) = args.get("summary") {
        crate::util::write_json(p, &json!({"runs": b, "lines": lines, "distinct_nontrivial": b, "samples": []}));
    }
    println!("timeline driver: timelines={b} lines={lines}");
    0
}
