//! Conformance of the real Actor's public-address confirmation (adaptive mode, C18) with Adaptive.tla.
//! An inline adaptive node on a public address, four answering fake peers and one silent one (lookups started at one instant
//! end in ONE tick, when the request to the silent peer expires). The peers report either the node's own address ("A") or a
//! foreign address nobody listens at ("B"). A TLC-enumerated plan (AdaptivePlans.tla) starts lookups, switches the reported
//! address, lets time pass. One trace line per API call / environment change / tick in which something happened; judged by
//! AdaptiveTrace.tla.
use crate::calls::{Call, GetKind};
use crate::fakenet::*;
use crate::krpc;
use crate::bencode::B;
use crate::rng::Rng;
use crate::sim::*;
use crate::util::{Args, Out};
use serde_json::{json, Value};
use std::cell::Cell;
use std::collections::{BTreeSet, HashMap};
use std::net::SocketAddrV4;
use std::rc::Rc;

struct St {
    prev_active: BTreeSet<String>,
    names: HashMap<String, String>,
    next_name: usize,
    log_pos: usize,
    last_refresh_age: u64,
    prev: (String, bool, bool),
}

pub fn one_plan(b: u64, plan: &Value, seed: u64, out: &mut Out) -> u64 {
    let mut sim = Sim::new(seed ^ (b.wrapping_mul(0x9E37)), NetCfg { lat_min_ms: 1, lat_max_ms: 1, cadence_ms: 100, ..Default::default() });
    sim.record = true;
    let mut rng = Rng::new(seed ^ b ^ 0xADA9);
    let ids: Vec<[u8; 20]> = (0..5).map(|_| rng.id()).collect();
    let ip = public_ip(77);
    let a_addr = SocketAddrV4::new(ip, 6881);
    let b_addr = SocketAddrV4::new(public_ip(140), 6881);
    let vote_b = Rc::new(Cell::new(false));
    let vb = vote_b.clone();
    let all: Vec<([u8; 20], SocketAddrV4)> = ids.iter().enumerate().map(|(i, id)| (*id, SocketAddrV4::new(fake_ip(i), 6881))).collect();
    let nodes = krpc::compact_nodes(&all);
    // not every node on the network reports the requester's address (the `ip` field is an extension): in two behaviours out of
    // three, 2 resp. 3 of the 4 answering peers leave it out - the ones that do report still agree
    let mute = match b % 3 { 1 => 2, 2 => 3, _ => 0 };
    let policy: Policy = Box::new(move |me, m, _w| {
        if me.idx == 4 {
            return Reply::Silent;
        }
        let voted = if vb.get() { b_addr } else { a_addr };
        let q = m.q.clone().unwrap_or_default();
        let mut r = B::dict();
        if q != "ping" {
            r.set("nodes", B::bytes(&nodes));
            if q != "find_node" {
                r.set("token", B::bytes(me.token()));
            }
        }
        let mut msg = krpc::response(&m.tid, &me.id, r, if me.idx < mute { None } else { Some(&voted) });
        // no version: the responders stay out of the signed-peers table
        msg.remove("v");
        Reply::One(msg, 1)
    });
    let net = FakeNet::install(&mut sim, &ids, policy);
    let c = sim.add_node(NodeOpts::client(ip, &net.bootstrap()));
    let caddr = sim.nodes[c].addr;
    sim.tick_trace = Some(c);
    sim.tick_log.clear();
    out.line(&json!({"e":"reset","b":b,"plan":plan,"peers_not_reporting":mute}));
    let mut lines = 1u64;
    let mut st = St { prev_active: BTreeSet::new(), names: HashMap::new(), next_name: 1, log_pos: 0, last_refresh_age: 0, prev: ("none".into(), true, false) };
    let mut calls: Vec<Call> = vec![];

    // observe the node; emit a line if `force` or anything happened
    let mut observe = |sim: &mut Sim, st: &mut St, base: Value, selfin: bool, force: bool, last: bool, vote_b: bool, out: &mut Out| -> u64 {
        let snap = match sim.snapshot(c) {
            Some(s) => s,
            None => {
                let mut line = base;
                line["started"] = json!([]);
                line["finished"] = json!([]);
                line["pinged"] = json!([]);
                line["selfin"] = json!(false);
                line["refreshed"] = json!(false);
                line["pub"] = json!(st.prev.0.clone());
                line["fw"] = json!(st.prev.1);
                line["server"] = json!(st.prev.2);
                line["last"] = json!(last);
                line["vote"] = json!(if vote_b { "B" } else { "A" });
                line["active"] = json!(0);
                line["panicked"] = json!(true);
                line["plan"] = plan.clone();
                out.line(&line);
                return 1;
            }
        };
        let active: BTreeSet<String> = snap.queries.iter().map(|q| q.target.clone()).collect();
        let mut started = vec![];
        for t in active.difference(&st.prev_active) {
            let n = format!("q{}", st.next_name);
            st.next_name += 1;
            st.names.insert(t.clone(), n.clone());
            started.push(n);
        }
        let mut finished = vec![];
        for t in st.prev_active.difference(&active) {
            if let Some(n) = st.names.remove(t) {
                finished.push(n);
            }
        }
        let mut pinged = vec![];
        while st.log_pos < sim.log.len() {
            let r = &sim.log[st.log_pos];
            if r.from == caddr {
                if let Some(m) = &r.msg {
                    if m.q.as_deref() == Some("ping") {
                        if r.to == a_addr {
                            pinged.push("A");
                        } else if r.to == b_addr {
                            pinged.push("B");
                        }
                    }
                }
            }
            st.log_pos += 1;
        }
        let publ = match snap.public_address.as_deref() {
            None => "none".to_string(),
            Some(x) if x == a_addr.to_string() => "A".to_string(),
            Some(x) if x == b_addr.to_string() => "B".to_string(),
            Some(x) => x.to_string(),
        };
        let refreshed = snap.last_table_refresh_age_ns < st.last_refresh_age;
        st.last_refresh_age = snap.last_table_refresh_age_ns;
        let now = (publ.clone(), snap.firewalled, snap.server_mode);
        let happened = force || last || selfin || refreshed || !started.is_empty() || !finished.is_empty() || !pinged.is_empty() || now != st.prev || sim.nodes[c].panicked;
        st.prev_active = active;
        if !happened {
            return 0;
        }
        st.prev = now;
        let mut line = base;
        line["started"] = json!(started);
        line["finished"] = json!(finished);
        line["pinged"] = json!(pinged);
        line["selfin"] = json!(selfin);
        line["refreshed"] = json!(refreshed);
        line["pub"] = json!(publ);
        line["fw"] = json!(snap.firewalled);
        line["server"] = json!(snap.server_mode);
        line["last"] = json!(last);
        line["vote"] = json!(if vote_b { "B" } else { "A" });
        line["active"] = json!(st.prev_active.len());
        line["panicked"] = json!(sim.nodes[c].panicked);
        line["plan"] = plan.clone();
        line["t_ms"] = json!(sim.now_ns() / MS);
        out.line(&line);
        1
    };

    // let `ms` pass, one line per eventful tick
    let mut pass = |sim: &mut Sim, st: &mut St, ms: u64, vote_b: bool, out: &mut Out| -> u64 {
        let mut n = 0;
        let end = sim.now_ns() + ms * MS;
        while sim.now_ns() < end && sim.nodes[c].alive {
            let before = sim.tick_log.len();
            sim.step(end);
            for k in before..sim.tick_log.len() {
                let rec = sim.tick_log[k].clone();
                let selfin = match &rec.input {
                    Some((bytes, from)) => *from == caddr && krpc::Msg::parse(bytes).map(|m| m.is_request() && m.q.as_deref() == Some("ping")).unwrap_or(false),
                    None => false,
                };
                n += observe(sim, st, json!({"e":"tick"}), selfin, false, false, vote_b, out);
            }
        }
        n
    };

    let steps: Vec<String> = plan.as_array().map(|a| a.iter().map(|x| x.as_str().unwrap_or("").to_string()).collect()).unwrap_or_default();
    // the node's first tick (bootstrap lookup)
    lines += pass(&mut sim, &mut st, 5, false, out);
    for s in &steps {
        let vbn = vote_b.get();
        match s.as_str() {
            "start1" | "start2" | "start3" => {
                let n = s[5..].parse::<usize>().unwrap_or(1);
                for _ in 0..n {
                    calls.push(sim.call_get(c, GetKind::FindNode, rng.id(), "l"));
                }
                sim.flush();
                lines += observe(&mut sim, &mut st, json!({"e":"api","op":s}), false, true, false, vbn, out);
                // the answers (and the address they report) arrive within 2 ms: a lookup carries the address reported when it started
                lines += pass(&mut sim, &mut st, 5, vbn, out);
            }
            "voteA" | "voteB" => {
                vote_b.set(s == "voteB");
                lines += observe(&mut sim, &mut st, json!({"e":"env","op":"vote","a": if s == "voteB" { "B" } else { "A" }}), false, true, false, s == "voteB", out);
            }
            "wait" => lines += pass(&mut sim, &mut st, 150, vbn, out),
            "finish" => lines += pass(&mut sim, &mut st, 3000, vbn, out),
            "refresh" => lines += pass(&mut sim, &mut st, 16 * 60_000, vbn, out),
            _ => {}
        }
        if !sim.nodes[c].alive {
            break;
        }
    }
    let vbn = vote_b.get();
    lines += pass(&mut sim, &mut st, 4000, vbn, out);
    if sim.nodes[c].alive {
        sim.poke(c);
    }
    lines += observe(&mut sim, &mut st, json!({"e":"tick"}), false, true, true, vbn, out);
    sim.tick_trace = None;
    drop(calls);
    sim.shutdown();
    lines
}

pub fn run(args: &Args) -> i32 {
    let seed = args.u64("seed", 1);
    let mut out = Out::create(&args.str("out", "/verif/work/C18/trace-adapt.ndjson"));
    let refresh_permille = args.u64("refresh-permille", 1000);
    let only = args.get("only").and_then(|x| x.parse::<u64>().ok());
    let mut b = 0u64;
    let mut ran = 0u64;
    let mut lines = 0u64;
    let mut samples = vec![];
    if let Some(path) = args.get("in") {
        for line in std::fs::read_to_string(path).expect("plans").lines() {
            let v: Value = match serde_json::from_str(line) {
                Ok(v) => v,
                Err(_) => continue,
            };
            let mut plans: Vec<Value> = v["plans"].as_array().cloned().unwrap_or_default();
            plans.sort_by_key(|p| p.to_string());
            for p in plans {
                let has_refresh = p.as_array().map(|a| a.iter().any(|x| x == "refresh")).unwrap_or(false);
                // plans with a refresh cost 16 virtual minutes of ticks each: sampled (deterministically) in the quick tier
                let take = !has_refresh || (b.wrapping_mul(2654435761) % 1000) < refresh_permille;
                if take && (only.is_none() || only == Some(b)) {
                    lines += one_plan(b, &p, seed, &mut out);
                    ran += 1;
                    if samples.len() < 3 {
                        samples.push(p.clone());
                    }
                }
                b += 1;
            }
        }
    }
    out.finish();
    if let Some(p) = args.get("summary") {
        crate::util::write_json(p, &json!({"runs": ran, "plans": b, "lines": lines, "distinct_nontrivial": ran, "samples": samples}));
    }
    println!("adaptconf driver: plans={ran}/{b} lines={lines}");
    0
}
