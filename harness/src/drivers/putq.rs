//! C08 / C17 driver: one real writer node against fake storage peers. Store-phase runs (kind x number
//! of requests x arrival sequence of acks / error codes, the rest lost) come from the TLC generator
//! (MC_PutQ); large replica sets use `extra_nodes`; conflict runs place a second put_mutable at each
//! phase of the first one's lifetime. Observations go to PutQTrace.tla.
use crate::bencode::B;
use crate::calls::Call;
use crate::crypto;
use crate::fakenet::*;
use crate::krpc;
use crate::sim::*;
use crate::util::{Args, Out};
use dht::verif as v;
use dht::{Id, MutableItem, PutRequestSpecific};
use serde_json::{json, Value};
use std::cell::RefCell;
use std::collections::HashMap;
use std::rc::Rc;

fn put_request(kind: &str, seq: i64, cas: Option<i64>, val: &[u8]) -> PutRequestSpecific {
    match kind {
        "imm" => PutRequestSpecific::PutImmutable(v::PutImmutableRequestArguments { target: Id::from(crypto::immutable_target(val)), v: val.into() }),
        // seq doubles as the variant of an announcement: another port / another signer for the same info_hash
        "announce" => PutRequestSpecific::AnnouncePeer(v::AnnouncePeerRequestArguments { info_hash: Id::from(crypto::sha1(b"ih")), port: (7000 + seq.rem_euclid(1000)) as u16, implied_port: None }),
        "sannounce" => {
            let sk = crypto::keypair(4 + seq.rem_euclid(50) as u8);
            let ih = crypto::sha1(b"ih");
            let t = v::unix_micros();
            PutRequestSpecific::AnnounceSignedPeer(v::AnnounceSignedPeerRequestArguments {
                info_hash: Id::from(ih),
                t,
                k: sk.verifying_key().to_bytes(),
                sig: crypto::sign(&sk, &crypto::announce_signable(&ih, t)),
            })
        }
        _ => {
            let item = MutableItem::new(&crypto::keypair(4), val, seq, None);
            PutRequestSpecific::PutMutable(v::PutMutableRequestArguments::from(item, cas))
        }
    }
}

struct Shared {
    /// replies for store requests in the order the requests are received
    plan: Vec<i64>,
    next: usize,
    /// tid -> (peer, code planned or -1 for lost)
    stores: Vec<(Vec<u8>, usize, i64, Vec<u8>)>,
    tokenless: Vec<usize>,
}

fn is_store(q: &str) -> bool {
    q == "put" || q == "announce_peer" || q == "announce_signed_peer"
}

/// One store-phase run. `sent` token-bearing peers (the first 5 answer the lookup, the rest are extra
/// nodes), one extra token-less lookup responder.
/// `reverse`: the request received LAST is answered FIRST (the arrival sequence of codes stays `arr`), so which node answers
/// first does not coincide with the order in which the nodes were addressed.
fn run_store(b: u64, kind: &str, sent: usize, arr: &[i64], seed: u64, reverse: bool) -> Value {
    let mut sim = Sim::new(seed ^ b, NetCfg { lat_min_ms: 10, lat_max_ms: 10, ..Default::default() });
    sim.record = true;
    let regular = sent.min(5);
    let npeers = sent + 1; // last one: token-less responder
    let ids: Vec<[u8; 20]> = (0..npeers).map(|i| crypto::sha1(&[(i % 256) as u8, (i / 256) as u8, 9])).collect();
    let shared = Rc::new(RefCell::new(Shared { plan: arr.to_vec(), next: 0, stores: vec![], tokenless: vec![npeers - 1] }));
    let sh = shared.clone();
    let planned = sent;
    let listed: Vec<usize> = (0..regular).chain(std::iter::once(npeers - 1)).collect();
    let all: Vec<([u8; 20], std::net::SocketAddrV4)> = listed.iter().map(|&i| (ids[i], std::net::SocketAddrV4::new(fake_ip(i), 6881))).collect();
    let nodes = krpc::compact_nodes(&all);
    let policy: Policy = Box::new(move |me, m, w| {
        let q = m.q.clone().unwrap_or_default();
        let mut s = sh.borrow_mut();
        if is_store(&q) {
            let recv_i = s.next;
            s.next += 1;
            // arrival slot of this request's reply
            let i = if reverse { planned.saturating_sub(1 + recv_i) } else { recv_i };
            let code = s.plan.get(i).cloned().unwrap_or(-1);
            let tok = m.arg_bytes("token").map(|t| t.to_vec()).unwrap_or_default();
            s.stores.push((m.tid.clone(), me.idx, code, tok));
            if code < 0 {
                return Reply::Silent;
            }
            // arrival order = order of receipt; everything arrives well before the 500 ms request timeout
            let delay = if planned <= 20 { 20 + 15 * i as u64 } else { 20 + (i as u64 * 350) / planned as u64 };
            return if code == 0 {
                Reply::One(krpc::response(&m.tid, &me.id, B::dict(), Some(&w.from)), delay)
            } else {
                Reply::One(krpc::error(&m.tid, code, &krpc::error_text(code, me.idx)), delay)
            };
        }
        if q == "get" || q == "get_peers" || q == "get_signed_peers" || q == "find_node" {
            let tokenless = s.tokenless.contains(&me.idx);
            return Reply::One(lookup_reply(&nodes, me, m, w, &[], !tokenless && q != "find_node"), 10);
        }
        Reply::Default
    });
    let net = FakeNet::install(&mut sim, &ids, policy);
    net.0.borrow_mut().listed = listed.clone();
    let boot: Vec<String> = listed.iter().map(|&i| net.peers()[i].addr.to_string()).collect();
    let c = sim.add_node(NodeOpts::client(private_ip(3), &boot));
    sim.run_for(2500);
    let extras: Option<Box<[dht::Node]>> = if sent > regular {
        // the token-less peer goes first (and, for odd run numbers, also in the middle) of the extra nodes: it must be
        // skipped, and every other extra node must still be written to with its own token
        let tl = &net.peers()[npeers - 1];
        let mut v2: Vec<dht::Node> = vec![dht::Node::new(Id::from(tl.id), tl.addr)];
        for i in regular..sent {
            let p = &net.peers()[i];
            v2.push(v::node_with_token(Id::from(p.id), p.addr, &p.token()));
            if b % 2 == 1 && i == (regular + sent) / 2 {
                v2.push(dht::Node::new(Id::from(tl.id), tl.addr));
            }
        }
        Some(v2.into_boxed_slice())
    } else {
        None
    };
    let log0 = sim.log.len();
    let caddr = sim.nodes[c].addr;
    let mut call = sim.call_put(c, put_request(kind, 5, None, b"payload of the put"), extras, "put");
    sim.poke(c);
    let done = sim.run_calls(&mut [&mut call], 60_000);
    let done_ns = call.done_ns().unwrap_or(u64::MAX);
    sim.run_for(1500);
    call.poll(sim.now_ns());
    let s = shared.borrow();
    // what reached the writer, in arrival order, and which of it while the call was pending
    let tid_code: HashMap<Vec<u8>, i64> = s.stores.iter().map(|(t, _, c, _)| (t.clone(), *c)).collect();
    let mut arrived: Vec<(u64, i64)> = vec![];
    for r in &sim.log[log0..] {
        if r.to == caddr && !r.delivered_ns.is_empty() {
            if let Some(m) = &r.msg {
                if let Some(c) = tid_code.get(&m.tid) {
                    if (m.is_response() || m.is_error()) && *c >= 0 {
                        arrived.push((r.delivered_ns[0], *c));
                    }
                }
            }
        }
    }
    arrived.sort();
    let peers = net.peers();
    let tokens_ok = s.stores.iter().all(|(_, p, _, tok)| *tok == peers[*p].token());
    let tokenless_addressed = s.stores.iter().any(|(_, p, _, _)| s.tokenless.contains(p));
    json!({"e":"run","b":b,"kind":kind,"planned_sent":sent,"sent":s.stores.len(),
        "arr_all": arrived.iter().map(|x| x.1).collect::<Vec<_>>(),
        "arr_pending": arrived.iter().filter(|x| x.0 <= done_ns).map(|x| x.1).collect::<Vec<_>>(),
        "result": call.outcome().map(|o| o.name()).unwrap_or("hang".into()),
        "outcomes": call.outcomes.len(), "done": done, "panicked": sim.nodes[c].panicked,
        "tokens_ok": tokens_ok, "tokenless_addressed": tokenless_addressed, "reverse": reverse})
}

/// Second put_mutable placed at a phase of the first one's lifetime.
fn run_conflict(b: u64, phase: &str, sig_same: bool, seq: i64, cas: i64, seed: u64) -> Value {
    let mut sim = Sim::new(seed ^ b, NetCfg { lat_min_ms: 10, lat_max_ms: 10, ..Default::default() });
    let ids: Vec<[u8; 20]> = (0..4).map(|i| crypto::sha1(&[i as u8, 17])).collect();
    let net = FakeNet::install(&mut sim, &ids, Box::new(|_, _, _| Reply::Default));
    let c = sim.add_node(NodeOpts::client(private_ip(3), &net.bootstrap()));
    sim.run_for(2500);
    net.clear_seen();
    let first = put_request("mut", 1, None, b"first value");
    let second = if sig_same { put_request("mut", 1, if cas >= 0 { Some(cas) } else { None }, b"first value") } else { put_request("mut", seq, if cas >= 0 { Some(cas) } else { None }, b"second value") };
    let mut c1 = sim.call_put(c, first, None, "first");
    sim.poke(c);
    let mut c2: Option<Call> = None;
    let limit = sim.now_ns() + 60_000 * MS;
    loop {
        let now = sim.now_ns();
        c1.poll(now);
        if let Some(x) = c2.as_mut() {
            x.poll(now);
        }
        let stores_seen = net.seen().iter().any(|s| s.msg.q.as_deref() == Some("put"));
        let trigger = match phase {
            "during_lookup" => true,
            "store_phase" => stores_seen,
            _ => c1.done(),
        };
        if c2.is_none() && trigger {
            c2 = Some(sim.call_put(c, second.clone(), None, "second"));
            sim.poke(c);
            continue;
        }
        if c1.done() && c2.as_ref().map(|x| x.done()).unwrap_or(false) {
            break;
        }
        if !sim.step(limit) {
            break;
        }
    }
    sim.run_for(1500);
    let snap = sim.snapshot(c);
    let leak = snap.map(|s| !s.puts.is_empty() || !s.put_senders.is_empty()).unwrap_or(true);
    // which items actually went out in store requests
    let second_value: &[u8] = if sig_same { b"first value" } else { b"second value" };
    let written = |val: &[u8]| net.seen().iter().any(|s| s.msg.q.as_deref() == Some("put") && s.msg.arg_bytes("v") == Some(val));
    let (first_written, second_written) = (written(b"first value"), written(second_value));
    json!({"e":"conflict","b":b,"phase":phase,"first_written":first_written,"second_written":second_written,"second":{"sig": if sig_same {"A"} else {"B"},"seq": if sig_same {1} else {seq},"cas":cas},
        "first_result": c1.outcome().map(|o| o.name()).unwrap_or("hang".into()),
        "second_result": c2.as_ref().and_then(|x| x.outcome().map(|o| o.name())).unwrap_or("hang".into()),
        "first_outcomes": c1.outcomes.len(), "second_outcomes": c2.as_ref().map(|x| x.outcomes.len()).unwrap_or(0),
        "panicked": sim.nodes[c].panicked, "leak": leak})
}

/// Two puts of a kind whose target does not determine the payload (announce_peer with two ports, announce_signed_peer with
/// two signers; as a control: the same immutable value twice) overlapping on one node: the second call is made at a phase
/// of the first one's lifetime. Which payloads went out in store requests and were acknowledged is read from the fake peers.
fn run_overlap(b: u64, kind: &str, phase: &str, seed: u64) -> Value {
    let mut sim = Sim::new(seed ^ b, NetCfg { lat_min_ms: 10, lat_max_ms: 10, ..Default::default() });
    let ids: Vec<[u8; 20]> = (0..4).map(|i| crypto::sha1(&[i as u8, 23])).collect();
    let net = FakeNet::install(&mut sim, &ids, Box::new(|_, _, _| Reply::Default));
    let c = sim.add_node(NodeOpts::client(private_ip(3), &net.bootstrap()));
    sim.run_for(2500);
    net.clear_seen();
    let (v1, v2) = if kind == "imm" { (5, 5) } else { (5, 6) };
    let first = put_request(kind, v1, None, b"overlap value");
    let second = put_request(kind, v2, None, b"overlap value");
    let mut c1 = sim.call_put(c, first, None, "first");
    sim.poke(c);
    let mut c2: Option<Call> = None;
    let limit = sim.now_ns() + 60_000 * MS;
    loop {
        let now = sim.now_ns();
        c1.poll(now);
        if let Some(x) = c2.as_mut() {
            x.poll(now);
        }
        let stores_seen = net.seen().iter().any(|s| is_store(s.msg.q.as_deref().unwrap_or("")));
        let trigger = match phase {
            "during_lookup" => true,
            "store_phase" => stores_seen,
            _ => c1.done(),
        };
        if c2.is_none() && trigger {
            c2 = Some(sim.call_put(c, second.clone(), None, "second"));
            sim.poke(c);
            continue;
        }
        if c1.done() && c2.as_ref().map(|x| x.done()).unwrap_or(false) {
            break;
        }
        if !sim.step(limit) {
            break;
        }
    }
    sim.run_for(1500);
    let snap = sim.snapshot(c);
    let leak = snap.map(|s| !s.puts.is_empty() || !s.put_senders.is_empty()).unwrap_or(true);
    // the payload a store request carried: port / signer key / value
    let carried = |variant: i64| {
        net.seen().iter().any(|s| match kind {
            "announce" => s.msg.q.as_deref() == Some("announce_peer") && s.msg.arg_int("port") == Some((7000 + variant) as i128),
            "sannounce" => s.msg.q.as_deref() == Some("announce_signed_peer") && s.msg.arg_bytes("k") == Some(&crypto::keypair(4 + variant as u8).verifying_key().to_bytes()[..]),
            _ => s.msg.q.as_deref() == Some("put") && s.msg.arg_bytes("v") == Some(&b"overlap value"[..]),
        })
    };
    json!({"e":"overlap","b":b,"kind":kind,"phase":phase,"first_written":carried(v1),"second_written":carried(v2),
        "first_result": c1.outcome().map(|o| o.name()).unwrap_or("hang".into()),
        "second_result": c2.as_ref().and_then(|x| x.outcome().map(|o| o.name())).unwrap_or("hang".into()),
        "first_outcomes": c1.outcomes.len(), "second_outcomes": c2.as_ref().map(|x| x.outcomes.len()).unwrap_or(0),
        "panicked": sim.nodes[c].panicked, "leak": leak})
}

pub fn run(args: &Args) -> i32 {
    let seed = args.u64("seed", 1);
    let thorough = args.thorough();
    let mut out = Out::create(&args.str("out", "/verif/work/C08/trace.ndjson"));
    let mut b = 0u64;
    let mut samples = vec![];
    let mut distinct = std::collections::HashSet::new();
    if let Some(path) = args.get("in") {
        for line in std::fs::read_to_string(path).expect("runs").lines() {
            if let Ok(r) = serde_json::from_str::<Value>(line) {
                let arr: Vec<i64> = r["arr"].as_array().map(|a| a.iter().map(|x| x.as_i64().unwrap_or(0)).collect()).unwrap_or_default();
                let ev = run_store(b, r["kind"].as_str().unwrap_or("imm"), r["sent"].as_u64().unwrap_or(1) as usize, &arr, seed, false);
                if r["sent"].as_u64().unwrap_or(1) >= 2 && !arr.is_empty() {
                    // the same run with the replies arriving in the opposite order of addressing
                    out.line(&run_store(b, r["kind"].as_str().unwrap_or("imm"), r["sent"].as_u64().unwrap_or(1) as usize, &arr, seed, true));
                }
                if arr.len() >= 2 {
                    distinct.insert(format!("{}{:?}", r["kind"], arr));
                }
                if samples.len() < 3 && b % 700 == 13 {
                    samples.push(ev.clone());
                }
                out.line(&ev);
                b += 1;
            }
        }
    }
    if args.get("no-large").is_none() {
        // large replica sets through extra nodes
        let sizes: &[usize] = if thorough { &[5, 6, 7, 20, 255, 256, 257, 300, 511, 512, 600] } else { &[5, 7, 20, 255, 256, 300] };
        for &n in sizes {
            for kind in ["imm", "mut"] {
                for pat in ["all_ack", "one_ack_last", "one_ack_first", "none", "majority301", "minority301", "acks256", "ack_then_majority301"] {
                    let arr: Vec<i64> = match pat {
                        "all_ack" => vec![0; n],
                        "one_ack_last" => (0..n).map(|i| if i == n - 1 { 0 } else { 203 }).collect(),
                        "one_ack_first" => (0..n).map(|i| if i == 0 { 0 } else { 203 }).collect(),
                        "none" => vec![],
                        "majority301" => (0..n).map(|i| if i < n / 2 + 1 { 301 } else { 0 }).collect(),
                        "ack_then_majority301" => (0..n).map(|i| if i == 0 { 0 } else if i <= n / 2 + 1 { 301 } else { 203 }).collect(),
                        "minority301" => (0..n).map(|i| if i < n / 2 - 1 { 301 } else { 0 }).collect(),
                        _ => (0..n).map(|i| if i < 256.min(n) { 0 } else { 203 }).collect(),
                    };
                    let ev = run_store(b, kind, n, &arr, seed, b % 2 == 1);
                    distinct.insert(format!("{kind}{n}{pat}"));
                    out.line(&ev);
                    b += 1;
                }
            }
        }
    }
    if args.get("no-conflict").is_none() {
        for phase in ["during_lookup", "store_phase", "after_done"] {
            for (sig_same, seq) in [(true, 1), (false, 0), (false, 1), (false, 2)] {
                for cas in [-1i64, 0, 1, 2] {
                    let ev = run_conflict(b, phase, sig_same, seq, cas, seed);
                    distinct.insert(format!("{phase}{sig_same}{seq}{cas}"));
                    if samples.len() < 5 && phase == "store_phase" && cas == 1 {
                        samples.push(ev.clone());
                    }
                    out.line(&ev);
                    b += 1;
                }
            }
        }
    }
    if args.get("no-conflict").is_none() {
        for kind in ["announce", "sannounce", "imm"] {
            for phase in ["during_lookup", "store_phase", "after_done"] {
                let ev = run_overlap(b, kind, phase, seed);
                distinct.insert(format!("overlap{kind}{phase}"));
                out.line(&ev);
                b += 1;
            }
        }
    }
    out.finish();
    let summary = json!({"runs": b, "distinct_nontrivial": distinct.len(), "samples": samples});
    if let Some(p) = args.get("summary") {
        crate::util::write_json(p, &summary);
    }
    println!("putq driver: runs={b}");
    0
}
