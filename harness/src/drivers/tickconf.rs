//! Tick-level L2 conformance driver (C06 / C20 / C07 binding of Query.tla): one real inline client node among
//! four fake peers p1..p4 that form the chain of QueryTickTrace.tla (p1 closest to the target; the node is
//! bootstrapped through p4 only and its routing table holds p4 only). Plans come from TLC (TickPlans.tla):
//! one to three API calls on one target with gaps, an optional value holder, an optional fault on the i-th reply.
//! Every API call and every Actor::tick of the node becomes one trace line: the input of the step, the requests
//! that have expired by then (from the harness' own wire log), and the projection of the node's state afterwards.
use crate::bencode::B;
use crate::calls::{Call, GetKind};
use crate::crypto;
use crate::fakenet::*;
use crate::krpc;
use crate::sim::*;
use crate::util::{Args, Out};
use dht::verif as v;
use dht::{Id, PutRequestSpecific};
use serde_json::{json, Value};
use std::cell::RefCell;
use std::collections::HashMap;
use std::net::SocketAddrV4;
use std::rc::Rc;

const NAMES: [&str; 4] = ["p1", "p2", "p3", "p4"];
const ALL_CALLS: [&str; 6] = ["fn1", "fn2", "get1", "get2", "put1", "put2"];

fn knows(i: usize) -> Vec<usize> {
    // TKnows of QueryTickTrace.tla (indices 0..3 = p1..p4)
    match i {
        3 => vec![2, 3],
        2 => vec![1, 2],
        _ => vec![0, 1],
    }
}

pub fn run_plan(b: u64, plan: &Value, seed: u64, out: &mut Out) -> (u64, bool) {
    let val = b"tick conformance value".to_vec();
    let target = crypto::immutable_target(&val);
    // p_i shares 20 - 4*i leading bits with the target and differs at the next one: p1 closest
    let ids: Vec<[u8; 20]> = (0..4)
        .map(|i| {
            let p = 40 - 8 * i;
            let mut id = crypto::sha1(&[i as u8, 0x71]);
            for bit in 0..p {
                let (by, m) = (bit / 8, 0x80u8 >> (bit % 8));
                id[by] = (id[by] & !m) | (target[by] & m);
            }
            let (by, m) = (p / 8, 0x80u8 >> (p % 8));
            id[by] = (id[by] & !m) | (!target[by] & m);
            id
        })
        .collect();
    let mut sim = Sim::new(seed ^ b, NetCfg { lat_min_ms: 10, lat_max_ms: 10, ..Default::default() });
    sim.record = true;
    let all: Vec<([u8; 20], SocketAddrV4)> = ids.iter().enumerate().map(|(i, id)| (*id, SocketAddrV4::new(fake_ip(i), 6881))).collect();
    let holder = plan["holder"].as_bool().unwrap_or(false);
    let fkind = plan["fault"]["kind"].as_str().unwrap_or("none").to_string();
    let fidx = plan["fault"]["i"].as_u64().unwrap_or(0) as usize;
    let armed = Rc::new(RefCell::new(false));
    let counter = Rc::new(RefCell::new(0usize));
    let (armed2, counter2, all2, val2) = (armed.clone(), counter.clone(), all.clone(), val.clone());
    let policy: Policy = Box::new(move |me, m, w| {
        let q = m.q.clone().unwrap_or_default();
        let on_target = m.target() == Some(target);
        let listed: Vec<([u8; 20], SocketAddrV4)> = if on_target { knows(me.idx).into_iter().map(|i| all2[i]).collect() } else { vec![all2[3]] };
        let nodes = krpc::compact_nodes(&listed);
        let base: B = match q.as_str() {
            "find_node" => lookup_reply(&nodes, me, m, w, &[], false),
            "get" if on_target && holder && me.idx == 0 => lookup_reply(&nodes, me, m, w, &[("v", B::bytes(&val2))], true),
            "get" | "get_peers" | "get_signed_peers" => lookup_reply(&nodes, me, m, w, &[], true),
            _ => krpc::response(&m.tid, &me.id, B::dict(), Some(&w.from)),
        };
        if !*armed2.borrow() {
            return Reply::One(base, 10);
        }
        let i = *counter2.borrow();
        *counter2.borrow_mut() += 1;
        if i == fidx {
            match fkind.as_str() {
                "drop" => return Reply::Silent,
                "dup" => return Reply::Many(vec![(10, base.clone()), (45, base)]),
                "late" => return Reply::One(base, 900),
                "err" => return Reply::One(krpc::error(&m.tid, 203, "seeded error"), 10),
                _ => {}
            }
        }
        Reply::One(base, 10)
    });
    let net = FakeNet::install(&mut sim, &ids, policy);
    let c = sim.add_node(NodeOpts::client(private_ip(2), &[net.bootstrap()[3].clone()]));
    sim.run_for(3000);
    *armed.borrow_mut() = true;
    let caddr = sim.nodes[c].addr;
    let name_of: HashMap<String, &str> = all.iter().enumerate().map(|(i, (_, a))| (a.to_string(), NAMES[i])).collect();
    let nm = |a: &str| -> String { name_of.get(a).map(|s| s.to_string()).unwrap_or_else(|| a.to_string()) };
    let thex = Id::from(target).to_string();
    let snap0 = match sim.snapshot(c) {
        Some(s) => s,
        None => return (0, false),
    };
    let base_tid = snap0.inflight.next_tid;
    let rt0: Vec<String> = snap0.routing_table.nodes.iter().map(|x| nm(&x.addr)).collect();
    let infl0: Vec<Value> = snap0.inflight.entries.iter().map(|(t, a, _)| json!([t, nm(a)])).collect();
    out.line(&json!({"e":"reset","b":b,"tid_base":base_tid,"plan":plan,"rt0":rt0,"infl0":infl0,"cap0":snap0.inflight.capacity}));
    let mut lines = 1u64;
    // plan: absolute start offsets of the calls
    let call_names: Vec<String> = plan["calls"].as_array().map(|a| a.iter().map(|x| x.as_str().unwrap_or("get1").to_string()).collect()).unwrap_or_default();
    let gaps: Vec<u64> = plan["gaps"].as_array().map(|a| a.iter().map(|x| x.as_u64().unwrap_or(0)).collect()).unwrap_or_default();
    let mut at = vec![0u64; call_names.len()];
    for i in 1..call_names.len() {
        at[i] = at[i - 1] + gaps.get(i - 1).cloned().unwrap_or(0);
    }
    let t0 = sim.now_ns();
    let mut calls: Vec<Option<Call>> = call_names.iter().map(|_| None).collect();
    let mut called: Vec<String> = vec![];
    // harness-side wire bookkeeping: request tid -> (to, q, sent_ns)
    let mut log_pos = 0;
    let mut reqs: HashMap<u32, (SocketAddrV4, String, u64)> = HashMap::new();
    let mut prev_live_empty = true;
    let mut drifted = false;
    sim.tick_trace = Some(c);
    sim.tick_log.clear();
    let end_ns = t0 + (at.last().cloned().unwrap_or(0) + 6000) * MS;

    // the projection line after a step
    let pre_timeout = std::cell::Cell::new(500 * MS);
    let reused: std::cell::RefCell<Vec<u32>> = std::cell::RefCell::new(vec![]);
    let mut emit = |sim: &mut Sim, calls: &mut Vec<Option<Call>>, called: &Vec<String>, reqs: &mut HashMap<u32, (SocketAddrV4, String, u64)>, log_pos: &mut usize,
                    step: Value, prev_live_empty: &mut bool, out: &mut Out| {
        // absorb new wire records (requests the node sent during this step)
        while *log_pos < sim.log.len() {
            let r = &sim.log[*log_pos];
            if r.from == caddr {
                if let Some(m) = &r.msg {
                    if m.is_request() {
                        if let Some(t) = m.tid_u32() {
                            // a (transaction id, address) pair identifies ONE request of a behaviour
                            if reqs.get(&t).map(|old| old.0 == r.to && old.2 != r.sent_ns).unwrap_or(false) {
                                reused.borrow_mut().push(t);
                            }
                            reqs.insert(t, (r.to, m.q.clone().unwrap_or_default(), r.sent_ns));
                        }
                    }
                }
            }
            *log_pos += 1;
        }
        let now = sim.now_ns();
        for call in calls.iter_mut().flatten() {
            call.poll(now);
        }
        let s = match sim.snapshot(c) {
            Some(s) => s,
            None => {
                // the node is gone (panic): nothing to project
                out.line(&json!({"e":"dead","b":b,"panicked":sim.nodes[c].panicked,"panic":crate::util::last_panic().chars().take(200).collect::<String>()}));
                return;
            }
        };
        let timeout = s.inflight.timeout_ns;
        let q = s.queries.iter().find(|q| q.target == thex);
        let p = s.puts.iter().find(|p| p.target == thex);
        let cache = s.cache.iter().find(|e| e.target == thex);
        let live: Vec<u32> = s.inflight.entries.iter().filter(|(_, _, age)| *age < timeout).map(|(t, _, _)| *t).collect();
        let mut done = serde_json::Map::new();
        let mut outcomes = serde_json::Map::new();
        for n in ALL_CALLS {
            outcomes.insert(n.to_string(), json!(0));
        }
        for (i, name) in call_names.iter().enumerate() {
            if let Some(call) = &calls[i] {
                let d = match call.outcome() {
                    None => "pending".to_string(),
                    Some(o) => {
                        let n = o.name();
                        if n == "Dropped" && !name.starts_with("get") {
                            // the reply channel of a put / find_node caller was dropped without an answer
                            "dropped".into()
                        } else if name.starts_with("put") {
                            if n == "ok" { "ok".into() } else { "err".into() }
                        } else {
                            "end".into()
                        }
                    }
                };
                done.insert(name.clone(), json!(d));
                outcomes.insert(name.clone(), json!(call.outcomes.len()));
            }
        }
        let waiting = |v: &Vec<(String, usize)>| v.iter().filter(|(t, _)| *t == thex).map(|(_, n)| *n).sum::<usize>();
        let proj = json!({
            "q_on": q.is_some(),
            "q_kind": q.map(|q| if q.kind == "find_node" { "fn" } else { "get" }).unwrap_or("none"),
            "cand": q.map(|q| q.candidates.iter().map(|(_, a)| nm(a)).collect::<Vec<_>>()).unwrap_or_default(),
            "vis": q.map(|q| q.visited.iter().map(|a| nm(a)).collect::<Vec<_>>()).unwrap_or_default(),
            "resp": q.map(|q| q.responders.iter().map(|(_, a)| nm(a)).collect::<Vec<_>>()).unwrap_or_default(),
            "q_tids": q.map(|q| q.tids.clone()).unwrap_or_default(),
            "p_on": p.is_some(),
            "p_started": p.map(|p| p.started).unwrap_or(false),
            "p_tids": p.map(|p| p.tids.clone()).unwrap_or_default(),
            "acks": p.map(|p| p.stored_at).unwrap_or(0),
            "errs": p.map(|p| p.errors.iter().map(|(n, _)| *n).sum::<u64>()).unwrap_or(0),
            "live": live,
            "present": s.inflight.entries.iter().map(|(t, _, _)| *t).collect::<Vec<u32>>(), "cap": s.inflight.capacity,
            "next_tid": s.inflight.next_tid,
            "cache_on": cache.is_some(),
            "cache_kind": cache.map(|e| if e.find_node { "fn" } else { "get" }).unwrap_or("none"),
            "cache_nodes": cache.map(|e| e.nodes).unwrap_or(0),
            "rt": s.routing_table.nodes.iter().map(|x| nm(&x.addr)).collect::<Vec<_>>(),
            "waiting_get": waiting(&s.get_senders), "waiting_put": waiting(&s.put_senders),
            "called": called, "done": Value::Object(done),
        });
        // requests (of this behaviour) that have expired by now, per the harness' own wire log
        // expiry is judged with the request timeout in force: for the request the incoming message answers, the timeout BEFORE
        // this tick (the sample this very message contributes to the round-trip estimate must not decide about its own
        // acceptance); for every other request the timeout after it (what the liveness checks at the end of the tick used)
        let pre = pre_timeout.get();
        pre_timeout.set(timeout);
        let in_tid: Option<u32> = step["input"]["tid"].as_i64().filter(|t| *t >= 0).map(|t| t as u32);
        let expired: Vec<u32> = reqs.iter().filter(|(t, (_, _, sent))| now - *sent >= if Some(**t) == in_tid { pre } else { timeout }).map(|(t, _)| *t).collect();
        let mut line = step;
        line["b"] = json!(b);
        line["t_ms"] = json!((now - t0) / MS);
        line["expired"] = json!(expired);
        line["tid_reused"] = json!(reused.borrow().clone());
        line["proj"] = proj;
        line["outcomes"] = Value::Object(outcomes);
        line["quiet"] = json!(*prev_live_empty && line["e"] == "tick" && line["input"]["dir"] == "timeout");
        line["timeout_ms"] = json!(timeout / MS);
        line["panicked"] = json!(sim.nodes[c].panicked);
        if line.get("last").is_none() {
            line["last"] = json!(false);
        }
        *prev_live_empty = live_is_empty(&line);
        out.line(&line);
    };
    fn live_is_empty(line: &Value) -> bool {
        line["proj"]["live"].as_array().map(|a| a.is_empty()).unwrap_or(true)
    }

    loop {
        let now = sim.now_ns();
        // API calls that are due
        for i in 0..call_names.len() {
            if calls[i].is_none() && now >= t0 + at[i] * MS {
                let name = call_names[i].clone();
                let call = if name.starts_with("fn") {
                    sim.call_get(c, GetKind::FindNode, target, &name)
                } else if name.starts_with("get") {
                    sim.call_get(c, GetKind::Immutable, target, &name)
                } else {
                    sim.call_put(c, PutRequestSpecific::PutImmutable(v::PutImmutableRequestArguments { target: Id::from(target), v: val.clone().into() }), None, &name)
                };
                calls[i] = Some(call);
                called.push(name.clone());
                sim.flush();
                emit(&mut sim, &mut calls, &called, &mut reqs, &mut log_pos, json!({"e":"api","call":name}), &mut prev_live_empty, out);
                lines += 1;
            }
        }
        if now >= end_ns || !sim.nodes[c].alive {
            break;
        }
        // next event, but never past the next due API call
        let next_call = (0..call_names.len()).filter(|&i| calls[i].is_none()).map(|i| t0 + at[i] * MS).min();
        let limit = next_call.map(|t| t.min(end_ns)).unwrap_or(end_ns);
        let before = sim.tick_log.len();
        sim.step(limit);
        if sim.tick_log.len() > before {
            let rec = sim.tick_log[before].clone();
            let input = match &rec.input {
                None => json!({"dir":"timeout","tid":-1,"peer":"none","kind":"none"}),
                Some((bytes, from)) => match krpc::Msg::parse(bytes) {
                    Some(m) if !m.is_request() => {
                        let tid = m.tid_u32().map(|t| t as i64).unwrap_or(-1);
                        let rq = m.tid_u32().and_then(|t| reqs.get(&t)).cloned();
                        let kind = if m.is_error() {
                            "e"
                        } else {
                            match rq.as_ref().map(|r| r.1.as_str()) {
                                Some("find_node") => "nodes",
                                Some("get") => {
                                    if m.arg_bytes("v").is_some() { "val" } else { "tok" }
                                }
                                Some("put") => "ack",
                                _ => "nodes",
                            }
                        };
                        json!({"dir":"resp","tid":tid,"peer":nm(&from.to_string()),"kind":kind})
                    }
                    _ => json!({"dir":"timeout","tid":-1,"peer":"none","kind":"none"}),
                },
            };
            emit(&mut sim, &mut calls, &called, &mut reqs, &mut log_pos, json!({"e":"tick","input":input}), &mut prev_live_empty, out);
            lines += 1;
        }
        if sim.nodes[c].panicked {
            drifted = true;
        }
    }
    // closing line of the behaviour: one more input-less tick, everything must have completed by now
    if sim.nodes[c].alive {
        sim.poke(c);
        emit(&mut sim, &mut calls, &called, &mut reqs, &mut log_pos, json!({"e":"tick","last":true,"input":{"dir":"timeout","tid":-1,"peer":"none","kind":"none"}}), &mut prev_live_empty, out);
        lines += 1;
    }
    sim.tick_trace = None;
    sim.shutdown();
    (lines, drifted)
}

pub fn run(args: &Args) -> i32 {
    let seed = args.u64("seed", 1);
    let mut out = Out::create(&args.str("out", "/verif/work/C06/trace-tick.ndjson"));
    let permille = args.u64("sample-permille", 1000);
    let only = args.get("only").and_then(|x| x.parse::<u64>().ok());
    let mut rng = crate::rng::Rng::new(seed ^ 0x71C);
    let mut plans: Vec<Value> = vec![];
    if let Some(p) = args.get("in") {
        for line in std::fs::read_to_string(p).unwrap_or_default().lines() {
            if let Ok(v) = serde_json::from_str::<Value>(line) {
                match v {
                    Value::Array(a) => plans.extend(a),
                    o => plans.push(o),
                }
            }
        }
    }
    if plans.is_empty() {
        plans.push(json!({"calls":["get1","put1"],"gaps":[30],"fault":{"kind":"none","i":0},"holder":false}));
    }
    // a stable order (TLC prints sets in its own order)
    plans.sort_by_key(|p| p.to_string());
    let mut b = 0u64;
    let mut runs = 0u64;
    let mut lines = 0u64;
    for plan in &plans {
        let take = only.map(|o| o == b).unwrap_or_else(|| permille >= 1000 || rng.below(1000) < permille);
        if take {
            let (n, _) = run_plan(b, plan, seed, &mut out);
            lines += n;
            runs += 1;
        }
        b += 1;
    }
    out.finish();
    if let Some(p) = args.get("summary") {
        crate::util::write_json(p, &json!({"runs": runs, "lines": lines, "distinct_nontrivial": runs, "plans_total": plans.len(), "samples": []}));
    }
    println!("tickconf driver: plans={} run={} lines={}", plans.len(), runs, lines);
    0
}
