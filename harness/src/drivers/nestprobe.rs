//! C05 with the decoder's recursion in view: datagrams that are nothing but deeply nested lists / dictionaries (up to the 2 048
//! bytes a node reads), delivered to a node whose `actor::run` thread is the production one (default thread stack). A stack
//! overflow is not a panic: the process dies with SIGABRT - so every probe runs in a process of its own (`--one`), and the parent
//! reads the exit status. Built in the DEBUG profile as well (frames are several times larger there), see bin/check c05.
use crate::sim::*;
use crate::util::{Args, Out};
use serde_json::json;
use std::net::SocketAddrV4;

pub fn shapes() -> Vec<(String, Vec<u8>)> {
    let mut v = vec![];
    for depth in [64usize, 500, 1000, 1500, 2000] {
        let mut a = b"d1:t2:aa1:x".to_vec();
        a.extend(std::iter::repeat(b'l').take(depth));
        v.push((format!("lists-under-unknown-key/{depth}"), a));
        let mut b = b"d1:rd2:id20:aaaaaaaaaaaaaaaaaaaa1:x".to_vec();
        b.extend(std::iter::repeat(b'l').take(depth));
        v.push((format!("lists-in-response/{depth}"), b));
        let mut c = vec![];
        for _ in 0..(depth / 4) {
            c.extend_from_slice(b"d1:a");
        }
        v.push((format!("dictionaries/{}", depth / 4), c));
        let mut d = b"d1:ad2:id20:aaaaaaaaaaaaaaaaaaaa6:target".to_vec();
        d.extend(std::iter::repeat(b'l').take(depth));
        v.push((format!("lists-in-request-argument/{depth}"), d));
    }
    v
}

fn one(idx: usize) -> i32 {
    let all = shapes();
    let (_, bytes) = &all[idx];
    let mut sim = Sim::new(7, NetCfg { lat_min_ms: 1, lat_max_ms: 1, ..Default::default() });
    let n = sim.add_node(NodeOpts::server(public_ip(5), &[]).threaded());
    sim.run_for(300);
    let to = sim.nodes[n].addr;
    sim.inject(SocketAddrV4::new(public_ip(9), 6881), to, bytes.clone(), 1);
    sim.run_for(600);
    let alive = !sim.nodes[n].panicked && sim.snapshot(n).is_some();
    sim.shutdown();
    if alive { 0 } else { 3 }
}

pub fn run(args: &Args) -> i32 {
    if let Some(i) = args.get("one").and_then(|x| x.parse::<usize>().ok()) {
        return one(i);
    }
    let exe = std::env::current_exe().expect("exe");
    let profile = args.str("profile", "release");
    let mut out = Out::create(&args.str("out", "/verif/work/C05/trace-nest.ndjson"));
    let all = shapes();
    for (i, (name, bytes)) in all.iter().enumerate() {
        let st = std::process::Command::new(&exe).args(["nestprobe", "--one", &i.to_string()]).output().expect("spawn");
        use std::os::unix::process::ExitStatusExt;
        let sig = st.status.signal();
        let code = st.status.code();
        let err = String::from_utf8_lossy(&st.stderr);
        let overflow = err.contains("overflowed its stack");
        out.line(&json!({"e":"shape","id":i,"mode":"nest","profile":profile,"label":name,"len":bytes.len(),
            "panic": sig.is_some() || code == Some(3) || code == Some(101), "alive_after": code == Some(0), "call_done": true,
            "signal": sig.unwrap_or(0), "stack_overflow": overflow}));
    }
    out.finish();
    println!("nestprobe driver: shapes={} profile={profile}", all.len());
    0
}
