//! C02 driver: a real node looks a key up while every responder is a Byzantine fake peer whose reply
//! was crafted according to a label (TLC enumerates the label assignments, MC_Auth). Every item the
//! API yields is re-verified with the harness' own SHA-1 / Ed25519 and attributed to the responder
//! that sent it (payloads are unique per responder). Judged by AuthTrace.tla.
use crate::bencode::B;
use crate::calls::{GetKind, Item};
use crate::crypto;
use crate::fakenet::*;
use crate::krpc;
use crate::sim::*;
use crate::util::{Args, Out};
use serde_json::{json, Value};
use std::net::SocketAddrV4;

fn flip(mut v: Vec<u8>, bit: usize) -> Vec<u8> {
    if !v.is_empty() {
        let i = bit % (v.len() * 8);
        v[i / 8] ^= 1 << (i % 8);
    }
    v
}

pub fn run_one(b: u64, kind: &str, labels: &[String], seed: u64) -> Value {
    let mut sim = Sim::new(seed ^ b, NetCfg { lat_min_ms: 5, lat_max_ms: 5, ..Default::default() });
    let n = labels.len();
    // one more peer that never answers lookups: it keeps the lookup in flight after every crafted response has been
    // processed, so that a second caller can join it
    let ids: Vec<[u8; 20]> = (0..n + 1).map(|i| crypto::sha1(&[i as u8, 31])).collect();
    let all: Vec<([u8; 20], SocketAddrV4)> = ids.iter().enumerate().map(|(i, id)| (*id, SocketAddrV4::new(fake_ip(i), 6881))).collect();
    let nodes = krpc::compact_nodes(&all);
    let victim = crypto::keypair(1);
    let other = crypto::keypair(2);
    let pk = victim.verifying_key().to_bytes();
    let opk = other.verifying_key().to_bytes();
    // mutable_binsalt: a salt that is not valid UTF-8 (a hash, a random id); `colliding_salt` is the victim's own item for a salt
    // of the same length that differs only in bytes that are invalid UTF-8 (equal after a lossy text conversion)
    let salt: Option<Vec<u8>> = if kind == "mutable_salt" { Some(b"the salt".to_vec()) } else if kind == "mutable_empty_salt" { Some(vec![]) }
        else if kind == "mutable_binsalt" { Some(b"chan\x81\xfe\x00\xc3".to_vec()) } else { None };
    let imm_value = |i: usize| format!("immutable value #{i}").into_bytes();
    let target: [u8; 20] = match kind {
        "immutable" => crypto::immutable_target(b"the wanted immutable value"),
        "signed_peers" => crypto::sha1(b"wanted infohash"),
        _ => crypto::mutable_target(&pk, salt.as_deref()),
    };
    let labels2: Vec<String> = labels.to_vec();
    let kind2 = kind.to_string();
    // every third run: the Byzantine responders first make the victim believe that ITS public address is the address of
    // responder 0 (address votes are unauthenticated) and "confirm" it with a ping from there (so is the self-ping check)
    let hijack = b % 3 == 1;
    let x_addr = SocketAddrV4::new(fake_ip(0), 6881);
    let nodes2 = nodes.clone();
    let salt2 = salt.clone();
    let policy: Policy = Box::new(move |me, m, w| {
        let q = m.q.clone().unwrap_or_default();
        // kind mutable_via_peers: the lookup on the item's target is a get_peers lookup (the target doubles as a swarm id); its
        // responders answer with get-mutable-shaped responses, and a get_mutable caller JOINS that lookup
        if !(q == "get" || q == "get_signed_peers" || (q == "get_peers" && kind2 == "mutable_via_peers")) {
            if hijack && q == "find_node" {
                // every responder tells the victim that its public address is X, the address of responder 0
                let mut r = B::dict();
                r.set("nodes", B::bytes(&nodes2));
                return Reply::One(krpc::response(&m.tid, &me.id, r, Some(&x_addr)), 5);
            }
            return Reply::Default;
        }
        if me.idx >= labels2.len() {
            return Reply::Silent;
        }
        let lb = labels2[me.idx].as_str();
        let i = me.idx;
        let mval = format!("mutable value from responder {i}").into_bytes();
        let seq = 10 + i as i64;
        let extra: Vec<(&str, B)> = match kind2.as_str() {
            "immutable" => match lb {
                // every responder holds the same authentic bytes (the target fixes them); uniqueness not needed
                "authentic" => vec![("v", B::bytes(b"the wanted immutable value"))],
                "wrong_hash" => vec![("v", B::bytes(imm_value(i)))],
                "bitflip" => vec![("v", B::bytes(flip(b"the wanted immutable value".to_vec(), 7 + i)))],
                "empty" => vec![("v", B::bytes(b""))],
                _ => {
                    let sig = crypto::sign_mutable(&victim, seq, &mval, None);
                    vec![("v", B::bytes(&mval)), ("k", B::bytes(pk)), ("sig", B::bytes(sig)), ("seq", B::Int(seq as i128))]
                }
            },
            "signed_peers" => {
                let h = crypto::sha1(b"wanted infohash");
                let entry = |key: &ed25519_dalek::SigningKey, ih: &[u8; 20], t: u64, good: bool| -> B {
                    let mut sig = crypto::sign(key, &crypto::announce_signable(ih, t)).to_vec();
                    if !good {
                        sig[3] ^= 0x40;
                    }
                    let mut e = key.verifying_key().to_bytes().to_vec();
                    e.extend(t.to_be_bytes());
                    e.extend(sig);
                    B::Bytes(e)
                };
                let t0 = 1_000_000 + 1000 * i as u64;
                let k3 = crypto::keypair(3);
                // the announcer's clock: records genuinely signed at an instant relative to OUR clock (responses carry the
                // announcer's timestamp as is; nothing says it is not ahead of ours)
                let now = dht::verif::unix_micros();
                let l: Vec<B> = match lb {
                    "time_past_1h" => vec![entry(&victim, &h, now - 3_600_000_000, true)],
                    "time_now" => vec![entry(&victim, &h, now, true)],
                    "time_future_1s" => vec![entry(&victim, &h, now + 1_000_000, true)],
                    "time_future_45s" => vec![entry(&victim, &h, now + 45_000_000, true)],
                    "time_future_1h" => vec![entry(&victim, &h, now + 3_600_000_000, true)],
                    "time_zero" => vec![entry(&victim, &h, 0, true)],
                    "time_max" => vec![entry(&victim, &h, u64::MAX, true)],
                    "time_negative" => vec![entry(&victim, &h, (-5i64) as u64, true), entry(&other, &h, i64::MIN as u64, true)],
                    "authentic" => vec![entry(&victim, &h, t0, true), entry(&other, &h, t0 + 1, true)],
                    "all_bad" => vec![entry(&victim, &h, t0, false), entry(&other, &h, t0 + 1, false)],
                    "wrong_infohash" => vec![entry(&victim, &crypto::sha1(b"another infohash"), t0, true)],
                    "mixed_first_bad" => vec![entry(&victim, &h, t0, false), entry(&other, &h, t0 + 1, true), entry(&k3, &h, t0 + 2, true)],
                    "mixed_last_bad" => vec![entry(&victim, &h, t0, true), entry(&other, &h, t0 + 1, true), entry(&k3, &h, t0 + 2, false)],
                    "mixed_middle_bad" => vec![entry(&victim, &h, t0, true), entry(&other, &h, t0 + 1, false), entry(&k3, &h, t0 + 2, true)],
                    // more records than an honest node ever sends (10): all good / one bad behind the tenth / the last one bad
                    "long_authentic" | "long_bad_11" | "long_bad_last" | "long_bad_12_victim" => {
                        let n = 14usize;
                        let bad = match lb {
                            "long_bad_11" => 10,
                            "long_bad_last" => n - 1,
                            "long_bad_12_victim" => 11,
                            _ => usize::MAX,
                        };
                        (0..n)
                            .map(|j| {
                                let key = if lb == "long_bad_12_victim" && j == bad { victim.clone() } else { crypto::keypair(40 + j as u8) };
                                entry(&key, &h, t0 + j as u64, j != bad)
                            })
                            .collect()
                    }
                    _ => {
                        // signature by one key, announced under another key
                        let mut sig = crypto::sign(&other, &crypto::announce_signable(&h, t0)).to_vec();
                        let mut e = pk.to_vec();
                        e.extend(t0.to_be_bytes());
                        e.append(&mut sig);
                        vec![B::Bytes(e)]
                    }
                };
                vec![("peers", B::List(l))]
            }
            _ => {
                let s = salt2.as_deref();
                let good = crypto::sign_mutable(&victim, seq, &mval, s).to_vec();
                if lb == "replay_of_authentic" {
                    // same k, seq and signature as the first authentic responder's item, different value, arriving later
                    let j = labels2.iter().position(|l| l == "authentic").unwrap_or(i);
                    let jval = format!("mutable value from responder {j}").into_bytes();
                    let jseq = 10 + j as i64;
                    let jsig = crypto::sign_mutable(&victim, jseq, &jval, s).to_vec();
                    let forged = format!("forged value replaying responder {j} sent by {i}").into_bytes();
                    let extra = vec![("v", B::bytes(forged)), ("k", B::bytes(pk)), ("sig", B::bytes(jsig)), ("seq", B::Int(jseq as i128))];
                    return Reply::One(lookup_reply(&nodes, me, m, w, &extra, true), 60 + 3 * me.idx as u64);
                }
                let (k, v, sq, sig): (Vec<u8>, Vec<u8>, i64, Vec<u8>) = match lb {
                    "authentic" => (pk.to_vec(), mval.clone(), seq, good),
                    // the key's own, perfectly valid, item published WITHOUT a salt
                    "unsalted" => (pk.to_vec(), mval.clone(), seq, crypto::sign_mutable(&victim, seq, &mval, None).to_vec()),
                    // a perfectly valid item of ANOTHER key
                    "wrong_key" => (opk.to_vec(), mval.clone(), seq, crypto::sign_mutable(&other, seq, &mval, s).to_vec()),
                    // the victim's own item, signed for another salt
                    "other_salt" => (pk.to_vec(), mval.clone(), seq, crypto::sign_mutable(&victim, seq, &mval, Some(b"another salt")).to_vec()),
                    // signed by the victim WITH THE LIBRARY (the victim publishes under both salts with this crate), replayed for the other salt
                    "colliding_salt" => (pk.to_vec(), mval.clone(), seq, dht::MutableItem::new(&victim, &mval, seq, Some(b"chan\x80\xff\x00\xc3")).signature().to_vec()),
                    "bad_sig" => (pk.to_vec(), mval.clone(), seq, flip(good, 100 + i)),
                    "flipped_seq" => (pk.to_vec(), mval.clone(), seq + 1, good),
                    "flipped_v" => (pk.to_vec(), flip(mval.clone(), 9), seq, good),
                    // the victim's key in k, but signed by somebody else
                    "sig_by_other_key" => (pk.to_vec(), mval.clone(), seq, crypto::sign_mutable(&other, seq, &mval, s).to_vec()),
                    "short_key" => (pk[..31].to_vec(), mval.clone(), seq, good),
                    _ => (vec![], vec![], 0, vec![]),
                };
                if lb == "as_immutable" {
                    vec![("v", B::bytes(&mval))]
                } else {
                    vec![("v", B::bytes(v)), ("k", B::bytes(k)), ("sig", B::bytes(sig)), ("seq", B::Int(sq as i128))]
                }
            }
        };
        Reply::One(lookup_reply(&nodes, me, m, w, &extra, true), 5 + 3 * me.idx as u64)
    });
    let net = FakeNet::install(&mut sim, &ids, policy);
    let c = sim.add_node(NodeOpts::client(private_ip(4), &net.bootstrap()));
    sim.run_for(2000);
    if hijack {
        let victim = sim.nodes[c].addr;
        sim.inject(x_addr, victim, krpc::ping(0x7001, &ids[0], false).encode(), 1);
        sim.run_for(100);
    }
    let gk = match kind {
        "immutable" => GetKind::Immutable,
        "signed_peers" => GetKind::SignedPeers,
        _ => GetKind::Mutable { salt: salt.clone(), seq: None },
    };
    let first_kind = if kind == "mutable_via_peers" { GetKind::Peers } else { gk.clone() };
    let mut call = sim.call_get(c, first_kind, target, "get");
    sim.poke(c);
    // a second caller asks for the same thing on the same node while the lookup is still running (every response has
    // been processed by then): it is handed what the lookup has recorded so far and then the rest of the stream
    sim.run_for(100);
    let mut joiner = sim.call_get(c, gk, target, "joiner");
    sim.poke(c);
    let done = sim.run_calls(&mut [&mut call, &mut joiner], 30_000);
    let mut yielded = vec![];
    let joined_items = joiner.items.len();
    for (_, it) in call.items.iter().chain(joiner.items.iter()) {
        match it {
            Item::Immutable(v) => {
                let ok = crypto::immutable_target(v) == target;
                yielded.push(json!({"verified": ok, "from": -1, "label": if ok { "authentic" } else { "forged" }}));
            }
            Item::Mutable { k, seq, v, sig, salt: isalt, target: itarget } => {
                let ok = *k == pk && isalt.as_deref() == salt.as_deref() && *itarget == target && crypto::verify_mutable(&pk, *seq, v, salt.as_deref(), sig);
                let from = String::from_utf8_lossy(v).rsplit(' ').next().and_then(|x| x.parse::<i64>().ok()).unwrap_or(-1);
                let label = if from >= 0 && (from as usize) < labels.len() { labels[from as usize].clone() } else { "unknown".into() };
                yielded.push(json!({"verified": ok, "from": from, "label": label}));
            }
            Item::SignedPeers(list) => {
                for (k, t, sig) in list {
                    let ok = crypto::verify(k, &crypto::announce_signable(&target, *t), sig);
                    let from = t.checked_sub(1_000_000).map(|d| (d / 1000).min(1 << 40) as i64).unwrap_or(-1);
                    // records stamped relative to the reader's clock (labels time_*) are genuine records of the victim
                    let timed = labels.iter().any(|l| l.starts_with("time_")) && (*k == pk || *k == opk);
                    let label = if from >= 0 && (from as usize) < labels.len() { labels[from as usize].clone() } else if timed { "authentic".into() } else { "unknown".into() };
                    yielded.push(json!({"verified": ok, "from": if timed && !(from >= 0 && (from as usize) < labels.len()) { -1 } else { from }, "label": label}));
                }
            }
            Item::Peers(_) => {}
        }
    }
    let n_auth = labels.iter().filter(|l| *l == "authentic" || *l == "long_authentic").count();
    json!({"e":"lookup","b":b,"kind":kind,"hijacked_address":hijack,"labels":labels,"yielded":yielded,"done":done,"panicked":sim.nodes[c].panicked,
        "authentic_responders":n_auth,"items":call.items.len(),"joiner_items":joined_items})
}

pub fn run(args: &Args) -> i32 {
    let seed = args.u64("seed", 1);
    let mut out = Out::create(&args.str("out", "/verif/work/C02/trace.ndjson"));
    let mut b = 0u64;
    let mut samples = vec![];
    let mut nontrivial = 0;
    let stride = args.u64("stride", 1);
    if let Some(path) = args.get("in") {
        for (i, line) in std::fs::read_to_string(path).expect("gen").lines().enumerate() {
            if i as u64 % stride != 0 {
                continue;
            }
            if let Ok(g) = serde_json::from_str::<Value>(line) {
                let labels: Vec<String> = g["labels"].as_array().map(|a| a.iter().map(|x| x.as_str().unwrap_or("").to_string()).collect()).unwrap_or_default();
                let ev = run_one(b, g["kind"].as_str().unwrap_or("immutable"), &labels, seed);
                if labels.iter().any(|l| l != "authentic") {
                    nontrivial += 1;
                }
                if samples.len() < 3 && b % 97 == 11 {
                    samples.push(ev.clone());
                }
                out.line(&ev);
                b += 1;
            }
        }
    }
    // announcers whose clocks are not the reader's: genuinely signed records stamped behind / ahead of it (what is yielded must
    // still verify: key, timestamp and signature as signed)
    if args.get("in").is_some() && args.get("no-times").is_none() {
        for t in ["time_past_1h", "time_now", "time_future_1s", "time_future_45s", "time_future_1h", "time_zero", "time_max", "time_negative"] {
            for pos in 0..2usize {
                let mut labels: Vec<String> = vec!["authentic".to_string(), "bad_sig".to_string(), "authentic".to_string()];
                labels[pos * 2] = t.to_string();
                let ev = run_one(b, "signed_peers", &labels, seed);
                nontrivial += 1;
                out.line(&ev);
                b += 1;
            }
        }
    }
    out.finish();
    if let Some(p) = args.get("summary") {
        crate::util::write_json(p, &json!({"runs": b, "distinct_nontrivial": nontrivial, "samples": samples}));
    }
    println!("auth driver: runs={b}");
    0
}
