//! C19 driver: calls the library's id arithmetic on structured + random inputs and records the
//! observed outputs; TLC (IdMathTrace) recomputes each with the IdMath operators. The thorough tier
//! additionally sweeps the complete BEP42 input space modulo the mask (2^20 masked IPs x 256 r) in
//! Rust against the harness' bitwise CRC32C, which is itself validated against the TLA+ operator
//! through `refcrc` lines.
use crate::crypto;
use crate::rng::Rng;
use crate::util::{id_json, Args, Out};
use dht::Id;
use serde_json::{json, Value};
use std::net::Ipv4Addr;
use std::str::FromStr;

fn arr(b: &[u8]) -> Value {
    id_json(b)
}

fn parse_case(s: &str) -> Value {
    let cps: Vec<u32> = s.chars().map(|c| c as u32).collect();
    let owned = s.to_string();
    let r = std::panic::catch_unwind(move || Id::from_str(&owned));
    match r {
        Err(_) => json!({"op":"parse","s":cps,"panic":true,"ok":false,"bytes":[],"display_roundtrip":false}),
        Ok(Err(_)) => json!({"op":"parse","s":cps,"panic":false,"ok":false,"bytes":[],"display_roundtrip":false}),
        Ok(Ok(id)) => {
            let disp = id.to_string();
            let rt = disp == s.to_lowercase() && Id::from_str(&disp).map(|x| x == id).unwrap_or(false);
            json!({"op":"parse","s":cps,"panic":false,"ok":true,"bytes":arr(id.as_bytes()),"display_roundtrip":rt})
        }
    }
}

pub fn public_ip(rng: &mut Rng) -> Ipv4Addr {
    loop {
        let ip = Ipv4Addr::from(rng.next_u64() as u32);
        if !crypto::ip_exempt(ip) {
            return ip;
        }
    }
}

pub fn run(args: &Args) -> i32 {
    let seed = args.u64("seed", 1);
    let thorough = args.thorough();
    let mut rng = Rng::new(seed);
    let mut out = Out::create(&args.str("out", "/verif/work/C19/trace.ndjson"));
    let mut samples = vec![];
    let mut distinct = 0u64;
    // --- distance: 161 first-differing-bit classes x random fill
    let reps = if thorough { 12 } else { 3 };
    for _ in 0..reps {
        for class in 0..=160u32 {
            let a = rng.id();
            let mut b = a;
            if class < 160 {
                let byte = (class / 8) as usize;
                let bit = 7 - (class % 8);
                b[byte] ^= 1 << bit;
                // random fill below the first differing bit
                let fill = rng.id();
                for i in 0..20 {
                    for k in 0..8 {
                        let pos = i as u32 * 8 + (7 - k);
                        if pos > class && (fill[i] >> k) & 1 == 1 {
                            b[i] ^= 1 << k;
                        }
                    }
                }
            }
            let (ia, ib) = (Id::from(a), Id::from(b));
            let t = rng.id();
            let it = Id::from(t);
            let d1 = std::panic::catch_unwind(|| ia.distance(&ib));
            let d2 = std::panic::catch_unwind(|| ib.distance(&ia));
            if d1.is_err() || d2.is_err() {
                out.line(&json!({"op":"distance","a":arr(&a),"b":arr(&b),"obs":-1,"obs_rev":-1,"panic":true}));
                continue;
            }
            let e = json!({"op":"distance","a":arr(&a),"b":arr(&b),"obs":d1.unwrap_or(0),"obs_rev":d2.unwrap_or(0),"panic":false});
            if samples.len() < 2 {
                samples.push(e.clone());
            }
            out.line(&e);
            let cmp = match ia.xor(&it).cmp(&ib.xor(&it)) {
                std::cmp::Ordering::Less => -1,
                std::cmp::Ordering::Equal => 0,
                std::cmp::Ordering::Greater => 1,
            };
            out.line(&json!({"op":"xorcmp","a":arr(&a),"b":arr(&b),"t":arr(&t),"obs":cmp,
                "da":std::panic::catch_unwind(|| ia.distance(&it)).map(|x| x as i64).unwrap_or(-1),
                "db":std::panic::catch_unwind(|| ib.distance(&it)).map(|x| x as i64).unwrap_or(-1)}));
            distinct += 2;
        }
    }
    // --- exhaustive single-character sweep: a valid 40-digit string with ONE position (first, second, middle, odd, last)
    // replaced by every code point below 0x180 and a few beyond: accepted iff that character is a hex digit
    // (case folding tricks, arithmetic on bytes, table look-ups go wrong for particular characters only)
    {
        let id = rng.id();
        let base: Vec<char> = crate::bencode::hex(&id).chars().collect();
        let extra = [0x212Au32, 0xFF10, 0xFF21, 0xFF41, 0x0660, 0x1D7CE, 0x2080, 0x00B2, 0x0131, 0x017F];
        for pos in [0usize, 1, 20, 21, 39] {
            for cp in (0u32..0x180).chain(extra.iter().cloned()) {
                if let Some(ch) = char::from_u32(cp) {
                    let mut c = base.clone();
                    c[pos] = ch;
                    let s: String = c.into_iter().collect();
                    out.line(&parse_case(&s));
                    distinct += 1;
                }
            }
        }
    }
    // --- affix sweep: 40 valid digits plus ONE extra character (every code point below 0x180, a few beyond, covering 1-, 2-,
    // 3- and 4-byte encodings) in front, in the middle or at the end; and byte-length-40 strings in which a multi-byte
    // character stands for 2, 3 or 4 digits (parsers that count bytes in one place and characters in another)
    {
        let id = rng.id();
        let base: Vec<char> = crate::bencode::hex(&id).chars().collect();
        let extra = [0x212Au32, 0xFF10, 0xFF21, 0x0660, 0x1D7CE, 0x2080, 0x07FF, 0x0800, 0xFFFD, 0x10000, 0x1F600, 0x10FFFF];
        for cp in (0u32..0x180).chain(extra.iter().cloned()) {
            if let Some(ch) = char::from_u32(cp) {
                for pos in [0usize, 1, 20, 39, 40] {
                    let mut c = base.clone();
                    c.insert(pos, ch);
                    out.line(&parse_case(&c.iter().collect::<String>()));
                    distinct += 1;
                }
                // two extra characters at the end; one extra at the end of 39 / 38 / 37 / 36 digits
                let mut c = base.clone();
                c.push(ch);
                c.push(ch);
                out.line(&parse_case(&c.iter().collect::<String>()));
                for keep in [39usize, 38, 37, 36] {
                    let mut c: Vec<char> = base[..keep].to_vec();
                    c.push(ch);
                    out.line(&parse_case(&c.iter().collect::<String>()));
                    let mut c: Vec<char> = vec![ch];
                    c.extend_from_slice(&base[..keep]);
                    out.line(&parse_case(&c.iter().collect::<String>()));
                    distinct += 2;
                }
                distinct += 1;
            }
        }
    }
    // --- hex strings: valid 40-digit strings with <= 2 positions replaced by a character class, length deviations
    let classes: Vec<&str> = vec!["A", "F", "+", "-", " ", "g", "G", "z", "é", "ß", "€", "😀", "0", "x", "\u{0}", "\n"];
    let nparse = if thorough { 6000 } else { 1200 };
    for i in 0..nparse {
        let id = rng.id();
        let mut chars: Vec<String> = crate::bencode::hex(&id).chars().map(|c| c.to_string()).collect();
        if rng.chance(1, 3) {
            for c in chars.iter_mut() {
                if rng.chance(1, 2) {
                    *c = c.to_uppercase();
                }
            }
        }
        let muts = match i % 5 {
            0 => 0,
            1 | 2 => 1,
            _ => 2,
        };
        for _ in 0..muts {
            let pos = rng.below(chars.len() as u64) as usize;
            chars[pos] = rng.pick(&classes).to_string();
        }
        match rng.below(12) {
            0 => {
                chars.pop();
            }
            1 => chars.push("a".into()),
            2 => {
                chars.pop();
                chars.pop();
            }
            3 => {
                chars.push("0".into());
                chars.push("0".into());
            }
            4 => chars.clear(),
            5 => chars.truncate(rng.below(40) as usize),
            _ => {}
        }
        let s: String = chars.concat();
        let e = parse_case(&s);
        if samples.len() < 5 && i % 5 == 3 {
            samples.push(e.clone());
        }
        out.line(&e);
        distinct += 1;
    }
    for len in [0usize, 1, 19, 20, 21, 40] {
        let b = rng.bytes(len);
        let r = std::panic::catch_unwind(|| Id::from_bytes(&b).is_ok());
        out.line(&json!({"op":"frombytes","len":len,"panic":r.is_err(),"ok":r.unwrap_or(false)}));
    }
    // --- BEP42: ip classes x r, valid and corrupted prefixes
    let nvalid = if thorough { 4000 } else { 800 };
    let special = [
        [10u8, 1, 2, 3], [172, 16, 0, 1], [172, 15, 255, 255], [172, 32, 0, 0], [172, 31, 255, 255], [192, 168, 1, 1],
        [192, 167, 1, 1], [192, 169, 0, 0], [169, 254, 1, 1], [169, 253, 1, 1], [127, 0, 0, 1], [126, 255, 255, 255],
        [128, 0, 0, 0], [9, 255, 255, 255], [11, 0, 0, 0], [0, 0, 0, 0], [255, 255, 255, 255], [1, 1, 1, 1],
        [124, 31, 75, 21], [21, 75, 31, 124], [65, 23, 51, 170], [84, 124, 73, 14], [43, 213, 53, 83],
    ];
    for i in 0..nvalid {
        let ip: Ipv4Addr = if i < special.len() * 4 {
            Ipv4Addr::from(special[i % special.len()])
        } else {
            Ipv4Addr::from(rng.next_u64() as u32)
        };
        let mut id = rng.id();
        match i % 4 {
            0 => id = crypto::bep42_id(ip, id),
            1 => {
                id = crypto::bep42_id(ip, id);
                let bit = rng.below(21) as usize;
                id[bit / 8] ^= 0x80 >> (bit % 8);
            }
            2 => {
                id = crypto::bep42_id(ip, id);
                // bits beyond the 21-bit prefix are free
                id[2] ^= 1 << rng.below(3);
                id[3 + rng.below(16) as usize] ^= 0xff;
            }
            _ => {}
        }
        let obs = Id::from(id).is_valid_for_ip(ip);
        let e = json!({"op":"valid","id":arr(&id),"ip":arr(&ip.octets()),"obs":obs});
        if samples.len() < 7 && i == 30 {
            samples.push(e.clone());
        }
        out.line(&e);
        let made = Id::from_ipv4(ip);
        out.line(&json!({"op":"fromip","ip":arr(&ip.octets()),"id":arr(made.as_bytes()),"lib_valid":made.is_valid_for_ip(ip)}));
        let r = rng.below(256) as u8;
        let p = crypto::bep42_prefix(ip, r);
        out.line(&json!({"op":"refcrc","ip":arr(&ip.octets()),"r":r,"prefix":[p[0], p[1], p[2] & 0xf8]}));
        distinct += 3;
    }
    // --- twins: an exempt address (private / loopback / link-local) and public addresses that agree with it on every bit the
    // BEP42 mask keeps (0x030f3fff), judged alternately with ids that share r - whatever was learned for one address (a cache,
    // a memo, a table keyed by the masked input) must not carry over to the other; both orders, both verdicts
    for i in 0..(if thorough { 4000 } else { 400 }) {
        let exempt = match i % 4 {
            0 => Ipv4Addr::new(10, rng.below(256) as u8, rng.below(256) as u8, rng.below(256) as u8),
            1 => Ipv4Addr::new(127, rng.below(256) as u8, rng.below(256) as u8, rng.below(256) as u8),
            2 => Ipv4Addr::new(192, 168, rng.below(256) as u8, rng.below(256) as u8),
            _ => Ipv4Addr::new(169, 254, rng.below(256) as u8, rng.below(256) as u8),
        };
        let e = u32::from(exempt);
        // a public twin: same masked bits, other free bits
        let mut twin = Ipv4Addr::from((e & 0x030f_3fff) | (rng.below(1 << 32) as u32 & !0x030f_3fff));
        while crypto::ip_exempt(twin) {
            twin = Ipv4Addr::from((e & 0x030f_3fff) | (rng.below(1 << 32) as u32 & !0x030f_3fff));
        }
        let r = rng.below(8) as u8;
        let mk = |rng: &mut Rng, ip: Ipv4Addr, good: bool| {
            let mut fill = rng.id();
            fill[19] = (fill[19] & 0xf8) | r;
            let mut id = crypto::bep42_id(ip, fill);
            if !good {
                let bit = rng.below(21) as usize;
                id[bit / 8] ^= 0x80 >> (bit % 8);
            }
            id
        };
        let order: [(Ipv4Addr, bool); 4] = if i % 2 == 0 { [(exempt, false), (twin, false), (twin, true), (exempt, true)] } else { [(twin, true), (exempt, false), (twin, false), (exempt, false)] };
        for (ip, good) in order {
            // ids are made for the TWIN (for the exempt address every id is valid anyway)
            let id = mk(&mut rng, twin, good);
            let obs = Id::from(id).is_valid_for_ip(ip);
            out.line(&json!({"op":"valid","id":arr(&id),"ip":arr(&ip.octets()),"obs":obs}));
            distinct += 1;
        }
    }
    let lines = out.lines;
    out.finish();
    // --- exhaustive sweep of the masked BEP42 space against the (TLA-validated) harness reference
    let mut sweep_cases = 0u64;
    let mut sweep_bad: Vec<Value> = vec![];
    if thorough || args.get("sweep").is_some() {
        let threads = 16u32;
        let handles: Vec<_> = (0..threads)
            .map(|t| {
                std::thread::spawn(move || {
                    let mut bad = vec![];
                    let mut n = 0u64;
                    // masked ip space: 2 + 4 + 6 + 8 = 20 bits
                    for m in (t..(1u32 << 20)).step_by(threads as usize) {
                        let ipn = ((m >> 18) & 0x3) << 24 | ((m >> 14) & 0xf) << 16 | ((m >> 8) & 0x3f) << 8 | (m & 0xff);
                        // put the address into a public range without touching masked bits
                        let ip = Ipv4Addr::from(ipn | 0x2c00_0000);
                        if crypto::ip_exempt(ip) {
                            continue;
                        }
                        for r in 0..=255u8 {
                            let mut fill = [0x5au8; 20];
                            fill[19] = r;
                            let good = crypto::bep42_id(ip, fill);
                            let mut wrong = good;
                            wrong[(m % 2) as usize] ^= 0x10;
                            n += 2;
                            if !Id::from(good).is_valid_for_ip(ip) || Id::from(wrong).is_valid_for_ip(ip) {
                                if bad.len() < 5 {
                                    bad.push(json!({"ip": ip.to_string(), "r": r}));
                                }
                            }
                        }
                    }
                    (n, bad)
                })
            })
            .collect();
        for h in handles {
            let (n, bad) = h.join().expect("sweep thread");
            sweep_cases += n;
            sweep_bad.extend(bad);
        }
    }
    let summary = json!({"lines": lines, "distinct": distinct, "samples": samples,
        "sweep_cases": sweep_cases, "sweep_disagreements": sweep_bad});
    if let Some(p) = args.get("summary") {
        crate::util::write_json(p, &summary);
    }
    println!("idmath driver: lines={lines} sweep_cases={sweep_cases} sweep_bad={}", sweep_bad.len());
    0
}

/// Re-run one recorded event on the current tree and print the fresh observation (for --replay).
pub fn run_one(args: &Args) -> i32 {
    let ev: Value = serde_json::from_str(&args.str("event", "{}")).unwrap_or(json!({}));
    let bytes = |v: &Value| -> Vec<u8> { v.as_array().map(|a| a.iter().map(|x| x.as_u64().unwrap_or(0) as u8).collect()).unwrap_or_default() };
    let id20 = |v: &Value| -> [u8; 20] { let b = bytes(v); let mut a = [0u8; 20]; if b.len() == 20 { a.copy_from_slice(&b); } a };
    let out = match ev["op"].as_str().unwrap_or("") {
        "parse" => {
            let s: String = ev["s"].as_array().map(|a| a.iter().filter_map(|c| char::from_u32(c.as_u64().unwrap_or(63) as u32)).collect()).unwrap_or_default();
            parse_case(&s)
        }
        "distance" => {
            let (a, b) = (id20(&ev["a"]), id20(&ev["b"]));
            json!({"op":"distance","a":ev["a"],"b":ev["b"],"obs":Id::from(a).distance(&Id::from(b)),"obs_rev":Id::from(b).distance(&Id::from(a))})
        }
        "valid" => {
            let id = id20(&ev["id"]);
            let ip = bytes(&ev["ip"]);
            let ip = Ipv4Addr::new(ip[0], ip[1], ip[2], ip[3]);
            json!({"op":"valid","id":ev["id"],"ip":ev["ip"],"obs":Id::from(id).is_valid_for_ip(ip)})
        }
        _ => ev.clone(),
    };
    println!("{}", out);
    0
}
