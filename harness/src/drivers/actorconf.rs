//! Tick-level L2 conformance driver for Actor.tla (ActorTickTrace.tla): one real inline client node among four fake
//! peers p1..p4 and three targets - A (a mutable item; p1 closest), B (an immutable value; p4 closest) and S (the node's
//! own id, set through the cfg-gated hook so that p1 is closest to it as well). Plans come from TLC (ActorPlans.tla):
//! one to three API calls out of a universe of conflicting / superseding / identical mutable puts, gets, find_node and
//! immutable puts, with gaps, value holders, write-answer patterns and one optional fault; long plans run for 21 / 36
//! virtual minutes with silent peers so that ping rounds, stale eviction, refresh lookups and the adaptive switch are
//! stepped. Every API call and every Actor::tick becomes one trace line: the input, the virtual time, the requests that
//! have expired by then (from the harness' own wire log), and the projection of the node's state afterwards.
use crate::bencode::B;
use crate::calls::{Call, GetKind, Item};
use crate::crypto;
use crate::fakenet::*;
use crate::krpc;
use crate::sim::*;
use crate::util::{Args, Out};
use dht::verif as v;
use dht::{Id, MutableItem, PutRequestSpecific};
use serde_json::{json, Value};
use std::cell::RefCell;
use std::collections::HashMap;
use std::net::SocketAddrV4;
use std::rc::Rc;

const NAMES: [&str; 4] = ["p1", "p2", "p3", "p4"];
const ALL_CALLS: [&str; 14] = ["putA1", "putA1b", "putA2", "putA2c", "putA0", "putA2x", "putA0c", "getA1", "getA2", "fnA", "putB", "putB2", "getB", "fnB"];
const TARGETS: [&str; 3] = ["A", "B", "S"];

/// TKnows of ActorTickTrace.tla (indices 0..3 = p1..p4)
fn knows(i: usize, t: &str) -> Vec<usize> {
    match t {
        "A" => match i {
            3 => vec![2, 3],
            2 => vec![1, 2],
            _ => vec![0, 1],
        },
        "B" => match i {
            3 => vec![0, 3],
            0 => vec![0, 1],
            1 => vec![1, 2],
            _ => vec![2],
        },
        _ => vec![3],
    }
}

/// sig id -> (seq, cas, value)
fn item_of(sig: i64) -> (i64, Option<i64>, Vec<u8>) {
    let (seq, cas) = match sig {
        1 => (1, None),
        2 => (2, None),
        3 => (2, Some(1)),
        4 => (0, None),
        5 => (2, Some(0)),
        _ => (0, Some(1)),
    };
    (seq, cas, format!("actor value {sig}").into_bytes())
}
fn sig_of(seq: i64, value: &[u8]) -> i64 {
    (1..=6).find(|s| item_of(*s).0 == seq && item_of(*s).2 == value).unwrap_or(-1)
}
fn call_sig(name: &str) -> i64 {
    match name {
        "putA1" | "putA1b" => 1,
        "putA2" => 2,
        "putA2c" => 3,
        "putA0" => 4,
        "putA2x" => 5,
        "putA0c" => 6,
        _ => 100,
    }
}

fn bit(a: &[u8; 20], i: usize) -> bool {
    a[i / 8] & (0x80u8 >> (i % 8)) != 0
}

pub fn run_plan(b: u64, plan: &Value, seed: u64, out: &mut Out) -> (u64, bool) {
    // target A = SHA1(public key): any key will do; peers are built around A
    let sk = crypto::keypair(21);
    let pk = sk.verifying_key().to_bytes();
    let target_a = crypto::mutable_target(&pk, None);
    // target B: an immutable value whose hash makes p4 the closest and p1 the farthest peer (bits 16, 24, 32 of A xor B set)
    let mut val_b = b"actor conformance value B #0".to_vec();
    let mut target_b = crypto::immutable_target(&val_b);
    for n in 0..100_000u32 {
        val_b = format!("actor conformance value B #{n}").into_bytes();
        target_b = crypto::immutable_target(&val_b);
        // (bit 8 as well: the ghost node - A with bit 8 flipped - is then the closest of all to B)
        if [8usize, 16, 24, 32].iter().all(|&i| bit(&target_a, i) != bit(&target_b, i)) {
            break;
        }
    }
    // the node's own id: A with bit 60 flipped (every peer differs from it where it differs from A: p1 closest)
    let mut self_id = target_a;
    self_id[7] ^= 0x08;
    // p_i shares 40 - 8*i leading bits with A and differs at the next one
    let ids: Vec<[u8; 20]> = (0..4)
        .map(|i| {
            let p = 40 - 8 * i;
            let mut id = crypto::sha1(&[i as u8, 0x72]);
            for bitn in 0..p {
                let (by, m) = (bitn / 8, 0x80u8 >> (bitn % 8));
                id[by] = (id[by] & !m) | (target_a[by] & m);
            }
            let (by, m) = (p / 8, 0x80u8 >> (p % 8));
            id[by] = (id[by] & !m) | (!target_a[by] & m);
            id
        })
        .collect();
    // the ghost: a node id far from A (differs at bit 8) at an address with port 0; listed by every peer in `ghost` plans
    let ghost = plan["ghost"].as_bool().unwrap_or(false);
    let mut ghost_id = target_a;
    ghost_id[1] ^= 0x80;
    ghost_id[19] ^= 0x55;
    let ghost_addr = SocketAddrV4::new(fake_ip(99), 0);
    let long = plan["long"].as_u64().unwrap_or(0);
    let cadence = if long > 0 { 2000 } else { 250 };
    let mut sim = Sim::new(seed ^ b, NetCfg { lat_min_ms: 10, lat_max_ms: 10, cadence_ms: cadence, ..Default::default() });
    sim.record = true;
    let all: Vec<([u8; 20], SocketAddrV4)> = ids.iter().enumerate().map(|(i, id)| (*id, SocketAddrV4::new(fake_ip(i), 6881))).collect();
    let hold_a = plan["hold"]["a"].as_u64().unwrap_or(0);
    let hold_b = plan["hold"]["b"].as_bool().unwrap_or(false);
    let store = plan["store"].as_str().unwrap_or("ack").to_string();
    let fkind = plan["fault"]["kind"].as_str().unwrap_or("none").to_string();
    let fidx = plan["fault"]["i"].as_u64().unwrap_or(0) as usize;
    let silent: Vec<usize> = plan["silent"].as_array().map(|a| a.iter().filter_map(|x| NAMES.iter().position(|n| Some(*n) == x.as_str())).collect()).unwrap_or_default();
    let armed = Rc::new(RefCell::new(false));
    let counter = Rc::new(RefCell::new(0usize));
    let (armed2, counter2, all2, val_b2, sk2) = (armed.clone(), counter.clone(), all.clone(), val_b.clone(), sk.clone());
    let policy: Policy = Box::new(move |me, m, w| {
        let is_armed = *armed2.borrow();
        if is_armed && silent.contains(&me.idx) {
            return Reply::Silent;
        }
        let q = m.q.clone().unwrap_or_default();
        let t = match m.target() {
            Some(x) if x == target_a => "A",
            Some(x) if x == target_b => "B",
            _ => "S",
        };
        let mut listed: Vec<([u8; 20], SocketAddrV4)> = knows(me.idx, t).into_iter().map(|i| all2[i]).collect();
        if ghost {
            listed.push((ghost_id, ghost_addr));
        }
        let nodes = krpc::compact_nodes(&listed);
        let mutable_fields = |sig: i64| -> Vec<(&'static str, B)> {
            let (seq, _, val) = item_of(sig);
            let s = crypto::sign_mutable(&sk2, seq, &val, None);
            vec![("v", B::bytes(&val)), ("k", B::bytes(&pk[..])), ("seq", B::Int(seq as i128)), ("sig", B::bytes(&s[..]))]
        };
        let mut base: B = match q.as_str() {
            "find_node" => lookup_reply(&nodes, me, m, w, &[], false),
            "get" if t == "A" && hold_a == 1 && me.idx == 0 => lookup_reply(&nodes, me, m, w, &mutable_fields(1), true),
            "get" if t == "A" && hold_a == 2 && me.idx == 1 => lookup_reply(&nodes, me, m, w, &mutable_fields(2), true),
            "get" if t == "B" && hold_b && me.idx == 3 => lookup_reply(&nodes, me, m, w, &[("v", B::bytes(&val_b2))], true),
            "get" | "get_peers" | "get_signed_peers" => lookup_reply(&nodes, me, m, w, &[], true),
            "put" => {
                let code: i64 = match (store.as_str(), me.idx) {
                    // per-target patterns: the writes of one target are refused, those of the other acknowledged
                    ("errA_ackB", _) => if t == "A" { 203 } else { 0 },
                    ("ackA_errB", _) => if t == "B" { 203 } else { 0 },
                    ("e301A_ackB", _) => if t == "A" { 301 } else { 0 },
                    ("e301_p1", 0) => 301,
                    ("maj301", 0) | ("maj301", 1) | ("maj301", 2) => 301,
                    ("all302", _) => 302,
                    ("all203", _) => 203,
                    ("drop_p1", 0) => -1,
                    ("mixed", 0) => 301,
                    ("mixed", 1) => 302,
                    ("mixed", 2) => 203,
                    ("ack1_301rest", i) if i > 0 => 301,
                    _ => 0,
                };
                if code < 0 {
                    return Reply::Silent;
                } else if code > 0 {
                    krpc::error(&m.tid, code, &krpc::error_text(code, me.idx))
                } else {
                    krpc::response(&m.tid, &me.id, B::dict(), Some(&w.from))
                }
            }
            _ => krpc::response(&m.tid, &me.id, B::dict(), Some(&w.from)),
        };
        // no version: the responders stay out of the signed-peers table (one routing table to mirror)
        base.remove("v");
        if !is_armed {
            return Reply::One(base, 10);
        }
        let i = *counter2.borrow();
        *counter2.borrow_mut() += 1;
        // two late replies in a row: the first one (dropped, as it should be) still leaves its mark on the round-trip estimate
        // a slow link to the storing peers: the write is answered (acknowledged) 560 / 800 ms after it was sent
        if q == "put" && (store == "slow560" || store == "slow800") && !(fkind != "none" && (i == fidx || (fkind == "late2" && i == fidx + 1))) {
            return Reply::One(base, if store == "slow560" { 560 } else { 800 });
        }
        if fkind == "late2" && (i == fidx || i == fidx + 1) {
            return Reply::One(base, if i == fidx { 620 } else { 1250 });
        }
        if i == fidx {
            match fkind.as_str() {
                "drop" => return Reply::Silent,
                "dup" => return Reply::Many(vec![(10, base.clone()), (45, base)]),
                "late" => return Reply::One(base, 900),
                "err" => {
                    let mut e = krpc::error(&m.tid, 203, "seeded error");
                    e.remove("v");
                    return Reply::One(e, 10);
                }
                _ => {}
            }
        }
        Reply::One(base, 10)
    });
    let net = FakeNet::install(&mut sim, &ids, policy);
    let c = sim.add_node(NodeOpts::client(private_ip(2), &[net.bootstrap()[3].clone()]));
    sim.actor(c).verif_set_id(Id::from(self_id));
    sim.run_for(3000);
    *armed.borrow_mut() = true;
    let caddr = sim.nodes[c].addr;
    let start_ns = sim.start_ns;
    let ms_of = move |t_ns: u64| (t_ns - start_ns) / MS;
    let mut name_of: HashMap<String, &str> = all.iter().enumerate().map(|(i, (_, a))| (a.to_string(), NAMES[i])).collect();
    name_of.insert(ghost_addr.to_string(), "g0");
    let nm = |a: &str| -> String { name_of.get(a).map(|s| s.to_string()).unwrap_or_else(|| a.to_string()) };
    let hex_of: HashMap<&str, String> = [("A", Id::from(target_a).to_string()), ("B", Id::from(target_b).to_string()), ("S", Id::from(self_id).to_string())].into_iter().collect();
    let snap0 = match sim.snapshot(c) {
        Some(s) => s,
        None => return (0, false),
    };
    let now0 = sim.now_ns();
    let base_tid = snap0.inflight.next_tid;
    let rt0: Vec<String> = snap0.routing_table.nodes.iter().map(|x| nm(&x.addr)).collect();
    let mut rt_seen0 = serde_json::Map::new();
    for x in &snap0.routing_table.nodes {
        rt_seen0.insert(nm(&x.addr), json!(ms_of(now0 - x.age_ns)));
    }
    let infl0: Vec<Value> = snap0.inflight.entries.iter().map(|(t, a, _)| json!([t, nm(a)])).collect();
    let mut cache0 = serde_json::Map::new();
    for t in TARGETS {
        let e = snap0.cache.iter().find(|e| e.target == hex_of[t]);
        cache0.insert(t.to_string(), json!({"on": e.is_some(), "kind": e.map(|e| if e.find_node { "fn" } else { "get" }).unwrap_or("none"),
            "nodes": e.map(|e| e.node_addrs.iter().map(|a| nm(a)).collect::<Vec<_>>()).unwrap_or_default()}));
    }
    out.line(&json!({"e":"reset","b":b,"tid_base":base_tid,"plan":plan,"rt0":rt0,"rt_seen0":Value::Object(rt_seen0),"infl0":infl0,"cap0":snap0.inflight.capacity,
        "cache0":Value::Object(cache0),"last_refresh":ms_of(now0 - snap0.last_table_refresh_age_ns),"last_ping":ms_of(now0 - snap0.last_table_ping_age_ns),
        "server":snap0.server_mode,"firewalled":snap0.firewalled,"t_ms":ms_of(now0),"ghost":ghost}));
    let mut lines = 1u64;
    let call_names: Vec<String> = plan["calls"].as_array().map(|a| a.iter().map(|x| x.as_str().unwrap_or("getA1").to_string()).collect()).unwrap_or_default();
    let gaps: Vec<u64> = plan["gaps"].as_array().map(|a| a.iter().map(|x| x.as_u64().unwrap_or(0)).collect()).unwrap_or_default();
    let first_at = if long > 0 { 120_000 } else { 0 };
    let mut at = vec![first_at; call_names.len()];
    for i in 1..call_names.len() {
        at[i] = at[i - 1] + gaps.get(i - 1).cloned().unwrap_or(0);
    }
    let t0 = sim.now_ns();
    let mut calls: Vec<Option<Call>> = call_names.iter().map(|_| None).collect();
    let mut called: Vec<String> = vec![];
    let mut log_pos = 0;
    let mut reqs: HashMap<u32, (SocketAddrV4, String, u64)> = HashMap::new();
    let mut prev_live_empty = true;
    let mut drifted = false;
    sim.tick_trace = Some(c);
    sim.tick_log.clear();
    let end_ns = if long > 0 { t0 + long * 60_000 * MS } else { t0 + (at.last().cloned().unwrap_or(0) + 6000) * MS };

    let pre_timeout = std::cell::Cell::new(500 * MS);
    let abandon: Vec<String> = plan["abandon"].as_array().map(|a| a.iter().filter_map(|x| x.as_str().map(|s| s.to_string())).collect()).unwrap_or_default();
    let reused: std::cell::RefCell<Vec<u32>> = std::cell::RefCell::new(vec![]);
    let mut emit = |sim: &mut Sim, calls: &mut Vec<Option<Call>>, called: &Vec<String>, reqs: &mut HashMap<u32, (SocketAddrV4, String, u64)>, log_pos: &mut usize,
                    step: Value, prev_live_empty: &mut bool, out: &mut Out| {
        while *log_pos < sim.log.len() {
            let r = &sim.log[*log_pos];
            if r.from == caddr {
                if let Some(m) = &r.msg {
                    if m.is_request() {
                        if let Some(t) = m.tid_u32() {
                            // a (transaction id, address) pair identifies ONE request of a behaviour
                            if reqs.get(&t).map(|old| old.0 == r.to && old.2 != r.sent_ns).unwrap_or(false) {
                                reused.borrow_mut().push(t);
                            }
                            reqs.insert(t, (r.to, m.q.clone().unwrap_or_default(), r.sent_ns));
                        }
                    }
                }
            }
            *log_pos += 1;
        }
        let now = sim.now_ns();
        for call in calls.iter_mut().flatten() {
            call.poll(now);
        }
        let s = match sim.snapshot(c) {
            Some(s) => s,
            None => {
                out.line(&json!({"e":"dead","b":b,"panicked":sim.nodes[c].panicked,"panic":crate::util::last_panic().chars().take(200).collect::<String>()}));
                return;
            }
        };
        let timeout = s.inflight.timeout_ns;
        let live: Vec<u32> = s.inflight.entries.iter().filter(|(_, _, age)| *age < timeout).map(|(t, _, _)| *t).collect();
        let mut done = serde_json::Map::new();
        let mut got = serde_json::Map::new();
        let mut outcomes = serde_json::Map::new();
        for n in ALL_CALLS {
            outcomes.insert(n.to_string(), json!(0));
        }
        for (i, name) in call_names.iter().enumerate() {
            if abandon.contains(name) && calls[i].is_some() {
                // the caller has dropped its receiver: nothing of this call can be observed any more
                done.insert(name.clone(), json!("abandoned"));
                got.insert(name.clone(), json!([]));
                continue;
            }
            if let Some(call) = &calls[i] {
                let d = match call.outcome() {
                    None => "pending".to_string(),
                    Some(o) => {
                        let n = o.name();
                        if n == "Dropped" && !name.starts_with("get") {
                            "dropped".into()
                        } else if name.starts_with("put") {
                            n
                        } else {
                            "end".into()
                        }
                    }
                };
                done.insert(name.clone(), json!(d));
                outcomes.insert(name.clone(), json!(call.outcomes.len()));
                let items: Vec<i64> = call
                    .items
                    .iter()
                    .map(|(_, it)| match it {
                        Item::Mutable { seq, v, .. } => sig_of(*seq, v),
                        Item::Immutable(_) => 100,
                        _ => -2,
                    })
                    .collect();
                got.insert(name.clone(), json!(items));
            }
        }
        let waiting = |v: &Vec<(String, usize)>, hex: &str| v.iter().filter(|(t, _)| t == hex).map(|(_, n)| *n).sum::<usize>();
        let mut per_t = serde_json::Map::new();
        for t in TARGETS {
            let hex = &hex_of[t];
            let q = s.queries.iter().find(|q| &q.target == hex);
            let p = s.puts.iter().find(|p| &p.target == hex);
            let cache = s.cache.iter().find(|e| &e.target == hex);
            let vals: Vec<i64> = q
                .map(|q| {
                    q.response_items
                        .iter()
                        .map(|r| {
                            let parts: Vec<&str> = r.split(':').collect();
                            match parts[0] {
                                "m" => sig_of(parts[1].parse().unwrap_or(-99), &crate::bencode::unhex(parts[2])),
                                "i" => 100,
                                _ => -2,
                            }
                        })
                        .collect()
                })
                .unwrap_or_default();
            let p_sig: i64 = p.map(|p| match &p.item { Some((seq, _, val)) => sig_of(*seq, val), None => 100 }).unwrap_or(0);
            per_t.insert(t.to_string(), json!({
                "q_on": q.is_some(),
                "q_kind": q.map(|q| if q.kind == "find_node" { "fn" } else { "get" }).unwrap_or("none"),
                "cand": q.map(|q| q.candidates.iter().map(|(_, a)| nm(a)).collect::<Vec<_>>()).unwrap_or_default(),
                "vis": q.map(|q| q.visited.iter().map(|a| nm(a)).collect::<Vec<_>>()).unwrap_or_default(),
                "resp": q.map(|q| q.responders.iter().map(|(_, a)| nm(a)).collect::<Vec<_>>()).unwrap_or_default(),
                "q_tids": q.map(|q| q.tids.clone()).unwrap_or_default(),
                "vals": vals,
                "p_on": p.is_some(), "p_sig": p_sig,
                "p_tids": p.map(|p| p.tids.clone()).unwrap_or_default(),
                "acks": p.map(|p| p.stored_at).unwrap_or(0),
                "errs": p.map(|p| p.errors.iter().map(|(n, code)| json!([n, code])).collect::<Vec<_>>()).unwrap_or_default(),
                "cache_on": cache.is_some(),
                "cache_kind": cache.map(|e| if e.find_node { "fn" } else { "get" }).unwrap_or("none"),
                "cache_nodes": cache.map(|e| e.node_addrs.iter().map(|a| nm(a)).collect::<Vec<_>>()).unwrap_or_default(),
                "waiting_get": waiting(&s.get_senders, hex), "waiting_put": waiting(&s.put_senders, hex),
            }));
        }
        let mut rt_seen = serde_json::Map::new();
        for x in &s.routing_table.nodes {
            rt_seen.insert(nm(&x.addr), json!(ms_of(now - x.age_ns)));
        }
        let proj = json!({
            "t": Value::Object(per_t),
            "live": live,
            "present": s.inflight.entries.iter().map(|(t, _, _)| *t).collect::<Vec<u32>>(), "cap": s.inflight.capacity,
            "next_tid": s.inflight.next_tid,
            "rt": s.routing_table.nodes.iter().map(|x| nm(&x.addr)).collect::<Vec<_>>(), "rt_seen": Value::Object(rt_seen),
            "last_refresh": ms_of(now - s.last_table_refresh_age_ns), "last_ping": ms_of(now - s.last_table_ping_age_ns), "server": s.server_mode,
            "called": called, "done": Value::Object(done), "got": Value::Object(got),
        });
        // expiry is judged with the request timeout in force: for the request the incoming message answers, the timeout BEFORE
        // this tick (the sample this very message contributes to the round-trip estimate must not decide about its own
        // acceptance); for every other request the timeout after it (what the liveness checks at the end of the tick used)
        let pre = pre_timeout.get();
        pre_timeout.set(timeout);
        let in_tid: Option<u32> = step["input"]["tid"].as_i64().filter(|t| *t >= 0).map(|t| t as u32);
        let expired: Vec<u32> = reqs.iter().filter(|(t, (_, _, sent))| now - *sent >= if Some(**t) == in_tid { pre } else { timeout }).map(|(t, _)| *t).collect();
        let mut line = step;
        line["b"] = json!(b);
        line["t_ms"] = json!(ms_of(now));
        line["expired"] = json!(expired);
        line["tid_reused"] = json!(reused.borrow().clone());
        line["abandoned"] = json!(abandon.clone());
        line["proj"] = proj;
        line["outcomes"] = Value::Object(outcomes);
        line["quiet"] = json!(*prev_live_empty && line["e"] == "tick" && line["input"]["dir"] == "timeout");
        line["timeout_ms"] = json!(timeout / MS);
        line["panicked"] = json!(sim.nodes[c].panicked);
        if line.get("last").is_none() {
            line["last"] = json!(false);
        }
        *prev_live_empty = line["proj"]["live"].as_array().map(|a| a.is_empty()).unwrap_or(true);
        out.line(&line);
    };

    loop {
        let now = sim.now_ns();
        for i in 0..call_names.len() {
            if calls[i].is_none() && now >= t0 + at[i] * MS {
                let name = call_names[i].clone();
                let tname = if ["putB", "putB2", "getB", "fnB"].contains(&name.as_str()) { "B" } else { "A" };
                let target = if tname == "B" { target_b } else { target_a };
                // what was in flight for the target just before the call (for the C17 table)
                let pre = sim.snapshot(c).map(|s| {
                    let p = s.puts.iter().find(|p| p.target == hex_of[tname]).cloned();
                    json!({"p_on": p.is_some(), "p_sig": p.map(|p| match &p.item { Some((seq, _, val)) => sig_of(*seq, val), None => 100 }).unwrap_or(0)})
                }).unwrap_or(json!({"p_on": false, "p_sig": 0}));
                let call = if name.starts_with("fn") {
                    sim.call_get(c, GetKind::FindNode, target, &name)
                } else if name == "getB" {
                    sim.call_get(c, GetKind::Immutable, target, &name)
                } else if name.starts_with("get") {
                    sim.call_get(c, GetKind::Mutable { salt: None, seq: None }, target, &name)
                } else if name.starts_with("putB") {
                    sim.call_put(c, PutRequestSpecific::PutImmutable(v::PutImmutableRequestArguments { target: Id::from(target_b), v: val_b.clone().into() }), None, &name)
                } else {
                    let (seq, cas, val) = item_of(call_sig(&name));
                    let item = MutableItem::new(&sk, &val, seq, None);
                    sim.call_put(c, PutRequestSpecific::PutMutable(v::PutMutableRequestArguments::from(item, cas)), None, &name)
                };
                let mut call = call;
                if abandon.contains(&name) {
                    call.abandon();
                }
                calls[i] = Some(call);
                called.push(name.clone());
                sim.flush();
                emit(&mut sim, &mut calls, &called, &mut reqs, &mut log_pos, json!({"e":"api","call":name,"pre":pre}), &mut prev_live_empty, out);
                lines += 1;
            }
        }
        if now >= end_ns || !sim.nodes[c].alive {
            break;
        }
        let next_call = (0..call_names.len()).filter(|&i| calls[i].is_none()).map(|i| t0 + at[i] * MS).min();
        let limit = next_call.map(|t| t.min(end_ns)).unwrap_or(end_ns);
        let before = sim.tick_log.len();
        sim.step(limit);
        if sim.tick_log.len() > before {
            let rec = sim.tick_log[before].clone();
            let none = json!({"dir":"timeout","tid":-1,"peer":"none","kind":"none","val":0,"code":0});
            let input = match &rec.input {
                None => none.clone(),
                Some((bytes, from)) => match krpc::Msg::parse(bytes) {
                    Some(m) if !m.is_request() => {
                        let tid = m.tid_u32().map(|t| t as i64).unwrap_or(-1);
                        let rq = m.tid_u32().and_then(|t| reqs.get(&t)).cloned();
                        let mut val = 0i64;
                        let kind = if m.is_error() {
                            "e"
                        } else {
                            match rq.as_ref().map(|r| r.1.as_str()) {
                                Some("find_node") => "nodes",
                                Some("get") => {
                                    if let Some(vb) = m.arg_bytes("v") {
                                        val = match m.arg_int("seq") {
                                            Some(seq) => sig_of(seq as i64, vb),
                                            None => 100,
                                        };
                                        "val"
                                    } else {
                                        "tok"
                                    }
                                }
                                Some("put") => "ack",
                                Some("ping") => "pong",
                                _ => "nodes",
                            }
                        };
                        json!({"dir":"resp","tid":tid,"peer":nm(&from.to_string()),"kind":kind,"val":val,"code":m.error_code().unwrap_or(0) as i64})
                    }
                    _ => none.clone(),
                },
            };
            emit(&mut sim, &mut calls, &called, &mut reqs, &mut log_pos, json!({"e":"tick","input":input}), &mut prev_live_empty, out);
            lines += 1;
        }
        if sim.nodes[c].panicked {
            drifted = true;
        }
    }
    if sim.nodes[c].alive {
        sim.poke(c);
        emit(&mut sim, &mut calls, &called, &mut reqs, &mut log_pos,
             json!({"e":"tick","last":true,"input":{"dir":"timeout","tid":-1,"peer":"none","kind":"none","val":0,"code":0}}), &mut prev_live_empty, out);
        lines += 1;
    }
    sim.tick_trace = None;
    sim.shutdown();
    (lines, drifted)
}

pub fn run(args: &Args) -> i32 {
    let seed = args.u64("seed", 1);
    let mut out = Out::create(&args.str("out", "/verif/work/C06/trace-actor.ndjson"));
    let permille = args.u64("sample-permille", 1000);
    let long_permille = args.u64("long-permille", 1000);
    let silent_permille = args.u64("silent-permille", 1000);
    let class_only = args.str("class", "");
    let only = args.get("only").and_then(|x| x.parse::<u64>().ok());
    let mut rng = crate::rng::Rng::new(seed ^ 0xAC7);
    let mut plans: Vec<Value> = vec![];
    if let Some(p) = args.get("in") {
        for line in std::fs::read_to_string(p).unwrap_or_default().lines() {
            if let Ok(v) = serde_json::from_str::<Value>(line) {
                match v {
                    Value::Array(a) => plans.extend(a),
                    o => plans.push(o),
                }
            }
        }
    }
    if plans.is_empty() {
        plans.push(json!({"calls":["putA1","putA2c"],"gaps":[30],"hold":{"a":0,"b":false},"store":"ack","fault":{"kind":"none","i":0},"long":0}));
    }
    plans.sort_by_key(|p| p.to_string());
    let mut b = 0u64;
    let mut runs = 0u64;
    let mut lines = 0u64;
    for plan in &plans {
        let has_silent = plan["silent"].as_array().map(|a| !a.is_empty()).unwrap_or(false);
        let cross = plan["store"].as_str().map(|s| s.contains("A_")).unwrap_or(false) || plan["ghost"].as_bool().unwrap_or(false);
        // long plans with a second call minutes after the first (token staleness of the cached lookup) always run
        let repub = plan["long"].as_u64().unwrap_or(0) > 0 && plan["gaps"].as_array().map(|g| g.iter().any(|x| x.as_u64().unwrap_or(0) >= 200_000)).unwrap_or(false);
        // a second call while the first put is held IN FLIGHT by a storing peer that never answers the write (nobody holds
        // anything: one representative of the hold dimension) always runs
        let inflight = plan["store"] == "drop_p1" && plan["long"].as_u64().unwrap_or(0) == 0 && plan["calls"].as_array().map(|c| c.len() >= 2).unwrap_or(false)
            && plan["gaps"].as_array().map(|g| g.iter().any(|x| x.as_u64() == Some(400))).unwrap_or(false)
            && plan["hold"]["a"] == 0 && plan["hold"]["b"] == false && !has_silent;
        let join = plan["join"].as_bool().unwrap_or(false) || plan["abandon"].as_array().map(|a| !a.is_empty()).unwrap_or(false) || plan["slow"].as_bool().unwrap_or(false);
        if class_only == "join" && !join {
            b += 1;
            continue;
        }
        let pm = if repub || inflight || join { 1000 } else if plan["long"].as_u64().unwrap_or(0) > 0 { long_permille } else if has_silent || cross { silent_permille } else { permille };
        let take = only.map(|o| o == b).unwrap_or_else(|| pm >= 1000 || rng.below(1000) < pm);
        if take {
            let (n, _) = run_plan(b, plan, seed, &mut out);
            lines += n;
            runs += 1;
        }
        b += 1;
    }
    out.finish();
    if let Some(p) = args.get("summary") {
        crate::util::write_json(p, &json!({"runs": runs, "lines": lines, "distinct_nontrivial": runs, "plans_total": plans.len(), "samples": []}));
    }
    println!("actorconf driver: plans={} run={} lines={}", plans.len(), runs, lines);
    0
}
