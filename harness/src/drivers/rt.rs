//! C11 / C12 (+ table half of C14) driver: operation sequences on the real `RoutingTable` and
//! `ClosestNodes` through their public API (plus the re-key hook and the virtual clock), recording the
//! observed projection after every step for TLC (spec/RTTrace.tla).
use crate::crypto;
use crate::rng::Rng;
use crate::util::{id_json, Args, Out};
use dht::verif as v;
use dht::{ClosestNodes, Id, Node, RoutingTable};
use serde_json::{json, Value};
use std::collections::HashMap;
use std::net::{Ipv4Addr, SocketAddrV4};
use std::time::Duration;

#[derive(Clone)]
struct UNode {
    id: [u8; 20],
    addr: SocketAddrV4,
    sec: bool,
}

fn ip_pool(rng: &mut Rng, n: usize, private_share: u64) -> Vec<Ipv4Addr> {
    (0..n)
        .map(|i| {
            if rng.below(100) < private_share {
                Ipv4Addr::new(10, 0, (i / 200) as u8, (i % 200) as u8 + 1)
            } else {
                super::idmath::public_ip(rng)
            }
        })
        .collect()
}

/// an id at bucket distance `d` from `base` (random below the first differing bit)
fn id_at_distance(base: &[u8; 20], d: u32, rng: &mut Rng) -> [u8; 20] {
    let mut id = rng.id();
    if d == 0 {
        return *base;
    }
    let first_diff = 160 - d; // bit index (0 = msb) of the first differing bit
    for bit in 0..160u32 {
        let (byte, mask) = ((bit / 8) as usize, 0x80u8 >> (bit % 8));
        if bit < first_diff {
            id[byte] = (id[byte] & !mask) | (base[byte] & mask);
        } else if bit == first_diff {
            id[byte] = (id[byte] & !mask) | (!base[byte] & mask);
        }
    }
    id
}

fn universe(rng: &mut Rng, tid: &[u8; 20], n: usize, shape: u64) -> Vec<UNode> {
    let ips = ip_pool(rng, (n / 2).max(3), [0, 30, 100, 60][(shape % 4) as usize]);
    let mut u: Vec<UNode> = vec![];
    for _ in 0..n {
        let ip = *rng.pick(&ips);
        let port = 6881 + rng.below(3) as u16;
        let style = rng.below(10);
        let id = if style < 4 {
            // clustered in few buckets (fills them)
            id_at_distance(tid, *rng.pick(&[160u32, 160, 159, 158, 150, 120, 8, 1]), rng)
        } else if style < 7 {
            crypto::bep42_id(ip, rng.id())
        } else if style < 8 && !u.is_empty() {
            // repeated id with changed address
            u[rng.below(u.len() as u64) as usize].id
        } else if style < 9 {
            // same 21-bit prefix as another node on the same ip if any
            let mut id = rng.id();
            if let Some(o) = u.iter().find(|o| o.addr.ip() == &ip) {
                id[0] = o.id[0];
                id[1] = o.id[1];
                id[2] = (o.id[2] & 0xf8) | (id[2] & 7);
            }
            id
        } else {
            rng.id()
        };
        let addr = SocketAddrV4::new(ip, port);
        u.push(UNode { id, addr, sec: crypto::bep42_valid(&id, ip) });
    }
    u
}

fn proj(table: &RoutingTable, index: &HashMap<([u8; 20], SocketAddrV4), usize>) -> Value {
    let snap = table.verif_snapshot();
    let mut out = vec![];
    for n in &snap.nodes {
        let id = crate::bencode::unhex(&n.id);
        let mut a = [0u8; 20];
        a.copy_from_slice(&id);
        let addr: SocketAddrV4 = n.addr.parse().expect("addr");
        let idx = index.get(&(a, addr)).map(|i| *i as i64 + 1).unwrap_or(-1);
        out.push(json!([n.bucket, idx, n.age_ns / 1_000_000]));
    }
    Value::Array(out)
}

fn target_near(u: &[UNode], rng: &mut Rng) -> [u8; 20] {
    match rng.below(4) {
        0 => rng.id(),
        1 => u[rng.below(u.len() as u64) as usize].id,
        _ => {
            // tie on the first differing byte with some node
            let mut t = u[rng.below(u.len() as u64) as usize].id;
            let byte = rng.below(20) as usize;
            t[byte] ^= 1 << rng.below(8);
            for b in t.iter_mut().skip(byte + 1) {
                *b = rng.below(256) as u8;
            }
            t
        }
    }
}

/// Every node on its own IP address, most ids in the two farthest buckets: those buckets FILL UP (20 entries), with secure and
/// insecure ids mixed, and some secure ids in nearer buckets. Full buckets are where the stale-head replacement, the "never
/// evict a fresh node" rule and any shortcut in closest() that looks at one bucket only become visible.
fn universe_full(rng: &mut Rng, tid: &[u8; 20], n: usize) -> Vec<UNode> {
    let mut u: Vec<UNode> = vec![];
    for i in 0..n {
        let ip = if rng.chance(1, 4) { Ipv4Addr::new(10, 9, (i / 200) as u8, (i % 200) as u8 + 1) } else { Ipv4Addr::new(60 + (i % 120) as u8, 1 + (i / 120) as u8, rng.below(250) as u8, 1 + rng.below(250) as u8) };
        let style = rng.below(10);
        let id = if style < 6 {
            id_at_distance(tid, *rng.pick(&[160u32, 160, 160, 159]), rng)
        } else if style < 9 {
            crypto::bep42_id(ip, rng.id())
        } else {
            id_at_distance(tid, *rng.pick(&[158u32, 150, 120, 40]), rng)
        };
        u.push(UNode { id, addr: SocketAddrV4::new(ip, 6881), sec: crypto::bep42_valid(&id, ip) });
    }
    u
}

/// A few public IP addresses X, each with a family of ids that are all BEP42-secure for X with ONE 21-bit prefix (same r), so
/// the whole family lives in one bucket, which fills up.  Every id of a family appears at X (secure; the rule admits one of
/// them at a time), at an address of its own (not secure there) and sometimes at X under another port: the per-IP rules, the
/// update of a known id from another address, the full bucket and the stale head all meet in one place.
fn universe_shared(rng: &mut Rng, n: usize) -> Vec<UNode> {
    let mut u: Vec<UNode> = vec![];
    let fams = 2usize;
    let _ = n;
    let per = 24; // more ids than a bucket holds
    for f in 0..fams {
        let x = Ipv4Addr::new(70 + 40 * f as u8 + rng.below(30) as u8, 1 + rng.below(250) as u8, rng.below(250) as u8, 1 + rng.below(250) as u8);
        let r = rng.below(8) as u8;
        let ids: Vec<[u8; 20]> = (0..per)
            .map(|_| {
                let mut fill = rng.id();
                fill[19] = (fill[19] & 0xf8) | r;
                crypto::bep42_id(x, fill)
            })
            .collect();
        let mut fam: Vec<UNode> = vec![];
        for (i, id) in ids.iter().enumerate() {
            let own = Ipv4Addr::new(130 + f as u8, 1 + (i / 200) as u8, 7, 1 + (i % 200) as u8);
            fam.push(UNode { id: *id, addr: SocketAddrV4::new(own, 6881), sec: crypto::bep42_valid(id, own) });
            if i == 0 || rng.chance(1, 2) {
                fam.push(UNode { id: *id, addr: SocketAddrV4::new(x, 6881), sec: crypto::bep42_valid(id, x) });
            }
            if rng.chance(1, 6) {
                fam.push(UNode { id: *id, addr: SocketAddrV4::new(x, 6882), sec: crypto::bep42_valid(id, x) });
            }
        }
        // the first node of the universe is the first to be added: a family member at X, the head of its bucket from then on
        let first = fam.iter().position(|n| *n.addr.ip() == x).unwrap_or(0);
        fam.swap(0, first);
        u.extend(fam);
    }
    u
}

pub fn behaviour(b: u64, rng: &mut Rng, out: &mut Out, big: bool, big_hi: u64) -> (u64, Value) {
    v::reset_clock();
    let tid = rng.id();
    // every other big behaviour fills buckets up
    // ... and every fourth one has families of secure ids that share an address and a prefix
    let shared = big && b % 4 == 3;
    let full = big && b % 2 == 1;
    let n = if full { rng.range(48, 72) as usize } else if big { rng.range(big_hi / 2, big_hi) as usize } else { rng.range(4, 45) as usize };
    let u = if shared { universe_shared(rng, n) } else if full { universe_full(rng, &tid, n) } else { universe(rng, &tid, n, if big { 1 + (b % 2) * 2 } else { b }) };
    let n = u.len();
    let mut index = HashMap::new();
    for (i, x) in u.iter().enumerate() {
        index.entry((x.id, x.addr)).or_insert(i);
    }
    out.line(&json!({"e":"reset","b":b,"tid":id_json(&tid),
        "nodes": u.iter().map(|x| json!({"id":id_json(&x.id),"ip":x.addr.ip().to_string(),"port":x.addr.port(),"sec":x.sec})).collect::<Vec<_>>()}));
    let mut table = RoutingTable::new(Id::from(tid));
    // ONE request handler for the whole behaviour (what it remembers from request to request is part of what it serves), and
    // a few targets that are asked for again and again while the table changes underneath
    let mut server = v::LongLivedServer::new();
    let hot: Vec<[u8; 20]> = (0..3).map(|_| target_near(&u, rng)).collect();
    let mut ops = 0u64;
    let nops = if full { n as u64 + 60 } else if big { n as u64 + 30 } else { rng.range(10, 70) };
    let mut sample_ops = vec![];
    for step in 0..nops {
        // full: after the initial adds, more adds against the full buckets, ageing across the staleness boundary, removals, closest()
        let w = if big && step < n as u64 { 0 } else if shared { *rng.pick(&[0u64, 0, 0, 0, 0, 0, 56, 64, 64, 80, 95]) } else if full { *rng.pick(&[0u64, 0, 0, 56, 64, 64, 80, 80, 80, 80, 95]) } else if big { 77 + rng.below(23) } else { rng.below(100) };
        let ev = if w < 55 {
            let i = if big && step < n as u64 {
                step as usize
            } else if shared && rng.chance(2, 3) {
                // a family member at its shared address
                let at_x: Vec<usize> = (0..u.len()).filter(|&i| u[i].addr.ip().octets()[0] < 130).collect();
                *rng.pick(&at_x)
            } else {
                rng.below(u.len() as u64) as usize
            };
            let ret = table.add(Node::new(Id::from(u[index[&(u[i].id, u[i].addr)]].id), u[i].addr));
            json!({"e":"op","op":"add","n":index[&(u[i].id, u[i].addr)] + 1,"ret":ret})
        } else if w < 63 {
            let i = rng.below(u.len() as u64) as usize;
            table.remove(&Id::from(u[i].id));
            json!({"e":"op","op":"remove","n":i + 1})
        } else if w < 73 {
            let ms = if shared { *rng.pick(&[1000u64, 300_000, 900_000, 900_001, 960_000, 960_000]) } else { *rng.pick(&[1000u64, 60_000, 300_000, 899_999, 900_000, 900_001, 960_000]) };
            v::advance(Duration::from_millis(ms));
            json!({"e":"op","op":"advance","ms":ms})
        } else if w < 77 {
            let nid = if rng.chance(1, 2) { rng.id() } else { id_at_distance(&tid, rng.range(1, 160) as u32, rng) };
            v::reset_id(&mut table, Id::from(nid));
            json!({"e":"op","op":"reset_id","tid":id_json(&nid)})
        } else if w < 92 {
            let t = if rng.chance(1, 2) { *rng.pick(&hot) } else { target_near(&u, rng) };
            let ans = table.closest(Id::from(t));
            let idxs: Vec<i64> = ans.iter().map(|x| index.get(&(*x.id().as_bytes(), x.address())).map(|i| *i as i64 + 1).unwrap_or(-1)).collect();
            // ... "and therefore in find_node, get_peers and get responses": what a server holding this table (and an empty
            // signed-peers table) answers to each request kind for this target, asked by a stranger whose id is not the target
            let empty = RoutingTable::new(Id::from(tid));
            let from = std::net::SocketAddrV4::new(std::net::Ipv4Addr::new(10, 200, 0, 9), 4000);
            let requester_id = Id::from(rng.id());
            let target = Id::from(t);
            let mut served = serde_json::Map::new();
            for (name, rt) in [
                ("find_node", v::RequestTypeSpecific::FindNode(v::FindNodeRequestArguments { target })),
                ("get_peers", v::RequestTypeSpecific::GetPeers(v::GetPeersRequestArguments { info_hash: target })),
                ("get", v::RequestTypeSpecific::GetValue(v::GetValueRequestArguments { target, seq: None, salt: None })),
            ] {
                let nodes = server.served_nodes(&table, &empty, from, v::RequestSpecific { requester_id, request_type: rt });
                let l: Vec<i64> = nodes.unwrap_or_default().iter().map(|x| index.get(&(*x.id().as_bytes(), x.address())).map(|i| *i as i64 + 1).unwrap_or(-1)).collect();
                served.insert(name.to_string(), json!(l));
            }
            // the same with a NON-empty signed-peers table that holds a subset of the main table's nodes (peers that support
            // signed announcements are in both tables): find_node answers draw on both tables
            let mut signed = RoutingTable::new(Id::from(tid));
            let mut in_signed = vec![];
            for n in table.nodes() {
                if rng.chance(1, 2) {
                    signed.add(Node::new(*n.id(), n.address()));
                    if let Some(i) = index.get(&(*n.id().as_bytes(), n.address())) {
                        in_signed.push(*i as i64 + 1);
                    }
                }
            }
            let both = v::served_nodes(&table, &signed, from, v::RequestSpecific { requester_id, request_type: v::RequestTypeSpecific::FindNode(v::FindNodeRequestArguments { target }) });
            let both_l: Vec<i64> = both.unwrap_or_default().iter().map(|x| index.get(&(*x.id().as_bytes(), x.address())).map(|i| *i as i64 + 1).unwrap_or(-1)).collect();
            let signed_closest: Vec<i64> = signed.closest(target).iter().map(|x| index.get(&(*x.id().as_bytes(), x.address())).map(|i| *i as i64 + 1).unwrap_or(-1)).collect();
            json!({"e":"op","op":"closest","t":id_json(&t),"ans":idxs,"served":served,"in_signed":in_signed,"signed_closest":signed_closest,"served_both":both_l})
        } else {
            // accumulator: a random insertion order of a random subset
            let t = target_near(&u, rng);
            let mut order: Vec<usize> = (0..u.len()).collect();
            rng.shuffle(&mut order);
            order.truncate(rng.range(1, u.len().min(60) as u64) as usize);
            let mut acc = ClosestNodes::new(Id::from(t));
            let mut adds = vec![];
            for &i in &order {
                let c = index[&(u[i].id, u[i].addr)];
                acc.add(Node::new(Id::from(u[c].id), u[c].addr));
                adds.push(c + 1);
            }
            let to_idx = |x: &Node| index.get(&(*x.id().as_bytes(), x.address())).map(|i| *i as i64 + 1).unwrap_or(-1);
            let obs: Vec<i64> = acc.nodes().iter().map(to_idx).collect();
            let est = *rng.pick(&[0usize, 1, 20, 1000, 1_000_000, 10_000_000]);
            let subnets = rng.below(65) as usize;
            let take: Vec<i64> = acc.take_until_secure(est, subnets).iter().map(to_idx).collect();
            json!({"e":"op","op":"acc","t":id_json(&t),"adds":adds,"order":obs,"take":take,"est":est,"subnets":subnets})
        };
        let mut ev = ev;
        let op = ev["op"].as_str().unwrap_or("").to_string();
        if ["add", "remove", "advance", "reset_id"].contains(&op.as_str()) {
            ev["proj"] = proj(&table, &index);
            ev["size"] = json!(table.size());
            ev["is_empty"] = json!(table.is_empty());
            // what the PUBLIC iterator yields (the projection above reads the buckets through the hook): node indices in
            // iteration order, and the number of bootstrap strings (one per node)
            ev["iter"] = json!(table.nodes().map(|x| index.get(&(*x.id().as_bytes(), x.address())).map(|i| *i as i64 + 1).unwrap_or(-1)).collect::<Vec<i64>>());
            ev["to_bootstrap"] = json!(table.to_bootstrap().len());
        }
        if sample_ops.len() < 6 {
            let mut s = ev.clone();
            if let Some(o) = s.as_object_mut() {
                o.remove("proj");
                o.remove("t");
            }
            sample_ops.push(s);
        }
        out.line(&ev);
        ops += 1;
    }
    (ops, json!({"b": b, "universe": u.len(), "first_ops": sample_ops}))
}

/// Directed: two groups of ten nodes in neighbouring buckets, the group in the NEARER bucket seen a minute later; the table is
/// re-keyed (as after the confirmation of a public address) to an id from which all twenty are equally far, so they share one
/// full bucket; sixteen minutes later a newcomer for that bucket arrives. The entry it replaces is the least recently seen one.
pub fn rekey_merge(b: u64, rng: &mut Rng, out: &mut Out) -> u64 {
    v::reset_clock();
    let tid = rng.id();
    let mut tid2 = tid;
    tid2[0] ^= 0x80;
    let mut u: Vec<UNode> = vec![];
    for i in 0..20usize {
        let d = if i < 10 { 159 } else { 158 };
        let id = id_at_distance(&tid, d, rng);
        u.push(UNode { id, addr: SocketAddrV4::new(Ipv4Addr::new(10, 40, 0, i as u8 + 1), 6881), sec: true });
    }
    let newcomer = id_at_distance(&tid2, 160, rng);
    u.push(UNode { id: newcomer, addr: SocketAddrV4::new(Ipv4Addr::new(10, 40, 1, 1), 6881), sec: true });
    let mut index = HashMap::new();
    for (i, x) in u.iter().enumerate() {
        index.entry((x.id, x.addr)).or_insert(i);
    }
    out.line(&json!({"e":"reset","b":b,"tid":id_json(&tid),
        "nodes": u.iter().map(|x| json!({"id":id_json(&x.id),"ip":x.addr.ip().to_string(),"port":x.addr.port(),"sec":x.sec})).collect::<Vec<_>>()}));
    let mut table = RoutingTable::new(Id::from(tid));
    let mut ops = 0u64;
    let mut emit = |table: &RoutingTable, mut ev: Value, out: &mut Out| {
        ev["proj"] = proj(table, &index);
        ev["size"] = json!(table.size());
        ev["is_empty"] = json!(table.is_empty());
        ev["iter"] = json!(table.nodes().map(|x| index.get(&(*x.id().as_bytes(), x.address())).map(|i| *i as i64 + 1).unwrap_or(-1)).collect::<Vec<i64>>());
        ev["to_bootstrap"] = json!(table.to_bootstrap().len());
        out.line(&ev);
    };
    let add = |table: &mut RoutingTable, i: usize| -> Value {
        let ret = table.add(Node::new(Id::from(u[i].id), u[i].addr));
        json!({"e":"op","op":"add","n":i + 1,"ret":ret})
    };
    for i in 0..10 {
        let ev = add(&mut table, i);
        emit(&table, ev, out);
        ops += 1;
    }
    v::advance(Duration::from_millis(60_000));
    emit(&table, json!({"e":"op","op":"advance","ms":60_000}), out);
    for i in 10..20 {
        let ev = add(&mut table, i);
        emit(&table, ev, out);
        ops += 1;
    }
    v::reset_id(&mut table, Id::from(tid2));
    emit(&table, json!({"e":"op","op":"reset_id","tid":id_json(&tid2)}), out);
    v::advance(Duration::from_millis(960_000));
    emit(&table, json!({"e":"op","op":"advance","ms":960_000}), out);
    let ev = add(&mut table, 20);
    emit(&table, ev, out);
    ops + 4
}

/// Directed: a full bucket whose entries were seen one second apart; one of them (the head, one in the middle, the tail) is
/// removed, the bucket is filled up again, everything goes stale, a newcomer arrives: it replaces the least recently seen entry.
pub fn remove_then_evict(b: u64, which: usize, rng: &mut Rng, out: &mut Out) -> u64 {
    v::reset_clock();
    let tid = rng.id();
    let mut u: Vec<UNode> = vec![];
    for i in 0..22usize {
        let id = id_at_distance(&tid, 160, rng);
        u.push(UNode { id, addr: SocketAddrV4::new(Ipv4Addr::new(10, 41, 0, i as u8 + 1), 6881), sec: true });
    }
    let mut index = HashMap::new();
    for (i, x) in u.iter().enumerate() {
        index.entry((x.id, x.addr)).or_insert(i);
    }
    out.line(&json!({"e":"reset","b":b,"tid":id_json(&tid),
        "nodes": u.iter().map(|x| json!({"id":id_json(&x.id),"ip":x.addr.ip().to_string(),"port":x.addr.port(),"sec":x.sec})).collect::<Vec<_>>()}));
    let mut table = RoutingTable::new(Id::from(tid));
    let mut ops = 0u64;
    let mut emit = |table: &RoutingTable, mut ev: Value, out: &mut Out| {
        ev["proj"] = proj(table, &index);
        ev["size"] = json!(table.size());
        ev["is_empty"] = json!(table.is_empty());
        ev["iter"] = json!(table.nodes().map(|x| index.get(&(*x.id().as_bytes(), x.address())).map(|i| *i as i64 + 1).unwrap_or(-1)).collect::<Vec<i64>>());
        ev["to_bootstrap"] = json!(table.to_bootstrap().len());
        out.line(&ev);
        1u64
    };
    for i in 0..20 {
        let ret = table.add(Node::new(Id::from(u[i].id), u[i].addr));
        ops += emit(&table, json!({"e":"op","op":"add","n":i + 1,"ret":ret}), out);
        v::advance(Duration::from_millis(1000));
        ops += emit(&table, json!({"e":"op","op":"advance","ms":1000}), out);
    }
    table.remove(&Id::from(u[which].id));
    ops += emit(&table, json!({"e":"op","op":"remove","n":which + 1}), out);
    let ret = table.add(Node::new(Id::from(u[20].id), u[20].addr));
    ops += emit(&table, json!({"e":"op","op":"add","n":21,"ret":ret}), out);
    v::advance(Duration::from_millis(960_000));
    ops += emit(&table, json!({"e":"op","op":"advance","ms":960_000}), out);
    let ret = table.add(Node::new(Id::from(u[21].id), u[21].addr));
    ops += emit(&table, json!({"e":"op","op":"add","n":22,"ret":ret}), out);
    ops
}

/// Directed: several nodes behind ONE ip - a BEP42-secure one (S1), an insecure one (U1), then, after one of the two was removed,
/// newcomers from the same ip that the per-ip rule must still refuse (a second insecure id; a secure id with S1's prefix), in
/// rounds: whatever the table remembers about the ips it holds must survive a removal that leaves the ip represented.
pub fn ip_after_remove(b: u64, variant: u64, rng: &mut Rng, out: &mut Out) -> u64 {
    v::reset_clock();
    let tid = rng.id();
    let x = Ipv4Addr::new(80, 10 + variant as u8, 20, 30);
    let r = rng.below(8) as u8;
    let sec_id = |rng: &mut Rng| {
        let mut fill = rng.id();
        fill[19] = (fill[19] & 0xf8) | r;
        crypto::bep42_id(x, fill)
    };
    let mut u: Vec<UNode> = vec![];
    // 1: S1, 2: U1, 3..8: insecure newcomers, 9..12: secure ids with S1's prefix, 13: a bystander elsewhere
    let s1 = sec_id(rng);
    u.push(UNode { id: s1, addr: SocketAddrV4::new(x, 6881), sec: crypto::bep42_valid(&s1, x) });
    for i in 0..7u16 {
        let id = rng.id();
        u.push(UNode { id, addr: SocketAddrV4::new(x, 6882 + i), sec: crypto::bep42_valid(&id, x) });
    }
    for i in 0..4u16 {
        let id = sec_id(rng);
        u.push(UNode { id, addr: SocketAddrV4::new(x, 6900 + i), sec: crypto::bep42_valid(&id, x) });
    }
    let by = rng.id();
    u.push(UNode { id: by, addr: SocketAddrV4::new(Ipv4Addr::new(81, 1, 1, 1), 6881), sec: false });
    let mut index = HashMap::new();
    for (i, n) in u.iter().enumerate() {
        index.entry((n.id, n.addr)).or_insert(i);
    }
    out.line(&json!({"e":"reset","b":b,"tid":id_json(&tid),
        "nodes": u.iter().map(|x| json!({"id":id_json(&x.id),"ip":x.addr.ip().to_string(),"port":x.addr.port(),"sec":x.sec})).collect::<Vec<_>>()}));
    let mut table = RoutingTable::new(Id::from(tid));
    let mut ops = 0u64;
    let mut emit = |table: &RoutingTable, mut ev: Value, out: &mut Out| {
        ev["proj"] = proj(table, &index);
        ev["size"] = json!(table.size());
        ev["is_empty"] = json!(table.is_empty());
        ev["iter"] = json!(table.nodes().map(|x| index.get(&(*x.id().as_bytes(), x.address())).map(|i| *i as i64 + 1).unwrap_or(-1)).collect::<Vec<i64>>());
        ev["to_bootstrap"] = json!(table.to_bootstrap().len());
        out.line(&ev);
        1u64
    };
    let script: Vec<(&str, usize)> = match variant {
        // S1, U1; S1 leaves; a second insecure id from the ip; and again after the bystander came and went
        0 => vec![("add", 1), ("add", 2), ("add", 13), ("remove", 1), ("add", 3), ("add", 4), ("remove", 13), ("add", 5), ("add", 1), ("remove", 1), ("add", 6)],
        // S1, U1; U1 leaves; a secure id with S1's prefix; an insecure id (admissible again); then a second one (not)
        1 => vec![("add", 1), ("add", 2), ("remove", 2), ("add", 9), ("add", 3), ("add", 4), ("remove", 3), ("add", 10), ("add", 5), ("add", 6)],
        // the insecure one first, then S1 (admissible), then removals in the other order
        _ => vec![("add", 2), ("add", 1), ("add", 3), ("remove", 2), ("add", 9), ("add", 3), ("add", 4), ("remove", 1), ("add", 5), ("add", 11), ("add", 12)],
    };
    for (op, n) in script {
        if op == "add" {
            let ret = table.add(Node::new(Id::from(u[n - 1].id), u[n - 1].addr));
            ops += emit(&table, json!({"e":"op","op":"add","n":n,"ret":ret}), out);
        } else {
            table.remove(&Id::from(u[n - 1].id));
            ops += emit(&table, json!({"e":"op","op":"remove","n":n}), out);
        }
        v::advance(Duration::from_millis(1000));
        ops += emit(&table, json!({"e":"op","op":"advance","ms":1000}), out);
    }
    ops
}

/// Directed: a bucket of twenty nodes heard at t0 - 1 s (nineteen) and t0 (X, the last one); X is heard again at t0 + 8 s, the
/// nineteen others at t0 + 20 s, and a newcomer for the bucket arrives at t0 + 905 s: X was heard 897 s ago - not stale - and stays.
pub fn reheard_then_evict(b: u64, rng: &mut Rng, out: &mut Out) -> u64 {
    v::reset_clock();
    let tid = rng.id();
    let mut u: Vec<UNode> = vec![];
    for i in 0..21usize {
        let id = id_at_distance(&tid, 160, rng);
        u.push(UNode { id, addr: SocketAddrV4::new(Ipv4Addr::new(10, 42, 0, i as u8 + 1), 6881), sec: true });
    }
    let mut index = HashMap::new();
    for (i, x) in u.iter().enumerate() {
        index.entry((x.id, x.addr)).or_insert(i);
    }
    out.line(&json!({"e":"reset","b":b,"tid":id_json(&tid),
        "nodes": u.iter().map(|x| json!({"id":id_json(&x.id),"ip":x.addr.ip().to_string(),"port":x.addr.port(),"sec":x.sec})).collect::<Vec<_>>()}));
    let mut table = RoutingTable::new(Id::from(tid));
    let mut ops = 0u64;
    let mut emit = |table: &RoutingTable, mut ev: Value, out: &mut Out| {
        ev["proj"] = proj(table, &index);
        ev["size"] = json!(table.size());
        ev["is_empty"] = json!(table.is_empty());
        ev["iter"] = json!(table.nodes().map(|x| index.get(&(*x.id().as_bytes(), x.address())).map(|i| *i as i64 + 1).unwrap_or(-1)).collect::<Vec<i64>>());
        ev["to_bootstrap"] = json!(table.to_bootstrap().len());
        out.line(&ev);
        1u64
    };
    let mut add = |table: &mut RoutingTable, i: usize, out: &mut Out| -> u64 {
        let ret = table.add(Node::new(Id::from(u[i].id), u[i].addr));
        emit(table, json!({"e":"op","op":"add","n":i + 1,"ret":ret}), out)
    };
    for i in 0..19 {
        ops += add(&mut table, i, out);
    }
    for (ms, who) in [(1000u64, vec![19usize]), (8000, vec![19]), (12_000, (0..19).collect::<Vec<usize>>()), (885_000, vec![20])] {
        v::advance(Duration::from_millis(ms));
        ops += {
            let mut ev = json!({"e":"op","op":"advance","ms":ms});
            ev["proj"] = proj(&table, &index);
            ev["size"] = json!(table.size());
            ev["is_empty"] = json!(table.is_empty());
            ev["iter"] = json!(table.nodes().map(|x| index.get(&(*x.id().as_bytes(), x.address())).map(|i| *i as i64 + 1).unwrap_or(-1)).collect::<Vec<i64>>());
            ev["to_bootstrap"] = json!(table.to_bootstrap().len());
            out.line(&ev);
            1
        };
        for i in who {
            ops += add(&mut table, i, out);
        }
    }
    ops
}

pub fn run(args: &Args) -> i32 {
    let seed = args.u64("seed", 1);
    let mut rng = Rng::new(seed.wrapping_mul(31).wrapping_add(11));
    let mut out = Out::create(&args.str("out", "/verif/work/C12/trace.ndjson"));
    let n = args.u64("behaviours", 120);
    let big = args.u64("big", 2);
    let big_hi = args.u64("big-hi", 300);
    let mut ops = 0;
    let mut samples = vec![];
    let only = args.get("only").and_then(|x| x.parse::<u64>().ok());
    let mut sink = Out::create("/dev/null");
    for b in 0..n + big {
        if let Some(o) = only {
            if o != b {
                // keep the random stream aligned: generate but discard
                let _ = std::panic::catch_unwind(std::panic::AssertUnwindSafe(|| behaviour(b, &mut rng, &mut sink, b >= n, big_hi)));
                continue;
            }
        }
        // a panic of the library (RoutingTable / ClosestNodes) is data: the behaviour ends with a `panic` line judged by TLC
        let (o, s) = match std::panic::catch_unwind(std::panic::AssertUnwindSafe(|| behaviour(b, &mut rng, &mut out, b >= n, big_hi))) {
            Ok(x) => x,
            Err(_) => {
                out.line(&json!({"e":"op","op":"panic","msg":crate::util::last_panic().chars().take(200).collect::<String>()}));
                (1, json!({"b": b, "panicked": true}))
            }
        };
        ops += o;
        if samples.len() < 3 {
            samples.push(s);
        }
    }
    let mut directed = 0;
    if big > 0 && (only.is_none() || only == Some(n + big)) {
        ops += rekey_merge(n + big, &mut rng, &mut out);
        directed = 1;
    }
    if big > 0 && (only.is_none() || only == Some(n + big + 4)) {
        ops += reheard_then_evict(n + big + 4, &mut rng, &mut out);
        directed += 1;
    }
    if big > 0 {
        for (k, which) in [0usize, 7, 19].iter().enumerate() {
            if only.is_none() || only == Some(n + big + 1 + k as u64) {
                ops += remove_then_evict(n + big + 1 + k as u64, *which, &mut rng, &mut out);
                directed += 1;
            }
        }
    }
    if big > 0 {
        for variant in 0..3u64 {
            if only.is_none() || only == Some(n + big + 5 + variant) {
                ops += ip_after_remove(n + big + 5 + variant, variant, &mut rng, &mut out);
                directed += 1;
            }
        }
    }
    out.finish();
    let summary = json!({"behaviours": n + big + directed, "ops": ops, "samples": samples});
    if let Some(p) = args.get("summary") {
        crate::util::write_json(p, &summary);
    }
    println!("rt driver: behaviours={} ops={ops}", n + big);
    0
}
