//! C10 driver: for every message of the TLC-enumerated buildable space, build the typed message
//! (through the H3 mirror), encode it with the library, decode the bytes with the harness' own codec
//! into a dictionary of labels, check canonical form, decode with the library and compare.
use crate::bencode::{hex, B};
use crate::krpc;
use crate::util::{Args, Out};
use dht::verif::*;
use dht::Id;
use serde_json::{json, Value};
use std::collections::HashMap;
use std::net::{Ipv4Addr, SocketAddrV4};

fn id_bytes(l: &str) -> [u8; 20] {
    match l {
        "id:zero" => [0; 20],
        "id:ff" => [255; 20],
        _ => {
            let mut a = [0u8; 20];
            for (i, x) in a.iter_mut().enumerate() {
                *x = 0x41 + i as u8;
            }
            a
        }
    }
}
fn sized(prefix: &str, l: &str) -> Vec<u8> {
    let n: usize = l.rsplit(':').next().and_then(|x| x.parse().ok()).unwrap_or(0);
    let mut v = prefix.as_bytes().to_vec();
    while v.len() < n {
        v.push(b'0' + (v.len() % 10) as u8);
    }
    v.truncate(n);
    v
}
fn tok(l: &str) -> Vec<u8> {
    sized("T", l)
}
fn val(l: &str) -> Vec<u8> {
    sized("V", l)
}
fn salt(l: &str) -> Vec<u8> {
    sized("S", l)
}
fn key() -> [u8; 32] {
    let mut k = [0u8; 32];
    for (i, x) in k.iter_mut().enumerate() {
        *x = 0x80 + i as u8;
    }
    k
}
fn sig() -> [u8; 64] {
    let mut k = [0u8; 64];
    for (i, x) in k.iter_mut().enumerate() {
        *x = 0xC0u8.wrapping_add(i as u8);
    }
    k
}
fn node(i: usize) -> ([u8; 20], SocketAddrV4) {
    let mut id = [i as u8 + 1; 20];
    id[19] = 0xEE;
    (id, SocketAddrV4::new(Ipv4Addr::new(45, 0, i as u8, 1), 6881 + i as u16))
}
fn nodes(l: &str) -> Option<Vec<Node>> {
    if l == "none" {
        return None;
    }
    let n: usize = l.rsplit(':').next().and_then(|x| x.parse().ok()).unwrap_or(0);
    if l.starts_with("nodesdup:") {
        // the same two ids over and over, every entry at its own address (a node listed at an old and a new address, a node
        // listed once per routing table): entries are entries, the codec must not merge them
        return Some((0..n).map(|i| Node::new(Id::from(node(i % 2).0), node(i).1)).collect());
    }
    Some((0..n).map(|i| Node::new(Id::from(node(i).0), node(i).1)).collect())
}
fn count(l: &str) -> usize {
    l.rsplit(':').next().and_then(|x| x.parse().ok()).unwrap_or(0)
}
fn peer(i: usize) -> SocketAddrV4 {
    SocketAddrV4::new(Ipv4Addr::new(99, 1, i as u8, 2), 1000 + i as u16)
}
fn speer(i: usize) -> ([u8; 32], u64, [u8; 64]) {
    let mut k = key();
    k[0] = i as u8;
    (k, 1_000_000 + i as u64, sig())
}
fn int64(l: &str) -> i64 {
    l.parse().unwrap_or(0)
}
fn opt64(l: &str) -> Option<i64> {
    if l == "none" {
        None
    } else {
        Some(int64(l))
    }
}
fn text(l: &str) -> String {
    // sweeps: text:aN = N ascii bytes; text:uN = a 2-byte character straddling byte offset N (N-1 ascii bytes before it),
    // then 40 more bytes; text:wN = a 3-byte and a 4-byte character around offset N
    if let Some(n) = l.strip_prefix("text:a").and_then(|x| x.parse::<usize>().ok()) {
        return (0..n).map(|i| (b'a' + (i % 26) as u8) as char).collect();
    }
    if let Some(n) = l.strip_prefix("text:u").and_then(|x| x.parse::<usize>().ok()) {
        let mut t: String = (0..n.saturating_sub(1)).map(|_| 'x').collect();
        t.push('é');
        t.extend((0..40).map(|_| 'y'));
        return t;
    }
    if let Some(n) = l.strip_prefix("text:w").and_then(|x| x.parse::<usize>().ok()) {
        let mut t: String = (0..n.saturating_sub(2)).map(|_| 'x').collect();
        t.push('€');
        t.push('𝄞');
        t.extend((0..10).map(|_| 'z'));
        return t;
    }
    match l {
        "text:empty" => "".into(),
        "text:utf8" => "ünï".into(),
        _ => "A Generic Error Ocurred".into(),
    }
}
fn text_labels() -> Vec<String> {
    let mut v: Vec<String> = vec!["text:empty".into(), "text:generic".into(), "text:utf8".into()];
    for n in (1..=300).chain([511, 512, 513, 1000]) {
        v.push(format!("text:a{n}"));
        v.push(format!("text:u{n}"));
    }
    for n in 2..=140 {
        v.push(format!("text:w{n}"));
    }
    v
}
fn s<'a>(m: &'a Value, k: &str) -> &'a str {
    m[k].as_str().unwrap_or("none")
}

pub fn build_public(m: &Value) -> WireMessage {
    build(m)
}

fn build(m: &Value) -> WireMessage {
    let id = Id::from(id_bytes(s(m, "id")));
    let target = Id::from(id_bytes(s(m, "target")));
    let kind = s(m, "kind");
    let token: Box<[u8]> = tok(s(m, "token")).into();
    let nd: Option<Box<[Node]>> = nodes(s(m, "nodes")).map(|v| v.into());
    let mt = match kind {
        "ping" => MessageType::Request(RequestSpecific { requester_id: id, request_type: RequestTypeSpecific::Ping }),
        "find_node" => MessageType::Request(RequestSpecific { requester_id: id, request_type: RequestTypeSpecific::FindNode(FindNodeRequestArguments { target }) }),
        "get_peers" => MessageType::Request(RequestSpecific { requester_id: id, request_type: RequestTypeSpecific::GetPeers(GetPeersRequestArguments { info_hash: target }) }),
        "get_signed_peers" => MessageType::Request(RequestSpecific { requester_id: id, request_type: RequestTypeSpecific::GetSignedPeers(GetPeersRequestArguments { info_hash: target }) }),
        "get" => MessageType::Request(RequestSpecific { requester_id: id, request_type: RequestTypeSpecific::GetValue(GetValueRequestArguments { target, seq: opt64(s(m, "seq")), salt: None }) }),
        "announce_peer" => MessageType::Request(RequestSpecific {
            requester_id: id,
            request_type: RequestTypeSpecific::Put(PutRequest {
                token,
                put_request_type: PutRequestSpecific::AnnouncePeer(AnnouncePeerRequestArguments {
                    info_hash: target,
                    port: s(m, "port").parse().unwrap_or(0),
                    implied_port: match s(m, "implied") {
                        "true" => Some(true),
                        "false" => Some(false),
                        _ => None,
                    },
                }),
            }),
        }),
        "announce_signed_peer" => MessageType::Request(RequestSpecific {
            requester_id: id,
            request_type: RequestTypeSpecific::Put(PutRequest {
                token,
                put_request_type: PutRequestSpecific::AnnounceSignedPeer(AnnounceSignedPeerRequestArguments {
                    info_hash: target,
                    t: s(m, "t").parse().unwrap_or(0),
                    k: key(),
                    sig: sig(),
                }),
            }),
        }),
        "put_immutable" => MessageType::Request(RequestSpecific {
            requester_id: id,
            request_type: RequestTypeSpecific::Put(PutRequest {
                token,
                put_request_type: PutRequestSpecific::PutImmutable(PutImmutableRequestArguments { target, v: val(s(m, "v")).into() }),
            }),
        }),
        "put_mutable" => MessageType::Request(RequestSpecific {
            requester_id: id,
            request_type: RequestTypeSpecific::Put(PutRequest {
                token,
                put_request_type: PutRequestSpecific::PutMutable(PutMutableRequestArguments {
                    target,
                    v: val(s(m, "v")).into(),
                    k: key(),
                    seq: int64(s(m, "seq")),
                    sig: sig(),
                    salt: if s(m, "salt") == "none" { None } else { Some(salt(s(m, "salt")).into()) },
                    cas: opt64(s(m, "cas")),
                }),
            }),
        }),
        "r_ping" => MessageType::Response(ResponseSpecific::Ping(PingResponseArguments { responder_id: id })),
        "r_find_node" => MessageType::Response(ResponseSpecific::FindNode(FindNodeResponseArguments { responder_id: id, nodes: nd.unwrap_or_default() })),
        "r_get_peers" => MessageType::Response(ResponseSpecific::GetPeers(GetPeersResponseArguments {
            responder_id: id,
            token,
            values: (0..count(s(m, "values"))).map(peer).collect(),
            nodes: nd,
        })),
        "r_get_signed_peers" => MessageType::Response(ResponseSpecific::GetSignedPeers(GetSignedPeersResponseArguments {
            responder_id: id,
            token,
            peers: (0..count(s(m, "values"))).map(speer).collect(),
            nodes: nd,
        })),
        "r_get_immutable" => MessageType::Response(ResponseSpecific::GetImmutable(GetImmutableResponseArguments { responder_id: id, token, nodes: nd, v: val(s(m, "v")).into() })),
        "r_get_mutable" => MessageType::Response(ResponseSpecific::GetMutable(GetMutableResponseArguments {
            responder_id: id,
            token,
            nodes: nd,
            v: val(s(m, "v")).into(),
            k: key(),
            seq: int64(s(m, "seq")),
            sig: sig(),
        })),
        "r_no_values" => MessageType::Response(ResponseSpecific::NoValues(NoValuesResponseArguments { responder_id: id, token, nodes: nd })),
        "r_no_more_recent" => MessageType::Response(ResponseSpecific::NoMoreRecentValue(NoMoreRecentValueResponseArguments { responder_id: id, token, nodes: nd, seq: int64(s(m, "seq")) })),
        _ => MessageType::Error(ErrorSpecific { code: s(m, "code").parse().unwrap_or(0), description: text(s(m, "text")) }),
    };
    WireMessage {
        transaction_id: s(m, "tid").trim_start_matches("t:").parse().unwrap_or(0),
        version: if s(m, "ver") == "none" { None } else { Some(krpc::VERSION) },
        requester_ip: if s(m, "ip") == "none" { None } else { Some(SocketAddrV4::new(Ipv4Addr::new(203, 0, 113, 7), 6881)) },
        message_type: mt,
        read_only: m["ro"].as_bool().unwrap_or(false),
    }
}

struct Labels {
    ids: HashMap<String, String>,
    toks: HashMap<String, String>,
    vals: HashMap<String, String>,
    salts: HashMap<String, String>,
    texts: HashMap<String, String>,
}
fn labels() -> Labels {
    let mut l = Labels { ids: HashMap::new(), toks: HashMap::new(), vals: HashMap::new(), salts: HashMap::new(), texts: HashMap::new() };
    // the sweeps of Krpc!Sweeps (the fixed labels below win where both exist)
    for n in 0..=40usize {
        l.toks.insert(hex(&tok(&format!("tok:{n}"))), format!("tok:{n}"));
    }
    for n in (0..=40usize).chain(990..=1010) {
        l.vals.insert(hex(&val(&format!("v:{n}"))), format!("v:{n}"));
    }
    for n in 0..=70usize {
        l.salts.insert(hex(&salt(&format!("salt:{n}"))), format!("salt:{n}"));
    }
    for t in text_labels().into_iter().rev() {
        l.texts.insert(text(&t), t);
    }
    for x in ["id:zero", "id:ff", "id:a"] {
        l.ids.insert(hex(&id_bytes(x)), x.into());
    }
    for x in ["tok:0", "tok:1", "tok:4", "tok:20"] {
        l.toks.insert(hex(&tok(x)), x.into());
    }
    for x in ["v:0", "v:1", "v:1000", "v:1001"] {
        l.vals.insert(hex(&val(x)), x.into());
    }
    for x in ["salt:0", "salt:1", "salt:64", "salt:65"] {
        l.salts.insert(hex(&salt(x)), x.into());
    }
    l
}
fn look(m: &HashMap<String, String>, b: Option<&[u8]>) -> Value {
    match b {
        Some(b) => json!(m.get(&hex(b)).cloned().unwrap_or(format!("?{}", hex(&b[..b.len().min(12)])))),
        None => json!("?notbytes"),
    }
}
fn int_s(b: &B) -> Value {
    match b {
        B::Int(i) => json!(i.to_string()),
        _ => json!("?notint"),
    }
}

/// dictionary of labels as seen by the harness' own decoder
fn label_dict(l: &Labels, d: &B) -> Value {
    let mut o = serde_json::Map::new();
    if let B::Dict(m) = d {
        for (k, v) in m {
            let k = String::from_utf8_lossy(k).to_string();
            let val = match k.as_str() {
                "t" => match v.as_bytes() {
                    Some(b) if b.len() == 4 => json!(format!("t:{}", u32::from_be_bytes([b[0], b[1], b[2], b[3]]))),
                    Some(b) => json!(format!("?tid{}", hex(b))),
                    None => json!("?"),
                },
                "y" | "q" => json!(String::from_utf8_lossy(v.as_bytes().unwrap_or(b"?")).to_string()),
                "v" => json!(if v.as_bytes() == Some(&krpc::VERSION[..]) { "RS06".to_string() } else { "?ver".to_string() }),
                "ip" => json!(if v.as_bytes() == Some(&[203, 0, 113, 7, 0x1a, 0xe1][..]) { "ip:a".to_string() } else { "?ip".to_string() }),
                "ro" => int_s(v),
                "a" | "r" => args_dict(l, v),
                "e" => match v.as_list() {
                    Some(x) if x.len() == 2 => {
                        let t = String::from_utf8_lossy(x[1].as_bytes().unwrap_or(b"?")).to_string();
                        let tl = l.texts.get(&t).cloned().unwrap_or(format!("?{}", t.chars().take(40).collect::<String>()));
                        json!([int_s(&x[0]), tl])
                    }
                    _ => json!("?e"),
                },
                _ => json!("?unexpected-key"),
            };
            o.insert(k, val);
        }
    }
    Value::Object(o)
}
fn args_dict(l: &Labels, d: &B) -> Value {
    let mut o = serde_json::Map::new();
    if let B::Dict(m) = d {
        for (k, v) in m {
            let k = String::from_utf8_lossy(k).to_string();
            let val = match k.as_str() {
                "id" | "target" | "info_hash" => look(&l.ids, v.as_bytes()),
                "token" => look(&l.toks, v.as_bytes()),
                "v" => look(&l.vals, v.as_bytes()),
                "salt" => look(&l.salts, v.as_bytes()),
                "k" => json!(if v.as_bytes() == Some(&key()[..]) { "k:1" } else { "?k" }),
                "sig" => json!(if v.as_bytes() == Some(&sig()[..]) { "sig:1" } else { "?sig" }),
                "seq" | "cas" | "port" | "implied_port" | "t" => int_s(v),
                "nodes" => match v.as_bytes().and_then(krpc::parse_compact_nodes) {
                    Some(ns) if ns.iter().enumerate().all(|(i, n)| *n == node(i)) => json!(format!("nodes:{}", ns.len())),
                    Some(ns) if ns.len() >= 3 && ns.iter().enumerate().all(|(i, n)| n.0 == node(i % 2).0 && n.1 == node(i).1) => json!(format!("nodesdup:{}", ns.len())),
                    _ => json!("?nodes"),
                },
                "values" => match v.as_list() {
                    Some(x) if x.iter().enumerate().all(|(i, p)| p.as_bytes().and_then(krpc::parse_compact_addr) == Some(peer(i))) => json!(format!("values:{}", x.len())),
                    _ => json!("?values"),
                },
                "peers" => match v.as_list() {
                    Some(x) if x.iter().enumerate().all(|(i, p)| {
                        let e = speer(i);
                        let mut want = e.0.to_vec();
                        want.extend(e.1.to_be_bytes());
                        want.extend(e.2);
                        p.as_bytes() == Some(&want[..])
                    }) => json!(format!("speers:{}", x.len())),
                    _ => json!("?peers"),
                },
                _ => json!("?unexpected-key"),
            };
            o.insert(k, val);
        }
    }
    Value::Object(o)
}

/// Equivalence of a decoded message with the original (nodes by id and address; the non-wire salt of
/// GetValue excluded; implied_port absent == Some(false)).
fn equivalent(a: &WireMessage, b: &WireMessage) -> bool {
    fn norm(m: &WireMessage) -> String {
        let mut m = m.clone();
        if let MessageType::Request(RequestSpecific { request_type: RequestTypeSpecific::GetValue(ref mut g), .. }) = m.message_type {
            g.salt = None;
        }
        if let MessageType::Request(RequestSpecific { request_type: RequestTypeSpecific::Put(PutRequest { put_request_type: PutRequestSpecific::AnnouncePeer(ref mut a), .. }), .. }) = m.message_type {
            if a.implied_port.is_none() {
                a.implied_port = Some(false);
            }
        }
        format!("{:?}", m)
    }
    norm(a) == norm(b)
}

struct Bep {
    name: &'static str,
    bytes: Vec<u8>,
}
fn bep_examples() -> Vec<Bep> {
    let n26: Vec<u8> = {
        let mut v = b"abcdefghij0123456789".to_vec();
        v.extend([1, 2, 3, 4, 0x1a, 0xe1]);
        v
    };
    let mut fr = b"d1:rd2:id20:0123456789abcdefghij5:nodes26:".to_vec();
    fr.extend(&n26);
    fr.extend(b"e1:t2:aa1:y1:re");
    let mut gr = b"d1:rd2:id20:abcdefghij01234567895:nodes26:".to_vec();
    gr.extend(&n26);
    gr.extend(b"5:token8:aoeusnthe1:t2:aa1:y1:re");
    vec![
        Bep { name: "error", bytes: b"d1:eli201e23:A Generic Error Ocurrede1:t2:aa1:y1:ee".to_vec() },
        Bep { name: "ping_q", bytes: b"d1:ad2:id20:abcdefghij0123456789e1:q4:ping1:t2:aa1:y1:qe".to_vec() },
        Bep { name: "ping_r", bytes: b"d1:rd2:id20:mnopqrstuvwxyz123456e1:t2:aa1:y1:re".to_vec() },
        Bep { name: "find_node_q", bytes: b"d1:ad2:id20:abcdefghij01234567896:target20:mnopqrstuvwxyz123456e1:q9:find_node1:t2:aa1:y1:qe".to_vec() },
        Bep { name: "find_node_r", bytes: fr },
        Bep { name: "get_peers_q", bytes: b"d1:ad2:id20:abcdefghij01234567899:info_hash20:mnopqrstuvwxyz123456e1:q9:get_peers1:t2:aa1:y1:qe".to_vec() },
        Bep { name: "get_peers_r_values", bytes: b"d1:rd2:id20:abcdefghij01234567895:token8:aoeusnth6:valuesl6:axje.u6:idhtnmee1:t2:aa1:y1:re".to_vec() },
        Bep { name: "get_peers_r_nodes", bytes: gr },
        Bep { name: "announce_peer_q", bytes: b"d1:ad2:id20:abcdefghij012345678912:implied_porti1e9:info_hash20:mnopqrstuvwxyz1234564:porti6881e5:token8:aoeusnthe1:q13:announce_peer1:t2:aa1:y1:qe".to_vec() },
        Bep { name: "ping_q_tid4", bytes: b"d1:ad2:id20:abcdefghij0123456789e1:q4:ping1:t4:aabb1:y1:qe".to_vec() },
    ]
}
fn bep_expect(name: &str, m: &WireMessage) -> bool {
    let id = |s: &[u8]| Id::from_bytes(s).expect("id");
    if m.transaction_id != if name.ends_with("tid4") { 0x61616262 } else { 0x6161 } {
        return false;
    }
    match (name, &m.message_type) {
        ("error", MessageType::Error(e)) => e.code == 201 && e.description == "A Generic Error Ocurred",
        ("ping_q", MessageType::Request(r)) | ("ping_q_tid4", MessageType::Request(r)) => r.requester_id == id(b"abcdefghij0123456789") && r.request_type == RequestTypeSpecific::Ping,
        ("ping_r", MessageType::Response(ResponseSpecific::Ping(p))) => p.responder_id == id(b"mnopqrstuvwxyz123456"),
        ("find_node_q", MessageType::Request(r)) => matches!(&r.request_type, RequestTypeSpecific::FindNode(a) if a.target == id(b"mnopqrstuvwxyz123456")),
        ("find_node_r", MessageType::Response(ResponseSpecific::FindNode(a))) => a.nodes.len() == 1 && a.nodes[0].address() == SocketAddrV4::new(Ipv4Addr::new(1, 2, 3, 4), 6881),
        ("get_peers_q", MessageType::Request(r)) => matches!(&r.request_type, RequestTypeSpecific::GetPeers(a) if a.info_hash == id(b"mnopqrstuvwxyz123456")),
        ("get_peers_r_values", MessageType::Response(ResponseSpecific::GetPeers(a))) => &a.token[..] == b"aoeusnth" && a.values.len() == 2 && a.values[0] == SocketAddrV4::new(Ipv4Addr::new(b'a', b'x', b'j', b'e'), u16::from_be_bytes([b'.', b'u'])),
        ("get_peers_r_nodes", MessageType::Response(ResponseSpecific::NoValues(a))) => &a.token[..] == b"aoeusnth" && a.nodes.as_ref().map(|n| n.len()) == Some(1),
        ("announce_peer_q", MessageType::Request(r)) => matches!(&r.request_type, RequestTypeSpecific::Put(PutRequest { token, put_request_type: PutRequestSpecific::AnnouncePeer(a) }) if &token[..] == b"aoeusnth" && a.port == 6881 && a.implied_port == Some(true) && a.info_hash == id(b"mnopqrstuvwxyz123456")),
        _ => false,
    }
}

pub fn run(args: &Args) -> i32 {
    let mut out = Out::create(&args.str("out", "/verif/work/C10/trace.ndjson"));
    let l = labels();
    let mut n = 0u64;
    let mut samples = vec![];
    let mut panics = 0u64;
    if let Some(path) = args.get("in") {
        for line in std::fs::read_to_string(path).expect("read").lines() {
            let m: Value = match serde_json::from_str(line) {
                Ok(m) => m,
                Err(_) => continue,
            };
            let w = build(&m);
            let enc = std::panic::catch_unwind(|| w.encode());
            let mut ev = json!({"e":"msg","m":m,"encode_ok":false,"canonical":false,"dict":{},"decode_ok":false,"roundtrip":false,"panic":false});
            match enc {
                Err(_) => {
                    ev["panic"] = json!(true);
                    panics += 1;
                }
                Ok(Err(_)) => {}
                Ok(Ok(bytes)) => {
                    ev["encode_ok"] = json!(true);
                    if let Ok(d) = B::decode_canonical(&bytes) {
                        ev["canonical"] = json!(true);
                        ev["dict"] = label_dict(&l, &d);
                    } else if let Ok(d) = B::decode(&bytes) {
                        ev["dict"] = label_dict(&l, &d);
                    }
                    let b2 = bytes.clone();
                    match std::panic::catch_unwind(move || WireMessage::decode(&b2)) {
                        Err(_) => {
                            ev["panic"] = json!(true);
                            panics += 1;
                        }
                        Ok(Err(_)) => {}
                        Ok(Ok(back)) => {
                            ev["decode_ok"] = json!(true);
                            ev["roundtrip"] = json!(equivalent(&w, &back));
                        }
                    }
                }
            }
            if samples.len() < 3 && n % 400 == 7 {
                samples.push(ev.clone());
            }
            out.line(&ev);
            n += 1;
        }
    }
    let l2 = labels();
    let _ = l2;
    for b in bep_examples() {
        let bytes = b.bytes.clone();
        let dec = std::panic::catch_unwind(move || WireMessage::decode(&bytes));
        let mut ev = json!({"e":"bep","name":b.name,"decode_ok":false,"fields_ok":false,"reencode_identical":false,"reencode_identical_modulo_tid_width":false,"panic":false});
        match dec {
            Err(_) => ev["panic"] = json!(true),
            Ok(Err(_)) => {}
            Ok(Ok(m)) => {
                ev["decode_ok"] = json!(true);
                ev["fields_ok"] = json!(bep_expect(b.name, &m));
                if let Ok(re) = m.encode() {
                    if let Ok(mut d) = B::decode(&re) {
                        // version and ro aside
                        d.remove("v");
                        d.remove("ro");
                        ev["reencode_identical"] = json!(d.encode() == b.bytes);
                        // same comparison with the transaction id reduced to its original width
                        if let Some(t) = d.get("t").and_then(|t| t.as_bytes()).map(|t| t.to_vec()) {
                            if t.len() == 4 && t[0] == 0 && t[1] == 0 {
                                d.set("t", B::bytes(&t[2..]));
                            }
                        }
                        ev["reencode_identical_modulo_tid_width"] = json!(d.encode() == b.bytes);
                    }
                }
            }
        }
        out.line(&ev);
        n += 1;
    }
    out.finish();
    let summary = json!({"cases": n, "samples": samples, "panics": panics});
    if let Some(p) = args.get("summary") {
        crate::util::write_json(p, &summary);
    }
    println!("codec driver: cases={n} panics={panics}");
    0
}
