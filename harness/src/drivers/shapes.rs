//! C05 driver: every TLC-enumerated shape (base message + deviations) is serialised with the harness'
//! own encoder and (a) fed to the library decoder, (b) delivered unsolicited to a live server and a
//! live client, (c) used as the reply to a live node's own in-flight request, each followed by a
//! liveness probe; (d) error replies of every code answer real API puts of every kind through the
//! real wrappers (caller-side panics). Truncations and seeded byte mutations of every shape are
//! added. The verdict lines go to TLC (KrpcTrace, `shape` events).
use crate::bencode::B;
use crate::calls::{GetKind, Outcome};
use crate::crypto;
use crate::fakenet::*;
use crate::krpc::{self, Msg};
use crate::rng::Rng;
use crate::sim::*;
use crate::util::{Args, Out};
use dht::verif::{self as v, WireMessage};
use serde_json::{json, Value};
use std::net::{Ipv4Addr, SocketAddrV4};

fn big(s: &str) -> B {
    B::Raw(format!("i{s}e").into_bytes())
}

fn deviate(cur: Option<&B>, dev: &str) -> Option<B> {
    let cur_len = cur.and_then(|c| c.as_bytes()).map(|b| b.len()).unwrap_or(20);
    let fill = |n: usize| B::Bytes((0..n).map(|i| b'a' + (i % 26) as u8).collect());
    Some(match dev {
        "drop" => return None,
        "int0" => B::Int(0),
        "int-1" => B::Int(-1),
        "int65536" => B::Int(65536),
        "int2^31" => B::Int(1 << 31),
        "int2^63" => big("9223372036854775808"),
        "int-2^63" => B::Int(-(1i128 << 63)),
        "intbig" => big("1000000000000000000000000000000"),
        "bytes0" => fill(0),
        "bytes1" => fill(1),
        "bytes-1" => fill(cur_len.saturating_sub(1)),
        "bytes+1" => fill(cur_len + 1),
        "bytes3" => fill(3),
        "bytes5" => fill(5),
        "bytes18" => fill(18),
        "bytes2000" => fill(2000),
        "list" => B::List(vec![]),
        "listofint" => B::List((0..cur_len).map(|i| B::Int((i % 256) as i128)).collect()),
        "dict" => B::dict(),
        "elem-empty" | "elem-short" | "elem-double" | "elem-int" => {
            let mut l: Vec<B> = cur.and_then(|c| c.as_list()).map(|l| l.to_vec()).unwrap_or_default();
            if l.is_empty() {
                l.push(fill(6));
            }
            let first = l[0].as_bytes().map(|b| b.to_vec()).unwrap_or_default();
            l[0] = match dev {
                "elem-empty" => fill(0),
                "elem-short" => B::Bytes(first[..first.len().saturating_sub(1)].to_vec()),
                "elem-double" => B::Bytes([first.clone(), first].concat()),
                _ => B::Int(7),
            };
            B::List(l)
        }
        "text-nonutf8" => B::Bytes(vec![0xff, 0xfe, 0x00]),
        d if d.starts_with("utf8@") || d.starts_with("utf8w@") || d.starts_with("ascii@") => {
            let n: usize = d.rsplit('@').next().and_then(|x| x.parse().ok()).unwrap_or(1);
            let mut t = String::new();
            if d.starts_with("ascii@") {
                t.extend((0..n).map(|i| (b'a' + (i % 26) as u8) as char));
            } else if d.starts_with("utf8@") {
                // a 2-byte character occupying bytes n-1 and n: byte offset n is not a character boundary
                t.extend((0..n.saturating_sub(1)).map(|_| 'x'));
                t.push('é');
                t.extend((0..40).map(|_| 'y'));
            } else {
                t.extend((0..n.saturating_sub(2)).map(|_| 'x'));
                t.push('€');
                t.push('𝄞');
                t.extend((0..10).map(|_| 'z'));
            }
            B::Bytes(t.into_bytes())
        }
        _ => return cur.cloned(),
    })
}

fn apply(d: &mut B, path: &[String], dev: &str) {
    if path.len() == 1 {
        let k = &path[0];
        if dev == "dup-key" {
            if let B::Dict(m) = d {
                let mut raw: Vec<(Vec<u8>, B)> = m.iter().map(|(a, b)| (a.clone(), b.clone())).collect();
                if let Some(e) = raw.iter().find(|(a, _)| a == k.as_bytes()).cloned() {
                    raw.push(e);
                }
                *d = B::RawDict(raw);
            }
            return;
        }
        let cur = d.get(k).cloned();
        match deviate(cur.as_ref(), dev) {
            None => {
                d.remove(k);
            }
            Some(nv) => {
                d.set(k, nv);
            }
        }
    } else if let Some(inner) = d.get_mut(&path[0]) {
        // an element of a list (the error list [code, text]): path element = 1-based index
        if let (B::List(l), Ok(i)) = (&mut *inner, path[1].parse::<usize>()) {
            if i >= 1 && i <= l.len() {
                match deviate(Some(&l[i - 1].clone()), dev) {
                    None => {
                        l.remove(i - 1);
                    }
                    Some(nv) => l[i - 1] = nv,
                }
            }
            return;
        }
        apply(inner, &path[1..], dev);
    }
}

/// bytes of a shape
pub fn shape_bytes(sh: &Value) -> Option<Vec<u8>> {
    let w = super::codec::build_public(&sh["m"]);
    let base = w.encode().ok()?;
    let mut d = B::decode(&base).ok()?;
    for dv in sh["devs"].as_array()? {
        let path: Vec<String> = dv["path"].as_array()?.iter().map(|x| x.as_str().unwrap_or("").to_string()).collect();
        apply(&mut d, &path, dv["dev"].as_str().unwrap_or(""));
    }
    Some(d.encode())
}

fn set_tid(bytes: &[u8], tid: &[u8]) -> Vec<u8> {
    match B::decode(bytes) {
        Ok(mut d @ B::Dict(_)) => {
            if d.get("t").is_some() {
                d.set("t", B::bytes(tid));
            }
            d.encode()
        }
        _ => bytes.to_vec(),
    }
}

struct LiveServer {
    sim: Sim,
    s: usize,
    c: usize,
}
fn live_nodes(seed: u64) -> LiveServer {
    let mut sim = Sim::new(seed, NetCfg::default());
    let s = sim.add_node(NodeOpts::server(Ipv4Addr::new(45, 9, 0, 1), &[]));
    let c = sim.add_node(NodeOpts::client(Ipv4Addr::new(45, 9, 0, 2), &[]));
    LiveServer { sim, s, c }
}

/// liveness probe: the server answers a ping, the client still ticks
fn probe(l: &mut LiveServer) -> bool {
    if l.sim.nodes[l.s].panicked || l.sim.nodes[l.c].panicked {
        return false;
    }
    let from = SocketAddrV4::new(Ipv4Addr::new(45, 9, 0, 77), 4000);
    let ping = krpc::ping(77, &[9u8; 20], false).encode();
    let outs = l.sim.exchange(l.s, from, &ping);
    let ok = outs.iter().any(|d| d.to == from && Msg::parse(&d.bytes).map(|m| m.is_response()).unwrap_or(false));
    l.sim.poke(l.c);
    ok && !l.sim.nodes[l.s].panicked && !l.sim.nodes[l.c].panicked
}

/// (c): the shape as the reply to a real lookup / put of a fresh client
fn client_reply(bytes: &[u8], which: u64, seed: u64) -> (bool, bool) {
    let mut sim = Sim::new(seed, NetCfg { lat_min_ms: 1, lat_max_ms: 2, ..Default::default() });
    let ids: Vec<[u8; 20]> = (0..2).map(|i| [i as u8 + 3; 20]).collect();
    let shape = bytes.to_vec();
    let policy: Policy = Box::new(move |me, m, _w| {
        // peer 0 answers everything with the shape (tid copied); peer 1 stays honest
        if me.idx == 0 {
            Reply::One(B::Raw(set_tid(&shape, &m.tid)), 5)
        } else {
            Reply::Default
        }
    });
    let net = FakeNet::install(&mut sim, &ids, policy);
    let c = sim.add_node(NodeOpts::client(private_ip(9), &net.bootstrap()));
    sim.run_for(1500);
    let target = crypto::immutable_target(b"shape probe");
    let mut call = match which % 5 {
        0 => sim.call_get(c, GetKind::Immutable, target, "get"),
        1 => sim.call_get(c, GetKind::Mutable { salt: None, seq: None }, target, "getm"),
        2 => sim.call_get(c, GetKind::Peers, target, "peers"),
        3 => sim.call_get(c, GetKind::SignedPeers, target, "speers"),
        _ => {
            let v = b"shape probe".to_vec();
            sim.call_put(c, dht::PutRequestSpecific::PutImmutable(v::PutImmutableRequestArguments { target: target.into(), v: v.into() }), None, "put")
        }
    };
    sim.poke(c);
    let done = sim.run_calls(&mut [&mut call], 30_000);
    // a fresh call still completes afterwards
    let mut again = sim.call_get(c, GetKind::FindNode, [1u8; 20], "find");
    sim.poke(c);
    let done2 = sim.run_calls(&mut [&mut again], 30_000);
    let panicked = sim.nodes[c].panicked;
    (panicked, done && done2)
}

/// (e): well-formed replies to the node's own requests whose only peculiarity is WHEN they arrive: one reply of the i-th
/// lookup is delayed by delays[i] ms (on time, just below / above the 500 ms request timeout, seconds late). The node must
/// stay alive, answer a ping and complete a fresh call afterwards.
fn reply_timing(delays: &[u64], seed: u64) -> (bool, bool, bool) {
    use std::cell::RefCell;
    use std::rc::Rc;
    let mut sim = Sim::new(seed, NetCfg { lat_min_ms: 1, lat_max_ms: 2, ..Default::default() });
    let ids: Vec<[u8; 20]> = (0..3).map(|i| [i as u8 + 3; 20]).collect();
    // (current lookup, whether its delayed reply has been scheduled)
    let k = Rc::new(RefCell::new((0usize, false)));
    let armed = Rc::new(RefCell::new(false));
    let (k2, armed2, dl) = (k.clone(), armed.clone(), delays.to_vec());
    let policy: Policy = Box::new(move |_me, _m, _w| {
        if !*armed2.borrow() {
            return Reply::Default;
        }
        // the first request of the i-th lookup is answered after delays[i] ms, everything else promptly
        let (i, used) = *k2.borrow();
        if used {
            return Reply::Default;
        }
        k2.borrow_mut().1 = true;
        match dl.get(i) {
            Some(&d) => Reply::DefaultAfter(d),
            None => Reply::Default,
        }
    });
    let net = FakeNet::install(&mut sim, &ids, policy);
    let c = sim.add_node(NodeOpts::server(private_ip(9), &net.bootstrap()));
    sim.run_for(1500);
    *armed.borrow_mut() = true;
    let mut all_done = true;
    // one lookup per scheduled reply (3 peers answer each lookup: the schedule spreads over the lookups), spaced out so that
    // late replies of one lookup land during the next ones
    for i in 0..delays.len().max(1) {
        *k.borrow_mut() = (i, false);
        let mut call = sim.call_get(c, GetKind::FindNode, [0x40 + i as u8; 20], "find");
        sim.poke(c);
        all_done &= sim.run_calls(&mut [&mut call], 30_000);
        // replies up to 2.5 s late are read before the next lookup starts; later ones land during the following lookups
        sim.run_for(2700);
    }
    sim.run_for(7000);
    let mut again = sim.call_get(c, GetKind::Immutable, crypto::immutable_target(b"after timing"), "get");
    sim.poke(c);
    all_done &= sim.run_calls(&mut [&mut again], 30_000);
    let from = SocketAddrV4::new(Ipv4Addr::new(10, 9, 1, 1), 5000);
    let pong = sim.exchange(c, from, &krpc::ping(77, &[9u8; 20], false).encode());
    let answers = !pong.is_empty();
    let panicked = sim.nodes[c].panicked;
    (panicked, all_done, answers && !panicked)
}

/// (d): error replies to real API puts through the real async wrappers
fn api_errors(out: &mut Out, seed: u64, n: &mut u64) {
    for code in [201i64, 203, 205, 206, 207, 301, 302, 0, -1, 999] {
        for kind in ["put_immutable", "announce_peer", "announce_signed_peer", "put_mutable"] {
            let mut sim = Sim::new(seed ^ (code as u64) ^ 0x55, NetCfg { lat_min_ms: 1, lat_max_ms: 2, ..Default::default() });
            let ids: Vec<[u8; 20]> = (0..3).map(|i| [i as u8 + 3; 20]).collect();
            let policy: Policy = Box::new(move |_me, m, _w| {
                let q = m.q.clone().unwrap_or_default();
                if q == "put" || q.starts_with("announce") {
                    Reply::One(krpc::error(&m.tid, code, "nope"), 5)
                } else {
                    Reply::Default
                }
            });
            let net = FakeNet::install(&mut sim, &ids, policy);
            let c = sim.add_node(NodeOpts::client(private_ip(9), &net.bootstrap()).threaded());
            sim.run_for(1500);
            let k = kind.to_string();
            let mut call = sim.call_async(c, kind, move |d| {
                Box::pin(async move {
                    match k.as_str() {
                        "put_immutable" => json!(format!("{:?}", d.put_immutable(b"hello").await.map(|_| ()))),
                        "announce_peer" => json!(format!("{:?}", d.announce_peer(dht::Id::from([7u8; 20]), Some(9)).await.map(|_| ()))),
                        "announce_signed_peer" => json!(format!("{:?}", d.announce_signed_peer(dht::Id::from([7u8; 20]), &crypto::keypair(1)).await.map(|_| ()))),
                        _ => {
                            let item = dht::MutableItem::new(&crypto::keypair(1), b"hello", 3, None);
                            json!(format!("{:?}", d.put_mutable(item, None).await.map(|_| ())))
                        }
                    }
                })
            });
            sim.poke(c);
            let done = sim.run_calls(&mut [&mut call], 30_000);
            let caller_panic = matches!(call.outcome(), Some(Outcome::Panicked(_)));
            let node_panic = sim.nodes[c].panicked;
            out.line(&json!({"e":"shape","id":*n,"mode":"api","kind":kind,"code":code,
                "panic": caller_panic || node_panic, "alive_after": !node_panic, "call_done": done,
                "result": match call.outcome() { Some(Outcome::Value(v)) => v.clone(), Some(o) => json!(o.name()), None => json!("none") }}));
            *n += 1;
            sim.shutdown();
        }
    }
}

/// --replay: re-execute one recorded case (by its serialised bytes / api kind) on the current tree
fn replay(args: &Args) -> i32 {
    let seed = args.u64("seed", 1);
    let mut out = Out::create(&args.str("out", "/verif/work/C05/trace.ndjson"));
    let mode = args.str("replay-mode", "");
    let mut n = 0u64;
    if mode == "api" {
        api_errors(&mut out, seed, &mut n);
    } else if mode == "reply_timing" {
        let delays: Vec<u64> = args.str("replay-delays", "").split(',').filter_map(|x| x.parse().ok()).collect();
        let (panicked, done, alive) = reply_timing(&delays, seed);
        out.line(&json!({"e":"shape","id":0,"mode":"reply_timing","delays":delays,"panic":panicked,"alive_after":alive,"call_done":done}));
        n = 1;
    } else {
        let bytes = crate::bencode::unhex(&args.str("replay-bytes", ""));
        let b2 = bytes.clone();
        let dec_panic = std::panic::catch_unwind(move || WireMessage::decode(&b2).is_ok()).is_err();
        let mut live = live_nodes(seed);
        let from = SocketAddrV4::new(Ipv4Addr::new(45, 9, 1, 1), 5000);
        let _ = live.sim.exchange(live.s, from, &bytes);
        let _ = live.sim.exchange(live.c, from, &bytes);
        let alive = probe(&mut live);
        drop(live);
        out.line(&json!({"e":"shape","id":0,"mode":"decode+unsolicited","panic":dec_panic,"alive_after":alive,"call_done":true,"bytes":crate::bencode::hex(&bytes)}));
        for which in 0..5 {
            let (panicked, done) = client_reply(&bytes, which, seed);
            out.line(&json!({"e":"shape","id":1 + which,"mode":"client_reply","panic":panicked,"alive_after":!panicked,"call_done":done,"bytes":crate::bencode::hex(&bytes)}));
        }
        n = 6;
    }
    out.finish();
    if let Some(p) = args.get("summary") {
        crate::util::write_json(p, &json!({"cases": n, "lines": n, "distinct_shapes": 1, "panics": 0, "samples": []}));
    }
    0
}

/// A lookup among 24 peers each of which answers with `per` fabricated nodes (distinct public addresses nobody listens at, random
/// ids, the last one the bitwise complement of the target). Afterwards another call is made. -> (panicked, calls done, alive)
fn chatty(seed: u64, per: usize) -> (bool, bool, bool) {
    let mut sim = Sim::new(seed, NetCfg { lat_min_ms: 2, lat_max_ms: 8, ..Default::default() });
    let mut rng = Rng::new(seed ^ 0xC4A7);
    let ids: Vec<[u8; 20]> = (0..24).map(|_| rng.id()).collect();
    let target = rng.id();
    let mut far = target;
    for x in far.iter_mut() {
        *x = !*x;
    }
    let policy: Policy = Box::new(move |me, m, w| {
        let q = m.q.clone().unwrap_or_default();
        if m.target() != Some(target) || !(q == "find_node" || q == "get" || q == "get_peers") {
            return Reply::Default;
        }
        let mut listed: Vec<([u8; 20], SocketAddrV4)> = vec![];
        for k in 0..per {
            let serial = me.idx * 100 + k;
            let mut id = crypto::sha1(&[(serial >> 8) as u8, serial as u8, 9]);
            if k + 1 == per {
                id = far;
                id[19] ^= me.idx as u8; // distinct ids, all as far as it gets
            }
            listed.push((id, SocketAddrV4::new(Ipv4Addr::new(60 + (serial / 250) as u8, 7, 7, (serial % 250) as u8 + 1), 6881)));
        }
        Reply::One(lookup_reply(&krpc::compact_nodes(&listed), me, m, w, &[], q != "find_node"), 5 + me.idx as u64)
    });
    let net = FakeNet::install(&mut sim, &ids, policy);
    let c = sim.add_node(NodeOpts::client(private_ip(9), &net.bootstrap()));
    sim.run_for(2500);
    let mut c1 = sim.call_get(c, GetKind::Peers, target, "chatty");
    sim.poke(c);
    let d1 = sim.run_calls(&mut [&mut c1], 60_000);
    let mut c2 = sim.call_get(c, GetKind::FindNode, rng.id(), "after");
    sim.poke(c);
    let d2 = sim.run_calls(&mut [&mut c2], 30_000);
    let r = (sim.nodes[c].panicked, d1 && d2, sim.nodes[c].alive);
    sim.shutdown();
    r
}

pub fn run(args: &Args) -> i32 {
    if args.get("replay-mode").is_some() {
        return replay(args);
    }
    let seed = args.u64("seed", 1);
    let thorough = args.thorough();
    let mut rng = Rng::new(seed ^ 0xC05);
    let mut out = Out::create(&args.str("out", "/verif/work/C05/trace.ndjson"));
    let mut n = 0u64;
    let mut samples = vec![];
    let mut panics = 0u64;
    let mut distinct = std::collections::HashSet::new();
    let reply_stride = args.u64("reply-stride", if thorough { 1 } else { 4 });
    if let Some(path) = args.get("in") {
        let mut replies: Vec<(usize, Value, Vec<u8>)> = vec![];
        let mut live = live_nodes(seed);
        let text = std::fs::read_to_string(path).expect("read shapes");
        for (idx, line) in text.lines().enumerate() {
            let sh: Value = match serde_json::from_str(line) {
                Ok(s) => s,
                Err(_) => continue,
            };
            let bytes = match shape_bytes(&sh) {
                Some(b) => b,
                None => continue,
            };
            distinct.insert(bytes.clone());
            // variants: the shape itself, truncations, seeded mutations
            let mut variants: Vec<(String, Vec<u8>)> = vec![("shape".into(), bytes.clone())];
            let ntrunc = if thorough { bytes.len() } else { 3 };
            for _ in 0..ntrunc.min(bytes.len()) {
                let cut = rng.below(bytes.len() as u64) as usize;
                variants.push((format!("trunc{cut}"), bytes[..cut].to_vec()));
            }
            for _ in 0..(if thorough { 6 } else { 2 }) {
                let mut b = bytes.clone();
                for _ in 0..rng.range(1, 3) {
                    let i = rng.below(b.len() as u64) as usize;
                    b[i] = rng.below(256) as u8;
                }
                variants.push(("mut".into(), b));
            }
            for (vname, vb) in variants {
                // (a) decoder
                let vb2 = vb.clone();
                let dec_panic = std::panic::catch_unwind(move || WireMessage::decode(&vb2).is_ok()).is_err();
                // (b) unsolicited delivery to a live server and a live client
                let from = SocketAddrV4::new(Ipv4Addr::new(45, 9, 1, (n % 200) as u8 + 1), 5000);
                let _ = live.sim.exchange(live.s, from, &vb);
                let _ = live.sim.exchange(live.c, from, &vb);
                let mut alive = !live.sim.nodes[live.s].panicked && !live.sim.nodes[live.c].panicked;
                if alive && n % 64 == 0 {
                    alive = probe(&mut live);
                }
                let p = dec_panic || !alive;
                if p {
                    panics += 1;
                }
                let ev = json!({"e":"shape","id":n,"mode":"decode+unsolicited","variant":vname,"m":sh["m"]["kind"],"devs":sh["devs"],
                    "panic":dec_panic,"alive_after":alive,"call_done":true,"bytes": crate::bencode::hex(&vb[..vb.len().min(400)])});
                if samples.len() < 3 && idx % 997 == 5 {
                    samples.push(ev.clone());
                }
                out.line(&ev);
                n += 1;
                if !alive {
                    live = live_nodes(seed ^ n);
                }
            }
            let kind = sh["m"]["kind"].as_str().unwrap_or("");
            if (kind.starts_with("r_") || kind == "error") && (idx as u64) % reply_stride == 0 {
                replies.push((idx, sh.clone(), bytes.clone()));
            }
        }
        let alive_end = probe(&mut live);
        out.line(&json!({"e":"shape","id":n,"mode":"final_probe","panic":false,"alive_after":alive_end,"call_done":true}));
        n += 1;
        drop(live);
        // (c) as the reply to the node's own in-flight request (one simulation at a time)
        for (idx, sh, bytes) in replies {
            {
                let (panicked, done) = client_reply(&bytes, idx as u64, seed ^ idx as u64);
                if panicked || !done {
                    panics += 1;
                }
                out.line(&json!({"e":"shape","id":n,"mode":"client_reply","variant":"shape","m":sh["m"]["kind"],"devs":sh["devs"],
                    "panic":panicked,"alive_after":!panicked,"call_done":done,"bytes": crate::bencode::hex(&bytes[..bytes.len().min(400)])}));
                n += 1;
            }
        }
    }
    // (f) announcers whose clocks are not ours: a get_signed_peers lookup answered with GENUINELY signed records stamped an hour
    // ago, now, 1 s / 45 s / 1 h ahead of the reader's clock, 0, the largest value, "negative" values
    {
        let times = ["time_past_1h", "time_now", "time_future_1s", "time_future_45s", "time_future_1h", "time_zero", "time_max", "time_negative"];
        for (i, t) in times.iter().enumerate() {
            for pos in 0..3usize {
                let mut labels: Vec<String> = vec!["authentic".to_string(); 3];
                labels[pos] = t.to_string();
                // (every third run of the auth driver re-routes the victim's address first: keep b off those)
                let ev = crate::drivers::auth::run_one(3 * (i as u64 * 3 + pos as u64), "signed_peers", &labels, seed ^ 0x71);
                let panicked = ev["panicked"].as_bool().unwrap_or(true);
                let done = ev["done"].as_bool().unwrap_or(false);
                if panicked || !done {
                    panics += 1;
                }
                out.line(&json!({"e":"shape","id":n,"mode":"signed_times","variant":t,"kind":"get_signed_peers","pos":pos,
                    "panic":panicked,"alive_after":!panicked,"call_done":done,"yielded":ev["yielded"].as_array().map(|a| a.len()).unwrap_or(0)}));
                n += 1;
            }
        }
    }
    // (e) reply timing: every sequence of up to three delays (bounded-exhaustive), longer random ones in the thorough tier
    {
        const D: [u64; 8] = [5, 450, 505, 560, 700, 900, 2500, 6000];
        let mut seqs: Vec<Vec<u64>> = vec![];
        for a in D {
            seqs.push(vec![a]);
            for b in D {
                seqs.push(vec![a, b]);
                for c in D {
                    seqs.push(vec![a, b, c]);
                }
            }
        }
        if thorough {
            for _ in 0..600 {
                let len = 4 + rng.below(5) as usize;
                seqs.push((0..len).map(|_| D[rng.below(8) as usize]).collect());
            }
        }
        for (i, dl) in seqs.iter().enumerate() {
            if !thorough && dl.len() == 3 && i % 3 != 0 {
                continue;
            }
            let (panicked, done, alive) = reply_timing(dl, seed ^ i as u64);
            if panicked || !done || !alive || i % 97 == 0 {
                out.line(&json!({"e":"shape","id":n,"mode":"reply_timing","delays":dl,"panic":panicked,"alive_after":alive,"call_done":done}));
            }
            n += 1;
        }
        out.line(&json!({"e":"shape","id":n,"mode":"reply_timing_summary","count":seqs.len(),"panic":false,"alive_after":true,"call_done":true}));
    }
    // chatty responders: every answer to a lookup lists as many (fabricated, unreachable) nodes as fit in a datagram, the last of
    // them as far from the target as an id can be; one lookup collects well over a thousand candidates
    for (i, per) in (if thorough { vec![20usize, 50, 60, 70, 75] } else { vec![50usize, 75] }).iter().enumerate() {
        let (panicked, done, alive) = chatty(seed ^ (i as u64 * 57 + 3), *per);
        out.line(&json!({"e":"shape","id":n,"mode":"chatty_responders","per_answer":per,"panic":panicked,"alive_after":alive,"call_done":done}));
        n += 1;
    }
    api_errors(&mut out, seed, &mut n);
    // pure random datagrams
    let nrand = if thorough { 200_000 } else { 20_000 };
    let mut rp = 0u64;
    for _ in 0..nrand {
        let len = rng.range(0, 120) as usize;
        let mut b = rng.bytes(len);
        if rng.chance(1, 2) && !b.is_empty() {
            b[0] = b'd';
        }
        let b2 = b.clone();
        if std::panic::catch_unwind(move || WireMessage::decode(&b2).is_ok()).is_err() {
            rp += 1;
            out.line(&json!({"e":"shape","id":n,"mode":"random","panic":true,"alive_after":true,"call_done":true,"bytes":crate::bencode::hex(&b)}));
            n += 1;
        }
    }
    out.line(&json!({"e":"shape","id":n,"mode":"random_summary","count":nrand,"panic":false,"alive_after":true,"call_done":true}));
    n += 1;
    out.finish();
    let summary = json!({"cases": n + nrand, "lines": n, "distinct_shapes": distinct.len(), "panics": panics + rp, "samples": samples});
    if let Some(p) = args.get("summary") {
        crate::util::write_json(p, &summary);
    }
    println!("shapes driver: lines={n} panics={}", panics + rp);
    0
}
