//! C16 driver: one real (threaded) node whose `get_mutable_most_recent` (async flavour polled by hand,
//! sync flavour on a helper thread) runs against fake storage peers, each returning one authentic
//! item; the arrival order is set by per-peer reply delays. Records arrival order (from the datagram
//! log) and the API result for TLC (MostRecentTrace).
use crate::bencode::B;
use crate::calls::Outcome;
use crate::crypto;
use crate::fakenet::*;
use crate::krpc;
use crate::rng::Rng;
use crate::sim::*;
use crate::util::{Args, Out};
use dht::verif as v;
use serde_json::{json, Value};
use std::net::SocketAddrV4;

fn val_bytes(v: i64) -> Vec<u8> {
    vec![b'v', v as u8, b'!']
}

/// TLC integers are 32-bit: the pattern seqs -9 / 9 (the smallest / greatest any pattern uses) stand for the ends of the
/// i64 range, every other seq for itself. The mapping preserves the order, so the model's verdict carries over.
fn wide(s: i64) -> i64 {
    match s {
        -9 => i64::MIN,
        9 => i64::MAX,
        x => x,
    }
}
fn narrow(s: i64) -> i64 {
    if s == i64::MIN {
        -9
    } else if s == i64::MAX {
        9
    } else {
        s
    }
}

/// Run one arrival sequence; returns the trace line.
pub fn run_one(b: u64, arrived: &[(i64, i64)], sync: bool, seed: u64) -> Value {
    run_one_opts(b, arrived, sync, seed, false)
}

/// `by_order`: the k-th `get` request the peers receive (whoever receives it) is answered with the k-th item, so the stream
/// is delivered in the planned order whichever peers the lookup chooses to visit (long streams: more peers than one round)
pub fn run_one_opts(b: u64, arrived: &[(i64, i64)], sync: bool, seed: u64, by_order: bool) -> Value {
    run_one_full(b, arrived, sync, seed, by_order, false)
}

/// `with_put` (sync flavour): the node has a put_mutable of its own for the key in flight (seq -8, below every replica's) when the
/// call is made; the call joins that put's lookup, is handed the outgoing item first and then everything the replicas send.
pub fn run_one_full(b: u64, arrived: &[(i64, i64)], sync: bool, seed: u64, by_order: bool, with_put: bool) -> Value {
    let mut sim = Sim::new(seed ^ b, NetCfg { lat_min_ms: 1, lat_max_ms: 1, ..Default::default() });
    sim.record = true;
    let mut rng = Rng::new(seed ^ (b << 8));
    let n = arrived.len().max(1);
    let sk = crypto::keypair(3);
    let pk = sk.verifying_key().to_bytes();
    let salt: Option<Vec<u8>> = if b % 2 == 0 { None } else { Some(b"salty".to_vec()) };
    // by_order: the peers form groups of 16 that are closer and closer to the target (group g shares g leading bits with it);
    // the client knows group 0 only and the members of a group list their own and the next group, so the lookup walks through
    // every group and all n peers are asked - one round of a lookup asks the 20 closest only
    const GROUP: usize = 16;
    let target = crypto::mutable_target(&pk, salt.as_deref());
    let ids: Vec<[u8; 20]> = (0..n)
        .map(|i| {
            let mut id = rng.id();
            if by_order {
                let g = i / GROUP;
                for bit in 0..=g {
                    let (byte, mask) = (bit / 8, 0x80u8 >> (bit % 8));
                    let t = target[byte] & mask;
                    id[byte] = (id[byte] & !mask) | if bit < g { t } else { t ^ mask };
                }
            }
            id
        })
        .collect();
    let all: Vec<([u8; 20], SocketAddrV4)> = ids.iter().enumerate().map(|(i, id)| (*id, SocketAddrV4::new(fake_ip(i), 6881))).collect();
    let nodes = krpc::compact_nodes(&all);
    let group_nodes: Vec<Vec<u8>> = (0..=(n / GROUP))
        .map(|g| krpc::compact_nodes(&all.iter().enumerate().filter(|(i, _)| i / GROUP == g || i / GROUP == g + 1).map(|(_, x)| *x).collect::<Vec<_>>()))
        .collect();
    let group0 = krpc::compact_nodes(&all.iter().take(GROUP).cloned().collect::<Vec<_>>());
    let items: Vec<(i64, i64)> = arrived.to_vec();
    let salt2 = salt.clone();
    let sk2 = sk.clone();
    let counter = std::sync::Arc::new(std::sync::atomic::AtomicUsize::new(0));
    let policy: Policy = Box::new(move |me, m, w| {
        let k = if m.q.as_deref() == Some("get") && by_order { counter.fetch_add(1, std::sync::atomic::Ordering::SeqCst) } else { me.idx };
        if m.q.as_deref() == Some("get") && k < items.len() {
            let (seq, val) = items[k];
            let seq = wide(seq);
            let vb = val_bytes(val);
            let sig = crypto::sign_mutable(&sk2, seq, &vb, salt2.as_deref());
            let extra = [
                ("v", B::bytes(&vb)),
                ("k", B::bytes(pk)),
                ("sig", B::bytes(sig)),
                ("seq", B::Int(seq as i128)),
            ];
            // peer i answers after 20 + 15*i ms: arrival order = index order
            let listed = if by_order { &group_nodes[me.idx / GROUP] } else { &nodes };
            // (a request expires after 500 ms at the earliest - socket.rs MIN_REQUEST_TIMEOUT -, and a reply to an expired
            // request is not part of the lookup: every reply of a long stream stays well below that)
            return Reply::One(lookup_reply(listed, me, m, w, &extra, true), if by_order { 20 + 5 * k.min(80) as u64 } else { 20 + 15 * k as u64 });
        }
        if by_order && m.q.as_deref() == Some("get") {
            return Reply::One(lookup_reply(&group_nodes[me.idx / GROUP], me, m, w, &[], true), 20 + 5 * k.min(80) as u64);
        }
        if by_order && m.q.as_deref() == Some("find_node") {
            // the bootstrap lookup learns group 0 only
            return Reply::One(lookup_reply(&group0, me, m, w, &[], false), 1);
        }
        Reply::Default
    });
    let net = FakeNet::install(&mut sim, &ids, policy);
    let boot = if arrived.is_empty() { vec![net.bootstrap()[0].clone()] } else if by_order { net.bootstrap().into_iter().take(GROUP).collect() } else { net.bootstrap() };
    let c = sim.add_node(NodeOpts::client(private_ip(1), &boot).threaded());
    sim.run_for(3000); // initial bootstrap lookup settles
    let log_start = sim.log.len();
    let result: Value;
    let mut hung = false;
    if !sync {
        let salt3 = salt.clone();
        let mut call = sim.call_async(c, "most_recent", move |d| {
            Box::pin(async move {
                let r = d.get_mutable_most_recent(&pk, salt3.as_deref()).await;
                match r {
                    Some(it) => json!([narrow(it.seq()), it.value().get(1).cloned().unwrap_or(255)]),
                    None => json!([0, 0]),
                }
            })
        });
        sim.poke(c);
        let done = sim.run_calls(&mut [&mut call], 60_000);
        hung = !done;
        result = match call.outcome() {
            Some(Outcome::Value(v)) => v.clone(),
            Some(Outcome::Panicked(_)) => json!([-2, -2]),
            _ => json!([-3, -3]),
        };
    } else {
        let d = sim.dht(c);
        if with_put {
            let before = v::dht_queue_len(&d);
            let (d3, sk3, salt4) = (d.clone(), sk.clone(), salt.clone());
            // (the helper is left behind: the put completes after the call that is being judged)
            let _ = std::thread::spawn(move || {
                let item = dht::MutableItem::new(&sk3, &val_bytes(1), wide(-8), salt4.as_deref());
                let _ = d3.put_mutable(item, None);
            });
            let t0 = std::time::Instant::now();
            while v::dht_queue_len(&d) == before && t0.elapsed() < WATCHDOG {
                std::thread::yield_now();
            }
        }
        let before = v::dht_queue_len(&d);
        let salt3 = salt.clone();
        let d2 = d.clone();
        let h = std::thread::spawn(move || d2.get_mutable_most_recent(&pk, salt3.as_deref()));
        // the helper sends exactly one message; wait until it is queued so that the tick that consumes it is
        // the same on every run
        let t0 = std::time::Instant::now();
        while v::dht_queue_len(&d) == before && !h.is_finished() && t0.elapsed() < WATCHDOG {
            std::thread::yield_now();
        }
        sim.poke(c);
        let limit = sim.now_ns() + 60_000 * MS;
        while !h.is_finished() && sim.now_ns() < limit {
            sim.step(limit);
            if sim.pending_datagrams() == 0 {
                std::thread::sleep(std::time::Duration::from_micros(50));
            }
        }
        if h.is_finished() {
            result = match h.join() {
                Ok(Some(it)) => json!([narrow(it.seq()), it.value().get(1).cloned().unwrap_or(255)]),
                Ok(None) => json!([0, 0]),
                Err(_) => json!([-2, -2]),
            };
        } else {
            hung = true;
            result = json!([-3, -3]);
            // leak the helper; the node is shut down below which ends the stream
        }
    }
    // the lookup goes on in the node even when the call has returned (a fold that stops reading early): let every reply
    // that is under way arrive.  On a call that returns at the end of the lookup nothing is under way any more
    if !hung {
        sim.run_for(1000);
    }
    // arrival order as seen on the wire: authentic mutable replies delivered to the client during the lookup
    let caddr = sim.nodes[c].addr;
    let mut arr: Vec<(u64, i64, i64)> = vec![];
    for r in &sim.log[log_start..] {
        if r.to == caddr && !r.delivered_ns.is_empty() {
            if let Some(m) = &r.msg {
                if m.response_kind() == "mutable" {
                    let seq = narrow(m.arg_int("seq").unwrap_or(-8) as i64);
                    let val = m.arg_bytes("v").and_then(|x| x.get(1).cloned()).unwrap_or(255) as i64;
                    arr.push((r.delivered_ns[0], seq, val));
                }
            }
        }
    }
    arr.sort();
    if let Ok(path) = std::env::var("MR_DUMP") {
        let mut o = String::new();
        for r in &sim.log[log_start..] {
            let m = r.msg.as_ref();
            o.push_str(&format!("{} {} -> {} {} {:?} tid={:?} delivered={:?}\n", r.sent_ns / 1_000_000, r.from, r.to,
                m.map(|m| m.q.clone().unwrap_or(m.response_kind().to_string())).unwrap_or_default(),
                m.and_then(|m| m.arg_int("seq")), m.and_then(|m| m.tid_u32()), r.delivered_ns.iter().map(|x| x / 1_000_000).collect::<Vec<_>>()));
        }
        let _ = std::fs::write(path, o);
    }
    sim.shutdown();
    // the node's own outgoing item is handed to the caller first
    let mut arrived_json: Vec<Value> = if with_put && sync { vec![json!([-8, 1])] } else { vec![] };
    arrived_json.extend(arr.iter().map(|(_, s, v)| json!([s, v])));
    json!({"e":"run","b":b,"flavour": if sync {"sync"} else {"async"},"with_put": with_put && sync,
        "arrived": arrived_json,
        "planned": arrived.iter().map(|(s, v)| json!([s, v])).collect::<Vec<_>>(),
        "by_order": by_order,
        "status": if hung { "hang" } else if result == json!([-2, -2]) { "panic" } else { "ok" },
        "result": result, "hung": hung})
}

pub fn run(args: &Args) -> i32 {
    let seed = args.u64("seed", 1);
    let mut out = Out::create(&args.str("out", "/verif/work/C16/trace.ndjson"));
    let mut samples = vec![];
    // --b0: number the runs from here (replay of one run under its original number, which seeds the peers' ids)
    let mut b = args.u64("b0", 0);
    let mut distinct = std::collections::HashSet::new();
    let force_put = std::cell::Cell::new(false);
    let mut emit = |arrived: Vec<(i64, i64)>, sync: bool, out: &mut Out, samples: &mut Vec<Value>, b: &mut u64| {
        // every third sync run: the node has a put of its own for the key in flight when the call is made
        let line = run_one_full(*b, &arrived, sync, seed, false, sync && (*b % 3 == 1 || force_put.get()));
        if samples.len() < 3 && arrived.len() >= 3 {
            samples.push(line.clone());
        }
        out.line(&line);
        *b += 1;
    };
    if let Some(path) = args.get("in") {
        let text = std::fs::read_to_string(path).expect("read gen");
        let stride = args.u64("sync-every", 4);
        for (i, line) in text.lines().enumerate() {
            if let Ok(g) = serde_json::from_str::<Value>(line) {
                let arrived: Vec<(i64, i64)> = g["arrived"].as_array().map(|a| a.iter().map(|x| (x[0].as_i64().unwrap_or(0), x[1].as_i64().unwrap_or(0))).collect()).unwrap_or_default();
                if arrived.len() >= 2 {
                    distinct.insert(format!("{arrived:?}"));
                }
                force_put.set(g["with_put"].as_bool() == Some(true));
                if g["by_order"].as_bool() == Some(true) {
                    // replay of a long stream
                    let line = run_one_opts(b, &arrived, args.u64("sync-every", 4) == 1, seed, true);
                    out.line(&line);
                    b += 1;
                    continue;
                }
                emit(arrived.clone(), false, &mut out, &mut samples, &mut b);
                if i as u64 % stride == 0 {
                    emit(arrived, true, &mut out, &mut samples, &mut b);
                }
            }
        }
    }
    // random longer streams
    let mut rng = Rng::new(seed.wrapping_mul(1234567));
    for i in 0..args.u64("random", 40) {
        let n = rng.range(5, if args.thorough() { 60 } else { 40 }) as usize;
        // every other stream draws from two or three items only (replicas that mostly agree: long runs of identical copies)
        let alphabet: Vec<(i64, i64)> = if i % 2 == 0 { vec![] } else { (0..rng.range(2, 3)).map(|_| (rng.below(6) as i64, rng.range(1, 3) as i64)).collect() };
        let arrived: Vec<(i64, i64)> = (0..n).map(|_| if alphabet.is_empty() { (rng.below(6) as i64, rng.range(1, 3) as i64) } else { *rng.pick(&alphabet) }).collect();
        distinct.insert(format!("{arrived:?}"));
        if n > 12 {
            let line = run_one_opts(b, &arrived, i % 5 == 0, seed, true);
            out.line(&line);
            b += 1;
        } else {
            emit(arrived, i % 5 == 0, &mut out, &mut samples, &mut b);
        }
    }
    // stale majorities: k identical copies of one item (as many replicas holding the old version), then a better one (greater
    // seq / same seq and greater value), optionally followed by more copies - a fold that stops reading once "enough" copies
    // agree, or that counts confirmations, only shows with k around the bucket size
    if args.u64("random", 40) > 0 {
        let ks: &[usize] = if args.thorough() { &[3, 8, 15, 18, 19, 20, 21, 22, 25, 30, 40] } else { &[8, 19, 20, 21, 25] };
        let mut j = 0u64;
        for &k in ks {
            for better in [(2i64, 1i64), (1, 3), (5, 2)] {
                for tail in [0usize, 2] {
                    let mut arrived: Vec<(i64, i64)> = vec![(1, 2); k];
                    arrived.push(better);
                    arrived.extend(std::iter::repeat((1, 2)).take(tail));
                    distinct.insert(format!("{arrived:?}"));
                    let line = run_one_opts(b, &arrived, j % 3 == 0, seed, true);
                    out.line(&line);
                    b += 1;
                    j += 1;
                }
            }
        }
    }
    out.finish();
    let summary = json!({"runs": b, "distinct_nontrivial": distinct.len(), "samples": samples});
    if let Some(p) = args.get("summary") {
        crate::util::write_json(p, &summary);
    }
    println!("mostrecent driver: runs={b}");
    0
}
