//! C06 / C20(leak) driver: API call scenarios on one real node (inline, or threaded through the
//! production run loop) against fake peers, under fault plans enumerated by TLC (QueryPlans.tla):
//! the i-th reply of the scenario is dropped / duplicated / late / slow, or the peer that receives the
//! i-th request crashes. Per call: outcome count, completion time, addresses contacted, largest request
//! timeout reported; after a quiet period the H4 snapshot (leak check). Judged by QueryTrace.tla.
use crate::bencode::B;
use crate::calls::{Call, GetKind};
use crate::crypto;
use crate::fakenet::*;
use crate::krpc;
use crate::sim::*;
use crate::util::{Args, Out};
use dht::verif as v;
use dht::{Id, PutRequestSpecific};
use serde_json::{json, Value};
use std::cell::RefCell;
use std::collections::{HashMap, HashSet};
use std::net::SocketAddrV4;
use std::rc::Rc;

#[derive(Clone)]
struct CallSpec {
    label: &'static str,
    op: &'static str, // get | put | fn | closest | peers | announce | boot
    target: &'static str, // A | B | self
    after: Option<usize>, // start after this call is done; None = at once
    during_store: Option<usize>, // start once this put's store requests are on the wire (its lookup is over)
}

fn scenario(name: &str) -> Vec<CallSpec> {
    let c = |label, op, target, after| CallSpec { label, op, target, after, during_store: None };
    let ds = |label, op, target, put| CallSpec { label, op, target, after: None, during_store: Some(put) };
    match name {
        "get_hit" => vec![c("g", "get", "A", None)],
        "get_miss" => vec![c("g", "get", "B", None)],
        "put" => vec![c("p", "put", "A", None)],
        "find_node" => vec![c("f", "fn", "A", None)],
        "fn_then_put" => vec![c("f", "fn", "A", None), c("p", "put", "A", Some(0))],
        "fn_and_put" => vec![c("f", "fn", "A", None), c("p", "put", "A", None)],
        "put_and_get" => vec![c("p", "put", "A", None), c("g", "get", "A", None)],
        "get_get" => vec![c("g1", "get", "A", None), c("g2", "get", "A", None)],
        "get_put_diff" => vec![c("g", "get", "A", None), c("p", "put", "B", None)],
        "dead_boot" => vec![c("g", "get", "A", None), c("f", "fn", "self", None)],
        "closest" => vec![c("c", "closest", "A", None)],
        "put_put_same" => vec![c("p1", "put", "A", None), c("p2", "put", "A", None)],
        "peers" => vec![c("a", "announce", "A", None), c("g", "peers", "A", Some(0))],
        "get_then_put" => vec![c("g", "get", "A", None), c("p", "put", "A", Some(0))],
        "putmut_getmut_seq" => vec![c("p", "putmut", "M", None), ds("g", "getmut_seq", "M", 0)],
        "putmut_getmut" => vec![c("p", "putmut", "M", None), ds("g", "getmut", "M", 0)],
        "put_get_during_store" => vec![c("p", "put", "A", None), ds("g", "get", "A", 0)],
        "putmut_twice_cached" => vec![c("p1", "putmut", "M", None), c("p2", "putmut2", "M", Some(0)), ds("g", "getmut_seq", "M", 1)],
        // an announce while a lookup of the info_hash is in flight - of the same flavour (peers / signed peers) and of the OTHER one
        "peers_announce" => vec![c("g", "peers", "A", None), c("a", "announce", "A", None)],
        "peers_sannounce" => vec![c("g", "peers", "A", None), c("a", "sannounce", "A", None)],
        "speers_announce" => vec![c("g", "speers", "A", None), c("a", "announce", "A", None)],
        "speers_sannounce" => vec![c("g", "speers", "A", None), c("a", "sannounce", "A", None)],
        "three" => vec![c("f", "fn", "A", None), c("p", "put", "A", None), c("g", "get", "A", None)],
        _ => vec![c("g", "get", "A", None)],
    }
}

fn specs_have_during_store(name: &str) -> bool {
    scenario(name).iter().any(|c| c.during_store.is_some())
}

struct Faults {
    drop: HashSet<usize>,
    dup: HashSet<usize>,
    late: HashSet<usize>,
    slow: HashSet<usize>,
    crash_at: HashSet<usize>,
    crashed: HashSet<usize>,
    next: usize,
}

pub fn run_plan(b: u64, plan: &Value, seed: u64) -> Value {
    let name = plan["scenario"].as_str().unwrap_or("get_hit").to_string();
    let threaded = plan["threaded"].as_bool().unwrap_or(false);
    let mut sim = Sim::new(seed ^ b, NetCfg { lat_min_ms: 10, lat_max_ms: 10, ..Default::default() });
    sim.record = true;
    let ids: Vec<[u8; 20]> = (0..4).map(|i| crypto::sha1(&[i as u8, 99])).collect();
    let val = b"the stored value".to_vec();
    let ta = crypto::immutable_target(&val);
    let tb = crypto::immutable_target(b"another value");
    let msk = crypto::keypair(6);
    let tm = crypto::mutable_target(&msk.verifying_key().to_bytes(), None);
    let mut f = Faults { drop: HashSet::new(), dup: HashSet::new(), late: HashSet::new(), slow: HashSet::new(), crash_at: HashSet::new(), crashed: HashSet::new(), next: 0 };
    for ft in plan["faults"].as_array().cloned().unwrap_or_default() {
        let i = ft["i"].as_u64().unwrap_or(0) as usize;
        match ft["kind"].as_str().unwrap_or("") {
            "drop" => f.drop.insert(i),
            "dup" => f.dup.insert(i),
            "late" => f.late.insert(i),
            "slow" => f.slow.insert(i),
            _ => f.crash_at.insert(i),
        };
    }
    let faults = Rc::new(RefCell::new(f));
    let armed = Rc::new(RefCell::new(false));
    let (f2, armed2) = (faults.clone(), armed.clone());
    let all: Vec<([u8; 20], SocketAddrV4)> = ids.iter().enumerate().map(|(i, id)| (*id, SocketAddrV4::new(fake_ip(i), 6881))).collect();
    let nodes = krpc::compact_nodes(&all);
    let val2 = val.clone();
    let dead = name == "dead_boot";
    let slow_store = specs_have_during_store(&name);
    let policy: Policy = Box::new(move |me, m, w| {
        if dead {
            return Reply::Silent;
        }
        let q = m.q.clone().unwrap_or_default();
        let base: B = if q == "get" && me.idx == 1 && m.target() == Some(ta) {
            lookup_reply(&nodes, me, m, w, &[("v", B::bytes(&val2))], true)
        } else if q == "get" || q == "get_peers" || q == "get_signed_peers" {
            lookup_reply(&nodes, me, m, w, &[], true)
        } else if q == "find_node" {
            lookup_reply(&nodes, me, m, w, &[], false)
        } else {
            krpc::response(&m.tid, &me.id, B::dict(), Some(&w.from))
        };
        if q == "put" && slow_store {
            return Reply::One(base, 200);
        }
        if !*armed2.borrow() {
            return Reply::One(base, 10);
        }
        let mut f = f2.borrow_mut();
        let i = f.next;
        f.next += 1;
        if f.crash_at.contains(&i) {
            f.crashed.insert(me.idx);
        }
        if f.crashed.contains(&me.idx) || f.drop.contains(&i) {
            return Reply::Silent;
        }
        if f.dup.contains(&i) {
            return Reply::Many(vec![(10, base.clone()), (40, base)]);
        }
        if f.late.contains(&i) {
            return Reply::One(base, 700);
        }
        if f.slow.contains(&i) {
            return Reply::One(base, 300);
        }
        Reply::One(base, 10)
    });
    let net = FakeNet::install(&mut sim, &ids, policy);
    let mut o = NodeOpts::client(private_ip(2), &net.bootstrap());
    if threaded {
        o = o.threaded();
    }
    let c = sim.add_node(o);
    sim.run_for(2500);
    *armed.borrow_mut() = true;
    let caddr = sim.nodes[c].addr;
    let self_id = sim.snapshot(c).map(|s| crate::bencode::unhex(&s.id)).unwrap_or_default();
    let mut self_id20 = [0u8; 20];
    if self_id.len() == 20 {
        self_id20.copy_from_slice(&self_id);
    }
    let specs = scenario(&name);
    let mut calls: Vec<Option<Call>> = specs.iter().map(|_| None).collect();
    let t0 = sim.now_ns();
    let log0 = sim.log.len();
    let limit = sim.now_ns() + 120_000 * MS;
    let mut tmax = 0u64;
    let mut last_sample = 0u64;
    loop {
        let now = sim.now_ns();
        let mut started_one = false;
        for i in 0..specs.len() {
            if calls[i].is_none() {
                let ready = match (specs[i].after, specs[i].during_store) {
                    (_, Some(j)) => {
                        // the put's store requests have reached a peer, it has not completed yet
                        let put_target = if specs[j].target == "M" { tm } else if specs[j].target == "A" { ta } else { tb };
                        calls[j].as_ref().map(|c| !c.done()).unwrap_or(false)
                            && net.seen().iter().any(|s| s.msg.q.as_deref() == Some("put") && s.msg.target() == Some(put_target))
                    }
                    (None, None) => true,
                    (Some(j), None) => calls[j].as_ref().map(|c| c.done()).unwrap_or(false),
                };
                if ready {
                    let t = match specs[i].target {
                        "A" => ta,
                        "B" => tb,
                        "M" => tm,
                        _ => self_id20,
                    };
                    let call = match specs[i].op {
                        "get" => sim.call_get(c, GetKind::Immutable, t, specs[i].label),
                        "getmut" => sim.call_get(c, GetKind::Mutable { salt: None, seq: None }, t, specs[i].label),
                        "getmut_seq" => sim.call_get(c, GetKind::Mutable { salt: None, seq: Some(1) }, t, specs[i].label),
                        "putmut" | "putmut2" => {
                            let seq = if specs[i].op == "putmut" { 1 } else { 2 };
                            let item = dht::MutableItem::new(&msk, format!("mutable v{seq}").as_bytes(), seq, None);
                            let cas = if seq == 2 { Some(1) } else { None };
                            sim.call_put(c, PutRequestSpecific::PutMutable(v::PutMutableRequestArguments::from(item, cas)), None, specs[i].label)
                        }
                        "fn" => sim.call_get(c, GetKind::FindNode, t, specs[i].label),
                        "closest" => sim.call_get(c, GetKind::ClosestNodes, t, specs[i].label),
                        "peers" => sim.call_get(c, GetKind::Peers, t, specs[i].label),
                        "speers" => sim.call_get(c, GetKind::SignedPeers, t, specs[i].label),
                        "sannounce" => {
                            let sk = crypto::keypair(9);
                            let ts = v::unix_micros();
                            let sig = crypto::sign(&sk, &crypto::announce_signable(&t, ts));
                            sim.call_put(c, PutRequestSpecific::AnnounceSignedPeer(v::AnnounceSignedPeerRequestArguments { info_hash: Id::from(t), t: ts, k: sk.verifying_key().to_bytes(), sig }), None, specs[i].label)
                        }
                        "announce" => sim.call_put(c, PutRequestSpecific::AnnouncePeer(v::AnnouncePeerRequestArguments { info_hash: Id::from(t), port: 9, implied_port: None }), None, specs[i].label),
                        _ => {
                            let value: &[u8] = if specs[i].target == "A" { &val } else { b"another value" };
                            sim.call_put(c, PutRequestSpecific::PutImmutable(v::PutImmutableRequestArguments { target: Id::from(t), v: value.into() }), None, specs[i].label)
                        }
                    };
                    calls[i] = Some(call);
                    started_one = true;
                }
            }
        }
        if started_one {
            sim.poke(c);
        }
        for call in calls.iter_mut().flatten() {
            call.poll(now);
        }
        if calls.iter().all(|c| c.as_ref().map(|c| c.done()).unwrap_or(false)) {
            break;
        }
        if now - last_sample > 250 * MS {
            last_sample = now;
            if let Some(s) = sim.snapshot(c) {
                tmax = tmax.max(s.inflight.timeout_ns);
            }
        }
        if !sim.step(limit) || !sim.nodes[c].alive {
            break;
        }
    }
    let all_done_ns = sim.now_ns();
    if let Some(s) = sim.snapshot(c) {
        tmax = tmax.max(s.inflight.timeout_ns);
    }
    // quiet period: outstanding requests time out, late replies arrive, then look for leftovers
    sim.run_for(3 * (tmax / MS).max(500) + 2000);
    let now = sim.now_ns();
    for call in calls.iter_mut().flatten() {
        call.poll(now);
    }
    let snap = sim.snapshot(c);
    // per-call contacted addresses: requests sent by the node between call start and completion
    let mut out_calls = vec![];
    for (i, call) in calls.iter().enumerate() {
        let call = match call {
            Some(c) => c,
            None => {
                out_calls.push(json!({"label":specs[i].label,"op":specs[i].op,"started":false,"done":false,"outcomes":0,"result":"never","dur_ms":-1,"contacted":0}));
                continue;
            }
        };
        let end = call.done_ns().unwrap_or(all_done_ns);
        let mut contacted: HashMap<SocketAddrV4, u32> = HashMap::new();
        for r in &sim.log[log0..] {
            if r.from == caddr && r.sent_ns >= call.start_ns && r.sent_ns <= end {
                if r.msg.as_ref().map(|m| m.is_request()).unwrap_or(false) {
                    *contacted.entry(r.to).or_insert(0) += 1;
                }
            }
        }
        out_calls.push(json!({"label":call.label,"op":specs[i].op,"started":true,"done":call.done(),"outcomes":call.outcomes.len(),
            "result":call.outcome().map(|o| o.name()).unwrap_or("pending".into()),"items":call.items.len(),
            "start_ms":(call.start_ns - t0) / MS,"dur_ms": if call.done() { ((end - call.start_ns) / MS) as i64 } else { -1 },
            "contacted":contacted.len()}));
    }
    let (leak, leak_desc) = match &snap {
        Some(s) => {
            let own_bootstrap = |t: &String| *t == s.id && s.routing_table.size == 0 && !s.bootstrap.is_empty();
            let q: Vec<&String> = s.queries.iter().map(|q| &q.target).filter(|t| !own_bootstrap(t)).collect();
            let leak = !q.is_empty() || !s.puts.is_empty() || !s.put_senders.is_empty() || !s.get_senders.is_empty();
            (leak, json!({"queries": q.len(), "puts": s.puts.len(), "put_senders": s.put_senders.len(), "get_senders": s.get_senders.len(),
                "inflight_live": s.inflight.live, "inflight_total": s.inflight.total}))
        }
        None => (false, json!({"queries": 0, "puts": 0, "put_senders": 0, "get_senders": 0, "inflight_live": 0, "inflight_total": 0})),
    };
    let live = snap.as_ref().map(|s| s.inflight.live).unwrap_or(0);
    let own_boot_active = snap.as_ref().map(|s| s.queries.iter().any(|q| q.target == s.id)).unwrap_or(false);
    // replies the node may have PROCESSED 500 ms or more after their request was sent (only those may raise the
    // timeout); a delivered datagram is read at the node's next tick, at most one cadence later
    let mut sent_at: HashMap<(SocketAddrV4, Vec<u8>), u64> = HashMap::new();
    let mut slow_replies = 0;
    for r in &sim.log {
        if let Some(m) = &r.msg {
            if r.from == caddr && m.is_request() {
                sent_at.insert((r.to, m.tid.clone()), r.sent_ns);
            } else if r.to == caddr && !m.is_request() {
                if let (Some(s), Some(d)) = (sent_at.get(&(r.from, m.tid.clone())), r.delivered_ns.first()) {
                    if d - s + sim.cfg.cadence_ms * MS >= 500 * MS {
                        slow_replies += 1;
                    }
                }
            }
        }
    }
    let r = json!({"e":"scenario","b":b,"plan":plan,"calls":out_calls,"tmax_ms":tmax / MS,"cadence_ms":sim.cfg.cadence_ms,"slow_replies":slow_replies,
        "panicked":sim.nodes[c].panicked,"arith_panic":sim.nodes[c].panicked && crate::util::last_panic().contains("overflow"),
        "hung":sim.nodes[c].hung,"leak":leak,"leak_desc":leak_desc,
        "inflight_live_at_quiescence": if own_boot_active { 0 } else { live }});
    sim.shutdown();
    r
}

/// C20 (cache capacity and statistics mirror): many lookups of distinct targets and kinds on one node;
/// after each batch the H4 counters of both routing tables are compared with the aggregate over the
/// currently cached lookups.
fn run_cache(seed: u64, n: u64, out: &mut Out) -> (u64, Vec<Value>) {
    // a node on a private address never changes its id; a reachable node on a public address does, once the address its peers
    // report has been confirmed by the ping it sends to itself: the routing tables are rebuilt around the new id while lookups
    // are cached
    let (l1, mut samples) = run_cache_node(seed, n, out, false);
    let (l2, s2) = run_cache_node(seed, (n / 4).max(60), out, true);
    samples.extend(s2);
    (l1 + l2, samples)
}

fn run_cache_node(seed: u64, n: u64, out: &mut Out, public: bool) -> (u64, Vec<Value>) {
    let mut sim = Sim::new(seed ^ 0xCAC4E, NetCfg { lat_min_ms: 1, lat_max_ms: 1, cadence_ms: 100, ..Default::default() });
    let ids: Vec<[u8; 20]> = (0..4).map(|i| crypto::sha1(&[i as u8, 77])).collect();
    // outage windows: for a stretch of lookups the peers are silent (mode 1) or answer without a token (mode 2), so lookups of
    // every kind finish with ZERO responders; the hot targets are looked up in and out of the windows, so such entries are
    // overwritten by, and overwrite, ordinary ones
    let mode = std::rc::Rc::new(std::cell::RefCell::new(0u8));
    let mode2 = mode.clone();
    let net = FakeNet::install(&mut sim, &ids, Box::new(move |me, m, w| match *mode2.borrow() {
        1 => Reply::Silent,
        2 => {
            let q = m.q.clone().unwrap_or_default();
            if q == "get" || q == "get_peers" || q == "get_signed_peers" {
                Reply::One(lookup_reply(&[], me, m, w, &[], false), 1)
            } else {
                Reply::Default
            }
        }
        _ => Reply::Default,
    }));
    let c = sim.add_node(NodeOpts::client(if public { crate::sim::public_ip(77) } else { private_ip(2) }, &net.bootstrap()));
    let id0 = sim.snapshot(c).map(|s| s.id.clone()).unwrap_or_default();
    // the first lookups (the node's own id among them) are cached BEFORE the address is confirmed: a few lookups while the
    // bootstrap lookup is still on its way
    sim.run_for(2500);
    let mut rng = crate::rng::Rng::new(seed ^ 77);
    let mut lines = 0;
    let mut samples = vec![];
    let self_id = sim.snapshot(c).map(|s| crate::bencode::unhex(&s.id)).unwrap_or_default();
    let mut hot: Vec<[u8; 20]> = (0..5).map(|_| rng.id()).collect();
    if self_id.len() == 20 {
        hot[0].copy_from_slice(&self_id);
    }
    for i in 0..n {
        // mostly fresh targets (rolls the cache), sometimes a repeated one incl. the node's own id, of every kind
        *mode.borrow_mut() = match i % 220 {
            70..=84 => 1,
            150..=164 => 2,
            _ => 0,
        };
        let in_window = *mode.borrow() != 0;
        let t = if rng.chance(1, if in_window { 2 } else { 6 }) { *rng.pick(&hot) } else { rng.id() };
        let kind = match rng.below(6) {
            0 | 1 => GetKind::FindNode,
            2 => GetKind::SignedPeers,
            3 => GetKind::Peers,
            4 => GetKind::ClosestNodes,
            _ => GetKind::Immutable,
        };
        // every 120 lookups six quiet minutes pass: the tokens of every cached lookup go stale (5 minutes), ping rounds and the
        // refresh of the node's own id run; the hot targets are looked up again on both sides of such a pause
        if i % 120 == 119 {
            sim.run_for(6 * 60_000);
        }
        let mut call = sim.call_get(c, kind, t, "l");
        sim.poke(c);
        sim.run_calls(&mut [&mut call], 20_000);
        if i % 10 == 9 || i + 1 == n {
            if let Some(s) = sim.snapshot(c) {
                let f: Vec<&v::CacheSnap> = s.cache.iter().filter(|e| e.find_node).collect();
                let sg: Vec<&v::CacheSnap> = s.cache.iter().filter(|e| e.signed).collect();
                let g: Vec<&v::CacheSnap> = s.cache.iter().filter(|e| !e.find_node && !e.signed).collect();
                let close = |a: f64, b: f64| (a - b).abs() <= 1e-6 * a.abs().max(b.abs()).max(1.0);
                let m = &s.routing_table;
                let st = &s.signed_peers_routing_table;
                let main_dse: f64 = f.iter().chain(g.iter()).map(|e| e.dht_size_estimate).sum();
                let main_rdse: f64 = g.iter().map(|e| e.responders_dht_size_estimate).sum();
                let sig_dse: f64 = sg.iter().map(|e| e.dht_size_estimate).sum();
                let sig_rdse: f64 = sg.iter().map(|e| e.responders_dht_size_estimate).sum();
                let ev = json!({"e":"cache","b":i,"lookups":i + 1,"cache_len":s.cache.len(),"public":public,"rekeyed":s.id != id0,
                    "n_findnode":f.len(),"n_get":g.len(),"n_signed":sg.len(),
                    "main":{"dse_count":m.dht_size_estimates_count,"resp_count":m.responders_samples_count,"subnets_sum":m.responders_subnets_sum,
                            "dse_sum_ok":close(m.dht_size_estimates_sum, main_dse),"resp_sum_ok":close(m.responders_size_estimates_sum, main_rdse)},
                    "signed":{"dse_count":st.dht_size_estimates_count,"resp_count":st.responders_samples_count,"subnets_sum":st.responders_subnets_sum,
                            "dse_sum_ok":close(st.dht_size_estimates_sum, sig_dse),"resp_sum_ok":close(st.responders_size_estimates_sum, sig_rdse)},
                    "subnets_get": g.iter().map(|e| e.subnets as i64).sum::<i64>(), "subnets_signed": sg.iter().map(|e| e.subnets as i64).sum::<i64>(),
                    "panicked": sim.nodes[c].panicked});
                if samples.len() < 2 && i > 50 {
                    samples.push(ev.clone());
                }
                out.line(&ev);
                lines += 1;
            }
        }
        if !sim.nodes[c].alive {
            out.line(&json!({"e":"cache","b":i,"lookups":i + 1,"cache_len":0,"n_findnode":0,"n_get":0,"n_signed":0,"public":public,"rekeyed":false,
                "main":{"dse_count":0,"resp_count":0,"subnets_sum":0,"dse_sum_ok":true,"resp_sum_ok":true},
                "signed":{"dse_count":0,"resp_count":0,"subnets_sum":0,"dse_sum_ok":true,"resp_sum_ok":true},
                "subnets_get":0,"subnets_signed":0,"panicked":true}));
            lines += 1;
            break;
        }
    }
    (lines, samples)
}

/// Through the PUBLIC blocking API of a threaded node: an application that holds the iterator of a lookup without reading it
/// (24 storing peers answer with a value each) and makes another call meanwhile. The other call returns, and the iterator then
/// yields what the lookup delivered and ends.
pub fn unread_stream(b: u64, seed: u64, kind: &str) -> Value {
    let mut sim = Sim::new(seed ^ (b * 131 + 7), NetCfg { lat_min_ms: 1, lat_max_ms: 3, ..Default::default() });
    let mut rng = crate::rng::Rng::new(seed ^ b ^ 0x51);
    let n = 24usize;
    let ids: Vec<[u8; 20]> = (0..n).map(|_| rng.id()).collect();
    let sk = crypto::keypair(5);
    let pk = sk.verifying_key().to_bytes();
    let target = if kind == "mutable" { crypto::mutable_target(&pk, None) } else { crypto::sha1(format!("unread {b}").as_bytes()) };
    let all: Vec<([u8; 20], std::net::SocketAddrV4)> = ids.iter().enumerate().map(|(i, id)| (*id, std::net::SocketAddrV4::new(fake_ip(i), 6881))).collect();
    let nodes = krpc::compact_nodes(&all);
    let kind2 = kind.to_string();
    let sk2 = sk.clone();
    let policy: Policy = Box::new(move |me, m, w| {
        let q = m.q.clone().unwrap_or_default();
        if m.target() != Some(target) {
            // the other call's lookup is the slower one: all values have arrived (unread) when it ends
            return if q == "find_node" { Reply::DefaultAfter(120) } else { Reply::Default };
        }
        match (q.as_str(), kind2.as_str()) {
            ("get_peers", "peers") => Reply::One(lookup_reply(&nodes, me, m, w, &[("values", B::List(vec![B::bytes(&[10, 9, 0, me.idx as u8 + 1, 0x1a, 0xe1][..])]))], true), 5 + me.idx as u64),
            ("get", "mutable") => {
                let val = format!("v{}", me.idx).into_bytes();
                let sig = crypto::sign_mutable(&sk2, 7, &val, None);
                Reply::One(lookup_reply(&nodes, me, m, w, &[("v", B::bytes(&val)), ("k", B::bytes(&pk[..])), ("seq", B::Int(7)), ("sig", B::bytes(&sig[..]))], true), 5 + me.idx as u64)
            }
            _ => Reply::Default,
        }
    });
    let net = FakeNet::install(&mut sim, &ids, policy);
    let c = sim.add_node(NodeOpts::client(private_ip(3), &net.bootstrap()).threaded());
    sim.run_for(2500);
    let d = sim.dht(c);
    let before = v::dht_queue_len(&d);
    let other_target = rng.id();
    let (kind3, d2) = (kind.to_string(), d.clone());
    let h = std::thread::spawn(move || {
        // the iterator is created (the lookup starts) and left alone while another call is made
        if kind3 == "mutable" {
            let it = d2.get_mutable(&pk, None, None);
            let closest = d2.find_node(Id::from(other_target));
            (closest.len(), it.count())
        } else {
            let it = d2.get_peers(Id::from(target));
            let closest = d2.find_node(Id::from(other_target));
            (closest.len(), it.count())
        }
    });
    let t0 = std::time::Instant::now();
    while v::dht_queue_len(&d) == before && !h.is_finished() && t0.elapsed() < WATCHDOG {
        std::thread::yield_now();
    }
    sim.poke(c);
    let limit = sim.now_ns() + 30_000 * MS;
    while !h.is_finished() && sim.now_ns() < limit && sim.nodes[c].alive {
        sim.step(limit);
        if sim.pending_datagrams() == 0 {
            std::thread::sleep(std::time::Duration::from_micros(50));
        }
    }
    let (returned, closest, items) = if h.is_finished() {
        match h.join() {
            Ok((c, i)) => (true, c as i64, i as i64),
            Err(_) => (false, -2, -2),
        }
    } else {
        (false, -1, -1) // the helper is leaked; the node is shut down below
    };
    let (hung, panicked) = (sim.nodes[c].hung, sim.nodes[c].panicked);
    sim.shutdown();
    json!({"e":"unread","b":b,"kind":kind,"returned":returned,"closest":closest,"items":items,"node_hung":hung,"panicked":panicked,
        "plan":{"scenario":"unread_stream","kind":kind,"storing_peers":n}})
}

/// Silent bursts: the four peers a client knows stop answering; a dozen lookups, 700 ms apart, all time out (the in-flight table
/// fills up and is compacted again and again). Nobody ever answered slowly, so the request timeout is still the initial one -
/// and when the peers are back, a lookup takes as long as it did before.
pub fn silent_bursts(b: u64, seed: u64) -> Value {
    let mut sim = Sim::new(seed ^ (b * 733 + 1), NetCfg { lat_min_ms: 5, lat_max_ms: 15, cadence_ms: 100, ..Default::default() });
    let ids: Vec<[u8; 20]> = (0..4).map(|i| crypto::sha1(&[i as u8, 91])).collect();
    let silent = std::rc::Rc::new(std::cell::Cell::new(false));
    let s2 = silent.clone();
    let net = FakeNet::install(&mut sim, &ids, Box::new(move |_, _, _| if s2.get() { Reply::Silent } else { Reply::Default }));
    let c = sim.add_node(NodeOpts::client(private_ip(2), &net.bootstrap()));
    sim.run_for(2500);
    let mut rng = crate::rng::Rng::new(seed ^ b);
    let time_one = |sim: &mut Sim, rng: &mut crate::rng::Rng| -> u64 {
        let t0 = sim.now_ns();
        let mut call = sim.call_get(c, GetKind::FindNode, rng.id(), "probe");
        sim.poke(c);
        sim.run_calls(&mut [&mut call], 30_000);
        (call.done_ns().unwrap_or(sim.now_ns()) - t0) / MS
    };
    let before_ms = time_one(&mut sim, &mut rng);
    silent.set(true);
    let mut tmax = 0u64;
    for _ in 0..12 {
        let mut call = sim.call_get(c, GetKind::Immutable, rng.id(), "burst");
        sim.poke(c);
        sim.run_for(700);
        call.poll(sim.now_ns());
        if let Some(s) = sim.snapshot(c) {
            tmax = tmax.max(s.inflight.timeout_ns);
        }
    }
    sim.run_for(1500);
    silent.set(false);
    let after_ms = time_one(&mut sim, &mut rng);
    if let Some(s) = sim.snapshot(c) {
        tmax = tmax.max(s.inflight.timeout_ns);
    }
    let panicked = sim.nodes[c].panicked;
    sim.shutdown();
    json!({"e":"bursts","b":b,"tmax_ms":tmax / MS,"slow_replies":0,"probe_before_ms":before_ms,"probe_after_ms":after_ms,"panicked":panicked,
        "plan":{"scenario":"silent_bursts","lookups":12}})
}

/// A node whose only bootstrap peer never answers is asked for a lookup of its own id (what `bootstrapped()` does) ten times in
/// a row: every call contacts one node, hears nothing and returns after about one request timeout - no round trip was ever
/// observed that could justify a longer one.
pub fn silent_bootstrap(b: u64, seed: u64) -> Value {
    let mut sim = Sim::new(seed ^ (b * 389 + 5), NetCfg { lat_min_ms: 5, lat_max_ms: 15, cadence_ms: 100, ..Default::default() });
    let ids: Vec<[u8; 20]> = vec![crypto::sha1(b"silent bootstrap peer")];
    let net = FakeNet::install(&mut sim, &ids, Box::new(|_, _, _| Reply::Silent));
    let c = sim.add_node(NodeOpts::client(private_ip(2), &net.bootstrap()));
    let own = sim.snapshot(c).map(|s| crate::bencode::unhex(&s.id)).unwrap_or_default();
    let mut id = [0u8; 20];
    if own.len() == 20 {
        id.copy_from_slice(&own);
    }
    let mut durations = vec![];
    let mut tmax = 0u64;
    for _ in 0..10 {
        let t0 = sim.now_ns();
        let mut call = sim.call_get(c, GetKind::FindNode, id, "bootstrapped");
        sim.poke(c);
        sim.run_calls(&mut [&mut call], 30_000);
        durations.push((call.done_ns().unwrap_or(sim.now_ns()) - t0) / MS);
        if let Some(s) = sim.snapshot(c) {
            tmax = tmax.max(s.inflight.timeout_ns);
        }
    }
    let panicked = sim.nodes[c].panicked;
    sim.shutdown();
    json!({"e":"bursts","b":b,"tmax_ms":tmax / MS,"slow_replies":0,"probe_before_ms":durations[0],"probe_after_ms":durations.iter().cloned().max().unwrap_or(0),
        "durations":durations,"panicked":panicked,"plan":{"scenario":"silent_bootstrap","calls":10}})
}

pub fn run(args: &Args) -> i32 {
    let seed = args.u64("seed", 1);
    if args.get("unread").is_some() {
        let mut out = Out::create(&args.str("out", "/verif/work/C06/trace-unread.ndjson"));
        let mut lines = 0;
        for rep in 0..args.u64("unread", 1) {
            for (i, kind) in ["peers", "mutable"].iter().enumerate() {
                out.line(&unread_stream(900_000 + rep * 10 + i as u64, seed, kind));
                lines += 1;
            }
            out.line(&silent_bursts(900_005 + rep * 10, seed));
            lines += 1;
            out.line(&silent_bootstrap(900_006 + rep * 10, seed));
            lines += 1;
        }
        out.finish();
        if let Some(p) = args.get("summary") {
            crate::util::write_json(p, &json!({"runs": lines, "distinct_nontrivial": lines, "samples": []}));
        }
        println!("query driver (unread streams): runs={lines}");
        return 0;
    }
    if let Some(n) = args.get("cache") {
        let mut out = Out::create(&args.str("out", "/verif/work/C20/trace.ndjson"));
        let (lines, samples) = run_cache(seed, n.parse().unwrap_or(1200), &mut out);
        out.finish();
        if let Some(p) = args.get("summary") {
            crate::util::write_json(p, &json!({"runs": lines, "distinct_nontrivial": lines, "samples": samples}));
        }
        println!("query driver (cache): snapshots={lines}");
        return 0;
    }
    let mut out = Out::create(&args.str("out", "/verif/work/C06/trace.ndjson"));
    let mut b = 0u64;
    let mut samples = vec![];
    let mut nontrivial = 0u64;
    let stride = args.u64("stride", 1);
    if let Some(path) = args.get("in") {
        for line in std::fs::read_to_string(path).expect("plans").lines() {
            let plans: Vec<Value> = match serde_json::from_str::<Value>(line) {
                Ok(Value::Array(a)) => a,
                Ok(v) => vec![v],
                Err(_) => continue,
            };
            let mut plans = plans;
            plans.sort_by_key(|p| p.to_string());
            for (i, p) in plans.iter().enumerate() {
                if i as u64 % stride != 0 {
                    continue;
                }
                let mut p = p.clone();
                // every 7th plan goes through the production run loop (threaded node)
                p["threaded"] = json!(b % 7 == 3);
                let ev = run_plan(b, &p, seed);
                if !p["faults"].as_array().map(|a| a.is_empty()).unwrap_or(true) {
                    nontrivial += 1;
                }
                if samples.len() < 3 && b % 211 == 17 {
                    samples.push(ev.clone());
                }
                out.line(&ev);
                b += 1;
            }
        }
    }
    out.finish();
    let summary = json!({"runs": b, "distinct_nontrivial": nontrivial, "samples": samples});
    if let Some(p) = args.get("summary") {
        crate::util::write_json(p, &summary);
    }
    println!("query driver: runs={b}");
    0
}
