//! C18 driver: client / server / adaptive modes on real nodes. (a) clients in mixed networks: every
//! request read-only, never a reply, nothing stored, in nobody's table; all request kinds sent straight
//! to a client; (b) read-only requesters against servers; (c) replies flagged read-only to a real lookup;
//! (d) adaptive nodes for 35 virtual minutes: reachable, behind NAT (no unsolicited inbound, no
//! hair-pinning), wrongly voted address; explicit server_mode / public_ip. Judged by ModesTrace.tla.
use crate::bencode::B;
use crate::calls::GetKind;
use crate::crypto;
use crate::fakenet::*;
use crate::krpc::{self, Msg};
use dht::verif as v;
use dht::PutRequestSpecific;
use crate::net::*;
use crate::rng::Rng;
use crate::sim::*;
use crate::util::{Args, Out};
use serde_json::{json, Value};
use std::net::{Ipv4Addr, SocketAddrV4};

fn clients_in_network(b: u64, servers: usize, clients: usize, plan: &str, seed: u64) -> Value {
    let spec = NetSpec { servers, clients, plan: plan.into(), join: "sequential".into(), dead_bootstrap: 0, seed };
    let mut net = build(&spec);
    let mut rng = Rng::new(seed ^ 0x18);
    // clients do lookups of every kind (find_node included) and puts
    for &c in &net.clients.clone() {
        for kind in [GetKind::FindNode, GetKind::Immutable, GetKind::Peers, GetKind::SignedPeers] {
            let t = rng.id();
            let _ = do_lookup(&mut net, c, kind, t, "c");
        }
        let val = format!("client value {c}").into_bytes();
        let mut put = net.sim.call_put(c, dht::PutRequestSpecific::PutImmutable(dht::verif::PutImmutableRequestArguments { target: dht::Id::from(crypto::immutable_target(&val)), v: val.into() }), None, "p");
        net.sim.poke(c);
        net.sim.run_calls(&mut [&mut put], 60_000);
    }
    // every request kind straight at a client, from a stranger
    let stranger = SocketAddrV4::new(Ipv4Addr::new(45, 99, 0, 9), 7000);
    let me = [9u8; 20];
    let tok = b"abcd";
    let reqs: Vec<B> = vec![
        krpc::ping(1, &me, false),
        krpc::find_node(2, &me, &[1u8; 20], false),
        krpc::get_peers(3, &me, &[2u8; 20], false, false),
        krpc::get_peers(4, &me, &[2u8; 20], true, false),
        krpc::get_value(5, &me, &[3u8; 20], None, false),
        krpc::put_immutable(6, &me, &crypto::immutable_target(b"x"), tok, b"x"),
        krpc::announce_peer(7, &me, &[2u8; 20], tok, 1, None),
    ];
    let mut replies_from_clients = 0;
    for &c in &net.clients.clone() {
        for r in &reqs {
            let outs = net.sim.exchange(c, stranger, &r.encode());
            replies_from_clients += outs.iter().filter(|d| d.to == stranger).count();
        }
    }
    net.sim.run_for(3000);
    let caddrs: Vec<SocketAddrV4> = net.clients.iter().map(|&c| net.sim.nodes[c].addr).collect();
    let mut n_req = 0u64;
    let mut ro_bad = 0u64;
    let mut emitted_replies = 0u64;
    for r in &net.sim.log {
        if caddrs.contains(&r.from) {
            if let Some(m) = &r.msg {
                if m.is_request() {
                    n_req += 1;
                    if m.ro != Some(1) {
                        ro_bad += 1;
                    }
                } else {
                    emitted_replies += 1;
                }
            }
        }
    }
    let mut stores_empty = true;
    for &c in &net.clients.clone() {
        if let Some(s) = net.sim.snapshot(c) {
            if !s.server.immutable.is_empty() || !s.server.mutable.is_empty() || !s.server.peers.is_empty() || !s.server.signed_peers.is_empty() {
                stores_empty = false;
            }
        }
    }
    let mut in_tables = 0;
    let mut server_ro_requests = 0u64;
    for &sv in &net.servers.clone() {
        if let Some(s) = net.sim.snapshot(sv) {
            for x in s.routing_table.nodes.iter().chain(s.signed_peers_routing_table.nodes.iter()) {
                if caddrs.iter().any(|a| a.to_string() == x.addr) {
                    in_tables += 1;
                }
            }
        }
        let a = net.sim.nodes[sv].addr;
        server_ro_requests += net.sim.log.iter().filter(|r| r.from == a && r.msg.as_ref().map(|m| m.is_request() && m.ro == Some(1)).unwrap_or(false)).count() as u64;
    }
    json!({"e":"clients","b":b,"servers":servers,"clients":clients,"plan":plan,"client_requests":n_req,"client_requests_not_ro":ro_bad,
        "client_replies_emitted":emitted_replies + replies_from_clients as u64,"stores_empty":stores_empty,"clients_in_server_tables":in_tables,
        "server_requests_flagged_ro":server_ro_requests,"panicked":net.sim.nodes.iter().any(|n| n.panicked)})
}

/// (b') a read-only stranger sends find_node to a bootstrap-less server: must not be added
fn ro_requester(b: u64, seed: u64) -> Value {
    let mut sim = Sim::new(seed, NetCfg::default());
    let s = sim.add_node(NodeOpts::server(private_ip(0), &[]));
    let ro_addr = SocketAddrV4::new(private_ip(7), 6881);
    let normal_addr = SocketAddrV4::new(private_ip(8), 6881);
    let _ = sim.exchange(s, ro_addr, &krpc::find_node(1, &[7u8; 20], &[7u8; 20], true).encode());
    let _ = sim.exchange(s, normal_addr, &krpc::find_node(2, &[8u8; 20], &[8u8; 20], false).encode());
    let snap = sim.snapshot(s).expect("snap");
    let has = |a: &SocketAddrV4| snap.routing_table.nodes.iter().chain(snap.signed_peers_routing_table.nodes.iter()).any(|x| x.addr == a.to_string());
    json!({"e":"ro_requester","b":b,"ro_added":has(&ro_addr),"normal_added":has(&normal_addr)})
}

/// (c) replies flagged read-only are ignored by the requester
fn ro_reply(b: u64, seed: u64) -> Value {
    let mut sim = Sim::new(seed, NetCfg { lat_min_ms: 5, lat_max_ms: 5, ..Default::default() });
    let ids: Vec<[u8; 20]> = (0..3).map(|i| crypto::sha1(&[i as u8, 18])).collect();
    let val = b"value held by the read-only responder".to_vec();
    let target = crypto::immutable_target(&val);
    let evil: Vec<([u8; 20], SocketAddrV4)> = (0..3).map(|i| (crypto::sha1(&[i, 88]), SocketAddrV4::new(Ipv4Addr::new(10, 98, 0, i + 1), 6881))).collect();
    let all: Vec<([u8; 20], SocketAddrV4)> = ids.iter().enumerate().map(|(i, id)| (*id, SocketAddrV4::new(fake_ip(i), 6881))).collect();
    let nodes = krpc::compact_nodes(&all);
    let evil_nodes = krpc::compact_nodes(&evil);
    let val2 = val.clone();
    let policy: Policy = Box::new(move |me, m, w| {
        let q = m.q.clone().unwrap_or_default();
        if me.idx == 0 && (q == "get" || q == "find_node") {
            // read-only flagged reply carrying a value, a token, foreign nodes and an address vote
            let mut r = lookup_reply(&evil_nodes, me, m, w, &[("v", B::bytes(&val2))], true);
            r.set("ro", B::Int(1));
            return Reply::One(r, 5);
        }
        if q == "get" {
            return Reply::One(lookup_reply(&nodes, me, m, w, &[], true), 5);
        }
        Reply::Default
    });
    let net = FakeNet::install(&mut sim, &ids, policy);
    let c = sim.add_node(NodeOpts::client(private_ip(4), &net.bootstrap()));
    sim.run_for(2000);
    let mut call = sim.call_get(c, GetKind::Immutable, target, "g");
    sim.poke(c);
    let done = sim.run_calls(&mut [&mut call], 30_000);
    let snap = sim.snapshot(c).expect("snap");
    let ro_peer = net.peers()[0].addr.to_string();
    let in_table = snap.routing_table.nodes.iter().chain(snap.signed_peers_routing_table.nodes.iter()).any(|x| x.addr == ro_peer);
    let evil_in_table = snap.routing_table.nodes.iter().any(|x| x.addr.starts_with("10.98."));
    let evil_queried = net.seen().is_empty() && false;
    let _ = evil_queried;
    json!({"e":"ro_reply","b":b,"done":done,"yielded":call.items.len(),"ro_responder_in_table":in_table,"listed_by_ro_in_table":evil_in_table,
        "honest_peers_in_table": snap.routing_table.nodes.len()})
}

fn adaptive(b: u64, variant_at: &str, seed: u64) -> Value {
    let spec = NetSpec { servers: 6, clients: 0, plan: "public".into(), join: "sequential".into(), dead_bootstrap: 0, seed };
    let mut net = build(&spec);
    // "reachable@a.b.c.d": the same scenario with the node at that (public) address
    let (variant, at) = match variant_at.split_once('@') {
        Some((v, a)) => (v, a.parse::<Ipv4Addr>().ok()),
        None => (variant_at, None),
    };
    let ip = at.unwrap_or(public_ip(77));
    let mut o = NodeOpts::client(ip, &net.boot);
    o.nat = variant.starts_with("nat");
    // "explicit public_ip configurations": the operator states the address, the node is still adaptive (no server_mode) and
    // must confirm the address the same way before it starts serving
    if variant.ends_with("public_ip") {
        o.public_ip = Some(ip);
    }
    let wrong = variant == "wrong_votes";
    if wrong {
        // every peer reports a wrong (unreachable) address for the node: rewrite the `ip` field of replies to it
        let me = SocketAddrV4::new(ip, 6881);
        net.sim.fate = Some(Box::new(move |w: &Wire, m: Option<&Msg>, _r: &mut Rng| {
            let _ = (w, m, me);
            None
        }));
    }
    // "busy": the application starts lookups of its own the moment the node is created, and one bootstrap address is dead -
    // the request to it expires for the bootstrap lookup and for the application's lookups in the same iteration of the run
    // loop, so several lookups that all carry the address votes finish TOGETHER
    let busy = variant.contains("busy");
    if busy {
        o.bootstrap.push(format!("{}:6881", std::net::Ipv4Addr::new(10, 251, 0, 1)));
    }
    let a = net.sim.add_node(o);
    let aaddr = net.sim.nodes[a].addr;
    let t0 = net.sim.now_ns();
    let mut busy_calls = vec![];
    if busy {
        let mut rng = Rng::new(seed ^ 0xB5);
        for k in 0..(1 + b % 3) {
            busy_calls.push(net.sim.call_get(a, if k % 2 == 0 { GetKind::Immutable } else { GetKind::FindNode }, rng.id(), "busy"));
        }
        net.sim.poke(a);
    }
    let mut switch_minute: i64 = -1;
    let mut unfirewalled_minute: i64 = -1;
    let mut samples = vec![];
    for minute in 1..=36 {
        net.sim.run_for(60_000);
        if wrong {
            // keep voting a wrong address: inject forged replies is not possible without tids, so instead reply-rewriting is
            // approximated by peers at a DIFFERENT address answering pings sent to the claimed one: nothing reaches the node
        }
        if let Some(s) = net.sim.snapshot(a) {
            if s.server_mode && switch_minute < 0 {
                switch_minute = minute;
            }
            if !s.firewalled && unfirewalled_minute < 0 {
                unfirewalled_minute = minute;
            }
            if minute % 6 == 0 {
                samples.push(json!([minute, s.server_mode, s.firewalled, s.public_address.clone().unwrap_or("none".into())]));
            }
        }
    }
    let s = net.sim.snapshot(a).expect("snap");
    let self_ping = net.sim.log.iter().any(|r| r.from == aaddr && r.to == aaddr && r.msg.as_ref().map(|m| m.q.as_deref() == Some("ping")).unwrap_or(false));
    // does it answer a ping now, and are its requests still flagged read-only
    let stranger = SocketAddrV4::new(public_ip(3), 6881);
    let outs = if net.sim.nodes[a].nat { vec![] } else { net.sim.exchange(a, stranger, &krpc::ping(5, &[5u8; 20], false).encode()) };
    let answers = outs.iter().any(|d| d.to == stranger);
    let last_ro = net.sim.log.iter().rev().find(|r| r.from == aaddr && r.msg.as_ref().map(|m| m.is_request()).unwrap_or(false)).and_then(|r| r.msg.as_ref().and_then(|m| m.ro));
    let id = id_of_hex(&s.id);
    json!({"e":"adaptive","b":b,"variant":variant,"address":ip.to_string(),"minutes":(net.sim.now_ns() - t0) / MS / 60_000,"server_mode":s.server_mode,"firewalled":s.firewalled,
        "public_address":s.public_address.clone().unwrap_or("none".into()),"expected_address":aaddr.to_string(),"self_ping_seen":self_ping,"switch_minute":switch_minute,"unfirewalled_minute":unfirewalled_minute,
        "answers_ping":answers,"last_request_ro":last_ro.map(|x| x as i64).unwrap_or(-1),"id_valid_for_ip":crypto::bep42_valid(&id, ip),
        "routing_table_size":s.routing_table.size,"samples":samples})
}

/// (d') an adaptive node whose address was confirmed is later told another port of the same IP (NAT rebinding or a
/// wrong vote) at which it is not reachable: the confirmation must not carry over.
fn revote(b: u64, seed: u64) -> Value {
    use std::cell::RefCell;
    use std::rc::Rc;
    let mut sim = Sim::new(seed, NetCfg { lat_min_ms: 5, lat_max_ms: 20, ..Default::default() });
    sim.record = true;
    let ids: Vec<[u8; 20]> = (0..5).map(|i| crypto::sha1(&[i as u8, 71])).collect();
    let ip = public_ip(33);
    let wrong = SocketAddrV4::new(ip, 7777);
    let vote_wrong = Rc::new(RefCell::new(false));
    let vw = vote_wrong.clone();
    let policy: Policy = Box::new(move |me, m, w| {
        let q = m.q.clone().unwrap_or_default();
        if *vw.borrow() && (q == "find_node" || q == "get") {
            let s_nodes: Vec<u8> = vec![];
            let mut r = B::dict();
            r.set("nodes", B::bytes(&s_nodes));
            return Reply::One(krpc::response(&m.tid, &me.id, r, Some(&wrong)), 5);
        }
        let _ = w;
        Reply::Default
    });
    let net = FakeNet::install(&mut sim, &ids, policy);
    let a = sim.add_node(NodeOpts::client(ip, &net.bootstrap()));
    let aaddr = sim.nodes[a].addr;
    sim.run_for(120_000);
    let s1 = sim.snapshot(a).expect("snap");
    // minute 2: the confirmed state; now every peer reports the other port
    *vote_wrong.borrow_mut() = true;
    let mut call = sim.call_get(a, GetKind::FindNode, [3u8; 20], "f");
    sim.poke(a);
    sim.run_calls(&mut [&mut call], 30_000);
    sim.run_for(5000);
    let s2 = sim.snapshot(a).expect("snap");
    // until after the 15-minute refresh
    sim.run_for(17 * 60_000);
    let s3 = sim.snapshot(a).expect("snap");
    let pinged_wrong = sim.log.iter().any(|r| r.from == aaddr && r.to == wrong && r.msg.as_ref().map(|m| m.q.as_deref() == Some("ping")).unwrap_or(false));
    json!({"e":"revote","b":b,"confirmed_first": !s1.firewalled && s1.public_address == Some(aaddr.to_string()),
        "address_after_revote": s2.public_address.clone().unwrap_or("none".into()), "wrong_address": wrong.to_string(),
        "firewalled_after_revote": s2.firewalled, "pinged_wrong_address": pinged_wrong,
        "server_mode_after_refresh": s3.server_mode, "firewalled_after_refresh": s3.firewalled, "address_after_refresh": s3.public_address.clone().unwrap_or("none".into())})
}

fn explicit(b: u64, seed: u64) -> Value {
    let mut sim = Sim::new(seed, NetCfg::default());
    let ip = public_ip(5);
    let mut o = NodeOpts::server(ip, &[]);
    o.public_ip = Some(ip);
    let s = sim.add_node(o);
    let snap = sim.snapshot(s).expect("snap");
    let stranger = SocketAddrV4::new(public_ip(3), 6881);
    let outs = sim.exchange(s, stranger, &krpc::ping(5, &[5u8; 20], false).encode());
    let reply = outs.iter().find(|d| d.to == stranger).and_then(|d| Msg::parse(&d.bytes));
    json!({"e":"explicit","b":b,"server_mode":snap.server_mode,"answers_ping":reply.is_some(),"reply_ro":reply.and_then(|m| m.ro).map(|x| x as i64).unwrap_or(-1),
        "id_valid_for_ip":crypto::bep42_valid(&id_of_hex(&snap.id), ip)})
}

/// (c') peers that answered the lookup as ordinary servers answer the WRITE with replies flagged read-only (acks, or 301
/// errors): those replies are ignored, so the put is neither reported stored nor failed with the error they carry
fn ro_put_reply(b: u64, variant: &str, seed: u64) -> Value {
    let mut sim = Sim::new(seed, NetCfg { lat_min_ms: 5, lat_max_ms: 5, ..Default::default() });
    let ids: Vec<[u8; 20]> = (0..3).map(|i| crypto::sha1(&[i as u8, 19])).collect();
    let all: Vec<([u8; 20], SocketAddrV4)> = ids.iter().enumerate().map(|(i, id)| (*id, SocketAddrV4::new(fake_ip(i), 6881))).collect();
    let nodes = krpc::compact_nodes(&all);
    let err = variant == "error";
    let policy: Policy = Box::new(move |me, m, w| {
        let q = m.q.clone().unwrap_or_default();
        if q == "get" || q == "get_peers" {
            return Reply::One(lookup_reply(&nodes, me, m, w, &[], true), 5);
        }
        if q == "put" || q == "announce_peer" {
            let mut r = if err { krpc::error(&m.tid, 301, "CAS mismatched") } else { krpc::response(&m.tid, &me.id, B::dict(), Some(&w.from)) };
            r.set("ro", B::Int(1));
            return Reply::One(r, 5);
        }
        Reply::Default
    });
    let net = FakeNet::install(&mut sim, &ids, policy);
    let c = sim.add_node(NodeOpts::client(private_ip(4), &net.bootstrap()));
    sim.run_for(2000);
    let sk = crypto::keypair(3);
    let request = match variant {
        "error" => PutRequestSpecific::PutMutable(v::PutMutableRequestArguments::from(dht::MutableItem::new(&sk, b"cas write", 4, None), Some(3))),
        "announce" => PutRequestSpecific::AnnouncePeer(v::AnnouncePeerRequestArguments { info_hash: dht::Id::from(crypto::sha1(b"ro put")), port: 7, implied_port: None }),
        _ => PutRequestSpecific::PutImmutable(v::PutImmutableRequestArguments { target: dht::Id::from(crypto::immutable_target(b"ro put")), v: b"ro put".to_vec().into() }),
    };
    let mut call = sim.call_put(c, request, None, "p");
    sim.poke(c);
    let done = sim.run_calls(&mut [&mut call], 60_000);
    let writes = net.seen().iter().filter(|s| matches!(s.msg.q.as_deref(), Some("put") | Some("announce_peer"))).count();
    let result = call.outcome().map(|o| o.name()).unwrap_or("pending".into());
    json!({"e":"ro_put_reply","b":b,"variant":variant,"done":done,"writes_seen":writes,"result":result})
}

pub fn run(args: &Args) -> i32 {
    let seed = args.u64("seed", 1);
    let thorough = args.thorough();
    let mut out = Out::create(&args.str("out", "/verif/work/C18/trace.ndjson"));
    let mut b = 0u64;
    let nets: Vec<(usize, usize, &str)> = if thorough { vec![(1, 1, "private"), (3, 2, "public"), (5, 5, "private"), (10, 8, "public"), (20, 30, "private"), (8, 3, "private")] } else { vec![(1, 1, "private"), (4, 3, "public"), (10, 6, "private")] };
    for (s, c, plan) in nets {
        out.line(&clients_in_network(b, s, c, plan, seed ^ b));
        b += 1;
    }
    out.line(&ro_requester(b, seed));
    b += 1;
    for i in 0..(if thorough { 80 } else { 3 }) {
        out.line(&ro_reply(b, seed ^ (i * 13)));
        b += 1;
    }
    for v in ["ack", "error", "announce"] {
        out.line(&ro_put_reply(b, v, seed ^ 0x77));
        b += 1;
    }
    let variants: Vec<&str> = if thorough { ["reachable", "nat", "reachable_public_ip", "nat_public_ip", "reachable_busy", "reachable_busy_public_ip", "nat_busy"].iter().cycle().take(56).cloned().collect() } else { vec!["reachable", "nat", "reachable_public_ip", "nat_public_ip", "reachable_busy", "reachable_busy", "reachable_busy_public_ip", "nat_busy"] };
    for (i, v) in variants.iter().enumerate() {
        out.line(&adaptive(b, v, seed ^ (i as u64 * 101)));
        b += 1;
    }
    // the same at public addresses right next to the special-purpose ranges (shared address space 100.64/10, 10/8, 172.16/12,
    // 192.168/16, 169.254/16, 127/8, 198.18/15, multicast): what holds for one public address holds for all of them
    let edges = ["100.63.255.254", "100.128.0.1", "100.200.7.9", "172.15.255.254", "172.32.0.1", "192.167.255.254", "192.169.0.1", "169.253.255.254",
        "169.255.0.1", "126.255.255.254", "128.0.0.1", "9.255.255.254", "11.0.0.1", "223.255.255.1", "1.0.0.1", "198.17.255.254", "198.20.0.1"];
    for (i, a) in edges.iter().enumerate() {
        if thorough || i % 2 == 1 {
            out.line(&adaptive(b, &format!("{}@{a}", if i % 3 == 0 { "reachable_public_ip" } else { "reachable" }), seed ^ (i as u64 * 211 + 9)));
        }
        b += 1;
    }
    out.line(&explicit(b, seed));
    b += 1;
    for i in 0..(if thorough { 24 } else { 1 }) {
        out.line(&revote(b, seed ^ (i * 7 + 3)));
        b += 1;
    }
    out.finish();
    if let Some(p) = args.get("summary") {
        crate::util::write_json(p, &json!({"runs": b, "distinct_nontrivial": b, "samples": []}));
    }
    println!("modes driver: runs={b}");
    0
}
