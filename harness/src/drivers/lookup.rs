//! C07 driver: lookups in loss-free networks of real nodes; the verdict is computed by TLC
//! (LookupTrace.tla) from each lookup's own message trace: requests attributed by target, answers by
//! transaction id, the `nodes` lists of the answers, the seeds (routing tables at the start) and what the
//! lookup reported / stored to.
use crate::calls::{GetKind, Outcome};
use crate::net::*;
use crate::rng::Rng;
use crate::sim::MS;
use crate::util::{id_json, Args, Out};
use dht::verif as v;
use dht::PutRequestSpecific;
use serde_json::{json, Value};
use std::collections::HashMap;
use std::net::SocketAddrV4;

struct Universe {
    ents: Vec<Ent>,
    index: HashMap<Ent, usize>,
}
impl Universe {
    fn new() -> Self {
        Universe { ents: vec![], index: HashMap::new() }
    }
    fn idx(&mut self, e: &Ent) -> usize {
        if let Some(i) = self.index.get(e) {
            return *i + 1;
        }
        self.ents.push(e.clone());
        self.index.insert(e.clone(), self.ents.len() - 1);
        self.ents.len()
    }
}

pub fn one_lookup(net: &mut Net, b: u64, n: usize, kind: &str, target: [u8; 20]) -> Value {
    one_lookup_opts(net, b, n, kind, target, false)
}

/// `watch`: every delivery to the node is bracketed by snapshots, and only the responses its socket ACCEPTED (request still in
/// the in-flight table, sent to that address, younger than the request timeout of that instant) count as answers: for
/// networks in which round trips exceed the request timeout and the adaptive timeout moves.
pub fn one_lookup_opts(net: &mut Net, b: u64, n: usize, kind: &str, target: [u8; 20], watch: bool) -> Value {
    if watch {
        net.sim.watch = Some(n);
        net.sim.watch_log.clear();
    }
    let snap0 = net.sim.snapshot(n);
    let t_start = net.sim.now_ns();
    let log0 = net.sim.log.len();
    let mut u = Universe::new();
    let mut seeds: Vec<usize> = vec![];
    if let Some(s) = &snap0 {
        for e in table_ents(&s.routing_table) {
            seeds.push(u.idx(&e));
        }
        if kind == "find_node" {
            for e in table_ents(&s.signed_peers_routing_table) {
                seeds.push(u.idx(&e));
            }
        }
    }
    let mut call = match kind {
        "find_node" => net.sim.call_get(n, GetKind::FindNode, target, "l"),
        "closest" => net.sim.call_get(n, GetKind::ClosestNodes, target, "l"),
        "put" => {
            // an immutable value whose hash is the target cannot be chosen; announce_peer takes any target
            net.sim.call_put(n, PutRequestSpecific::AnnouncePeer(v::AnnouncePeerRequestArguments { info_hash: dht::Id::from(target), port: 1, implied_port: None }), None, "l")
        }
        "immutable" => net.sim.call_get(n, GetKind::Immutable, target, "l"),
        "mutable" => net.sim.call_get(n, GetKind::Mutable { salt: None, seq: None }, target, "l"),
        "mutable_seq" => net.sim.call_get(n, GetKind::Mutable { salt: None, seq: Some(5) }, target, "l"),
        "signed_peers" => net.sim.call_get(n, GetKind::SignedPeers, target, "l"),
        _ => net.sim.call_get(n, GetKind::Peers, target, "l"),
    };
    net.sim.poke(n);
    let done = net.sim.run_calls(&mut [&mut call], 120_000);
    let end = call.done_ns().unwrap_or(net.sim.now_ns());
    net.sim.run_for(1500);
    let tmax = net.sim.snapshot(n).map(|s| s.inflight.timeout_ns).unwrap_or(500 * MS);
    let accepted: Option<std::collections::HashSet<u64>> = if watch {
        Some(net.sim.watch_log.iter().filter(|w| {
            let tid = crate::krpc::Msg::parse(&w.wire.bytes).and_then(|m| m.tid_u32());
            match tid {
                Some(t) => w.pre.inflight.entries.iter().any(|(et, addr, age)| *et == t && *addr == w.wire.from.to_string() && *age < w.pre.inflight.timeout_ns),
                None => false,
            }
        }).map(|w| w.wire.id).collect())
    } else {
        None
    };
    if watch {
        net.sim.watch = None;
    }
    let tr = crate::net::lookup_trace_accepted(&net.sim, n, &target, log0, end, accepted.as_ref());
    let answered: Vec<Value> = tr.answered.iter().map(|(e, t)| json!([u.idx(e), (t - t_start) / MS])).collect();
    let listed: Vec<usize> = tr.listed.iter().map(|e| u.idx(e)).collect();
    let bearers: Vec<usize> = tr.token_bearers.iter().map(|e| u.idx(e)).collect();
    let reported: Vec<usize> = match call.outcome() {
        Some(Outcome::Closest(v)) => v.iter().map(|(id, addr)| u.idx(&Ent { id: *id, addr: *addr })).collect(),
        _ => vec![],
    };
    let result = call.outcome().map(|o| o.name()).unwrap_or("pending".into());
    json!({"e":"lookup","b":b,"node":n,"kind":kind,"t":id_json(&target),"done":done,"result":result,
        "U": u.ents.iter().map(ent_json).collect::<Vec<_>>(),
        "queried": tr.queried.iter().map(|a| a.to_string()).collect::<Vec<_>>(),
        "requests": tr.requests.iter().map(|(a, t, _)| json!([a.to_string(), (t - t_start) / MS])).collect::<Vec<_>>(),
        "answers": tr.answered.iter().map(|(e, t)| json!([e.addr.to_string(), (t - t_start) / MS])).collect::<Vec<_>>(),
        "answered": answered, "listed": listed, "seeds": seeds, "bearers": bearers, "reported": reported,
        "stores": tr.stores.iter().map(|a| a.to_string()).collect::<Vec<_>>(),
        "timeout_ms": tmax / MS, "end_ms": (end - t_start) / MS, "servers": net.servers.len()})
}

/// One real client among fake peers whose ids are adversarially clustered around the target: they agree with it
/// (and with each other) on a long prefix and differ only in the last bytes, including ties on the first 16 bytes.
fn crafted(b: &mut u64, seed: u64, out: &mut Out, rng: &mut Rng, rounds: u64) {
    use crate::fakenet::*;
    use crate::sim::*;
    for r in 0..rounds {
        let target = rng.id();
        let n = rng.range(3, 28) as usize;
        let ids: Vec<[u8; 20]> = (0..n)
            .map(|i| {
                let mut id = target;
                // first differing byte anywhere from 12 to 19; some peers differ from each other only in the last 1-4 bytes
                let from = if i % 3 == 0 { 16 + rng.below(4) as usize } else { 12 + rng.below(8) as usize };
                for x in id.iter_mut().skip(from) {
                    *x = rng.below(256) as u8;
                }
                if id == target {
                    id[19] ^= 1 + i as u8;
                }
                id
            })
            .collect();
        // distinct nodes have distinct ids (a 160-bit collision is not a realistic input)
        let mut ids = ids;
        ids.sort();
        ids.dedup();
        rng.shuffle(&mut ids);
        let n = ids.len();
        let mut sim = Sim::new(seed ^ (r * 31 + 5), NetCfg { lat_min_ms: 5, lat_max_ms: 25, ..Default::default() });
        sim.record = true;
        // every third round the answers also list JUNK: an entry with an id right next to the target at the unspecified address
        // (0.0.0.0, on the port every peer uses or on another one). A lookup asks them like any other close entry (nobody
        // answers); what it has sent there must not make it skip the real peers
        let junk = r % 3 == 2;
        let all: Vec<([u8; 20], SocketAddrV4)> = ids.iter().enumerate().map(|(i, id)| (*id, SocketAddrV4::new(fake_ip(i), 6881))).collect();
        let mut listed = all.clone();
        if junk {
            // (one entry: the accumulator keeps one insecure entry per IP)
            for (k, port) in [(1u8, if r % 2 == 0 { 6881u16 } else { 7000 })] {
                let mut id = target;
                id[19] ^= 0x40 | k;
                id[18] ^= k;
                listed.push((id, SocketAddrV4::new(std::net::Ipv4Addr::new(0, 0, 0, 0), port)));
            }
        }
        let nodes = crate::krpc::compact_nodes(&listed);
        let fnet = FakeNet::install(&mut sim, &ids, Box::new(move |me, m, w| {
            let q = m.q.clone().unwrap_or_default();
            if junk && (q == "find_node" || q == "get" || q == "get_peers" || q == "get_signed_peers") {
                return Reply::One(lookup_reply(&nodes, me, m, w, &[], q != "find_node"), 5);
            }
            Reply::Default
        }));
        // the client only knows one of them; everybody lists everybody
        let c = sim.add_node(NodeOpts::client(private_ip(3), &[fnet.bootstrap()[r as usize % n].clone()]));
        sim.run_for(2500);
        let mut net = Net { sim, servers: vec![], clients: vec![c], boot: vec![], spec: NetSpec { servers: n, clients: 1, plan: "private".into(), join: "crafted".into(), dead_bootstrap: 0, seed } };
        for kind in ["find_node", "closest", "put"] {
            let mut t = target;
            if kind != "find_node" {
                t[19] ^= rng.below(4) as u8;
            }
            let ev = one_lookup(&mut net, *b, c, kind, t);
            out.line(&ev);
            *b += 1;
        }
    }
}

/// The late informant: the client knows ten FAR peers; they list twenty-two NEAR peers, which answer at once and list each other.
/// One far peer, S, answers late (well inside the request timeout) and is the only one that also lists Z, the node closest to
/// the target. When the twenty closest candidates have all answered, the request to S is still outstanding: the lookup waits
/// for it, learns Z and asks it.
fn late_informant(b: &mut u64, seed: u64, out: &mut Out, rng: &mut Rng, rounds: u64) {
    use crate::fakenet::*;
    use crate::sim::*;
    use std::net::SocketAddrV4;
    for r in 0..rounds {
        let target = rng.id();
        let share = |bits: usize, rng: &mut Rng| -> [u8; 20] {
            let mut id = rng.id();
            for bit in 0..bits {
                let (by, m) = (bit / 8, 0x80u8 >> (bit % 8));
                id[by] = (id[by] & !m) | (target[by] & m);
            }
            let (by, m) = (bits / 8, 0x80u8 >> (bits % 8));
            id[by] = (id[by] & !m) | (!target[by] & m);
            id
        };
        let (nf, nn) = (10usize, 22usize);
        let mut ids: Vec<[u8; 20]> = (0..nf).map(|_| share(4, rng)).collect();
        ids.extend((0..nn).map(|_| share(12, rng)));
        ids.push(share(30, rng)); // Z
        let z = nf + nn;
        let s_idx = r as usize % nf;
        let delay_s = [120u64, 200, 320, 60][r as usize % 4];
        let all: Vec<([u8; 20], SocketAddrV4)> = ids.iter().enumerate().map(|(i, id)| (*id, SocketAddrV4::new(fake_ip(i), 6881))).collect();
        let far = crate::krpc::compact_nodes(&all[..nf]);
        let near = crate::krpc::compact_nodes(&all[nf..z]);
        let near_z = crate::krpc::compact_nodes(&all[nf..]);
        let mut sim = Sim::new(seed ^ (r * 41 + 13), NetCfg { lat_min_ms: 5, lat_max_ms: 9, ..Default::default() });
        sim.record = true;
        let fnet = FakeNet::install(&mut sim, &ids, Box::new(move |me, m, w| {
            let q = m.q.clone().unwrap_or_default();
            if !(q == "find_node" || q == "get" || q == "get_peers" || q == "get_signed_peers") {
                return Reply::Default;
            }
            if m.target() != Some(target) {
                // the client's own bootstrap only ever learns the far peers
                return Reply::One(lookup_reply(&far, me, m, w, &[], false), 5);
            }
            let (listed, delay) = if me.idx == s_idx { (&near_z, delay_s) } else if me.idx < 10 { (&near, 5) } else { (&near, 5) };
            Reply::One(lookup_reply(listed, me, m, w, &[], q != "find_node"), delay)
        }));
        let boot: Vec<String> = fnet.bootstrap().into_iter().take(nf).collect();
        let c = sim.add_node(NodeOpts::client(private_ip(3), &boot));
        sim.run_for(2500);
        let mut net = Net { sim, servers: vec![], clients: vec![c], boot: vec![], spec: NetSpec { servers: ids.len(), clients: 1, plan: "private".into(), join: "late_informant".into(), dead_bootstrap: 0, seed } };
        let kind = ["closest", "find_node", "put", "peers"][r as usize % 4];
        let ev = one_lookup(&mut net, *b, c, kind, target);
        out.line(&ev);
        *b += 1;
    }
}

/// The renamed informant: as above, but the only peer that lists Z - R, one of the near peers - is advertised by everybody under
/// an id it no longer uses (it restarted on the same port, or took its BEP42 id once it learnt its address): R answers under its
/// new id, well in time. Its answer counts like any other: the lookup learns Z from it and asks Z.
fn renamed_informant(b: &mut u64, seed: u64, out: &mut Out, rng: &mut Rng, rounds: u64) {
    use crate::fakenet::*;
    use crate::sim::*;
    use std::net::SocketAddrV4;
    for r in 0..rounds {
        let target = rng.id();
        let share = |bits: usize, rng: &mut Rng| -> [u8; 20] {
            let mut id = rng.id();
            for bit in 0..bits {
                let (by, m) = (bit / 8, 0x80u8 >> (bit % 8));
                id[by] = (id[by] & !m) | (target[by] & m);
            }
            let (by, m) = (bits / 8, 0x80u8 >> (bits % 8));
            id[by] = (id[by] & !m) | (!target[by] & m);
            id
        };
        let (nf, nn) = (10usize, 22usize);
        let mut ids: Vec<[u8; 20]> = (0..nf).map(|_| share(4, rng)).collect();
        ids.extend((0..nn).map(|_| share(12, rng)));
        ids.push(share(30, rng)); // Z
        let z = nf + nn;
        let r_idx = nf + (r as usize % nn);
        let old_id = share(12, rng);
        let all: Vec<([u8; 20], SocketAddrV4)> = ids.iter().enumerate().map(|(i, id)| (*id, SocketAddrV4::new(fake_ip(i), 6881))).collect();
        // what everybody advertises: R under its old id
        let mut adv = all.clone();
        adv[r_idx].0 = old_id;
        let far = crate::krpc::compact_nodes(&adv[..nf]);
        let near = crate::krpc::compact_nodes(&adv[nf..z]);
        let near_z = crate::krpc::compact_nodes(&adv[nf..]);
        let mut sim = Sim::new(seed ^ (r * 43 + 17), NetCfg { lat_min_ms: 5, lat_max_ms: 9, ..Default::default() });
        sim.record = true;
        let fnet = FakeNet::install(&mut sim, &ids, Box::new(move |me, m, w| {
            let q = m.q.clone().unwrap_or_default();
            if !(q == "find_node" || q == "get" || q == "get_peers" || q == "get_signed_peers") {
                return Reply::Default;
            }
            if m.target() != Some(target) {
                return Reply::One(lookup_reply(&far, me, m, w, &[], false), 5);
            }
            let listed = if me.idx == r_idx { &near_z } else { &near };
            Reply::One(lookup_reply(listed, me, m, w, &[], q != "find_node"), 5)
        }));
        let boot: Vec<String> = fnet.bootstrap().into_iter().take(nf).collect();
        let c = sim.add_node(NodeOpts::client(private_ip(3), &boot));
        sim.run_for(2500);
        let mut net = Net { sim, servers: vec![], clients: vec![c], boot: vec![], spec: NetSpec { servers: ids.len(), clients: 1, plan: "private".into(), join: "renamed_informant".into(), dead_bootstrap: 0, seed } };
        let kind = ["closest", "find_node", "put", "peers"][r as usize % 4];
        let ev = one_lookup(&mut net, *b, c, kind, target);
        out.line(&ev);
        *b += 1;
    }
}

/// One real client among fake peers that form a CHAIN towards the target: a peer only lists the few peers just closer than
/// itself, in every kind of answer a lookup can receive (nodes only, no value, a value, "no more recent value", peers), so
/// reaching the closest peers depends on merging the `nodes` of each answer kind.  Requests for other targets (the client's
/// own bootstrap) only ever learn the three farthest peers.
fn chain(b: &mut u64, seed: u64, out: &mut Out, rng: &mut Rng, rounds: u64) {
    use crate::bencode::B;
    use crate::crypto;
    use crate::fakenet::*;
    use crate::krpc;
    use crate::sim::*;
    const KINDS: [&str; 7] = ["mutable_seq", "mutable", "immutable", "peers", "find_node", "closest", "signed_peers"];
    for r in 0..rounds {
        let kind = KINDS[r as usize % KINDS.len()];
        let val = format!("chain value {r}").into_bytes();
        let sk = crypto::keypair(9);
        let pk = sk.verifying_key().to_bytes();
        let target = match kind {
            "immutable" => crypto::immutable_target(&val),
            "mutable" | "mutable_seq" => crypto::mutable_target(&pk, None),
            _ => rng.id(),
        };
        // every fifth chain is LONG (90..140 peers, one more shared bit per rank): the lookup needs far more requests than any
        // lookup in a random network does, so a lifetime budget / cap on the number of requests of one lookup shows
        let long = r % 5 == 4;
        let n = if long { rng.range(90, 140) as usize } else { rng.range(6, 36) as usize };
        let step = if long { 1 } else { 4 };
        let w = 1 + rng.below(3) as usize;
        // rank i shares 16 + step*i leading bits with the target and differs at the next one: strictly decreasing distance
        let ids: Vec<[u8; 20]> = (0..n)
            .map(|i| {
                let p = 16 + step * i;
                let mut id = rng.id();
                for bit in 0..p {
                    let (by, m) = (bit / 8, 0x80u8 >> (bit % 8));
                    id[by] = (id[by] & !m) | (target[by] & m);
                }
                let (by, m) = (p / 8, 0x80u8 >> (p % 8));
                id[by] = (id[by] & !m) | (!target[by] & m);
                id
            })
            .collect();
        let mut sim = Sim::new(seed ^ (r * 37 + 11), NetCfg { lat_min_ms: 5, lat_max_ms: 25, ..Default::default() });
        sim.record = true;
        let all: Vec<([u8; 20], SocketAddrV4)> = ids.iter().enumerate().map(|(i, id)| (*id, SocketAddrV4::new(fake_ip(i), 6881))).collect();
        let (val2, sk2) = (val.clone(), sk.clone());
        let junk = r % 2 == 1;
        // (an id that is BEP42-valid for 0.0.0.0: the entry is not pushed behind the secure peers)
        let junk_id = crypto::bep42_id(std::net::Ipv4Addr::new(0, 0, 0, 0), rng.id());
        let policy: Policy = Box::new(move |me, m, wi| {
            let q = m.q.clone().unwrap_or_default();
            let on_target = m.target() == Some(target);
            let mut listed: Vec<([u8; 20], SocketAddrV4)> = if on_target {
                all.iter().skip(me.idx + 1).take(w).cloned().collect()
            } else {
                all.iter().take(3).cloned().collect()
            };
            // every other chain: the first two peers also list a JUNK entry at the unspecified address (0.0.0.0) on the port all
            // peers use; the lookup asks it early (nobody answers) and goes on learning real peers on that port afterwards
            if junk && on_target && me.idx < 2 {
                listed.push((junk_id, SocketAddrV4::new(std::net::Ipv4Addr::new(0, 0, 0, 0), 6881)));
            }
            let nodes = krpc::compact_nodes(&listed);
            let b = match q.as_str() {
                "find_node" => lookup_reply(&nodes, me, m, wi, &[], false),
                "get" if on_target && m.arg_int("seq").is_some() => lookup_reply(&nodes, me, m, wi, &[("seq", B::Int(5))], true),
                "get" if on_target && target == crypto::immutable_target(&val2) => lookup_reply(&nodes, me, m, wi, &[("v", B::bytes(&val2))], true),
                "get" if on_target && target == crypto::mutable_target(&pk, None) => {
                    let sig = crypto::sign_mutable(&sk2, 5, &val2, None);
                    lookup_reply(&nodes, me, m, wi, &[("v", B::bytes(&val2)), ("k", B::bytes(&pk[..])), ("seq", B::Int(5)), ("sig", B::bytes(&sig[..]))], true)
                }
                "get_peers" if on_target && me.idx % 2 == 0 => {
                    lookup_reply(&nodes, me, m, wi, &[("values", B::List(vec![B::bytes(&[10, 1, 2, me.idx as u8, 0x1a, 0xe1][..])]))], true)
                }
                "get" | "get_peers" | "get_signed_peers" => lookup_reply(&nodes, me, m, wi, &[], true),
                _ => krpc::response(&m.tid, &me.id, B::dict(), Some(&wi.from)),
            };
            Reply::One(b, 10)
        });
        let fnet = FakeNet::install(&mut sim, &ids, policy);
        let c = sim.add_node(NodeOpts::client(private_ip(3), &[fnet.bootstrap()[0].clone()]));
        sim.run_for(2500);
        let mut net = Net { sim, servers: vec![], clients: vec![c], boot: vec![], spec: NetSpec { servers: n, clients: 1, plan: "private".into(), join: "chain".into(), dead_bootstrap: 0, seed } };
        let ev = one_lookup(&mut net, *b, c, kind, target);
        out.line(&ev);
        *b += 1;
    }
}

/// One real client among fake peers with SLOW links: every peer has its own fixed answer delay (20 ms .. 1.5 s, many above the
/// initial 500 ms request timeout), lists the one or two peers just closer than itself (a tree towards the target), so that
/// requests expire, late answers stretch the adaptive timeout, and answers arrive for requests that looked expired a moment
/// ago. Only what the socket accepted counts as an answer (watch mode).
fn slowtree(b: &mut u64, seed: u64, out: &mut Out, rng: &mut Rng, rounds: u64) {
    use crate::fakenet::*;
    use crate::krpc;
    use crate::sim::*;
    for r in 0..rounds {
        let target = rng.id();
        let n = if r % 2 == 1 { rng.range(18, 24) as usize } else { rng.range(6, 14) as usize };
        let ids: Vec<[u8; 20]> = (0..n)
            .map(|i| {
                let p = 16 + 6 * i;
                let mut id = rng.id();
                for bit in 0..p {
                    let (by, m) = (bit / 8, 0x80u8 >> (bit % 8));
                    id[by] = (id[by] & !m) | (target[by] & m);
                }
                let (by, m) = (p / 8, 0x80u8 >> (p % 8));
                id[by] = (id[by] & !m) | (!target[by] & m);
                id
            })
            .collect();
        let mut delays: Vec<u64> = (0..n).map(|_| *rng.pick(&[20u64, 20, 350, 350, 600, 900, 1100, 1300, 1500])).collect();
        let mut fan: Vec<Vec<usize>> = (0..n).map(|i| {
            let mut v = vec![];
            for k in 1..=3usize {
                if i + k < n && (k == 1 || rng.chance(1, 2)) {
                    v.push(i + k);
                }
            }
            v
        }).collect();
        if r % 2 == 1 {
            // SPINE variant: a spine of peers answering after 350 ms keeps the lookup alive for seconds; every spine peer also
            // lists a SLOW side peer (1.1 .. 1.5 s), and every side peer lists a leaf nobody else lists. The first slow answer
            // comes too late but stretches the timeout; later slow answers then arrive for requests that had looked expired.
            let m = n / 3;
            for j in 0..m {
                delays[3 * j] = 350;
                delays[3 * j + 1] = *rng.pick(&[1100u64, 1200, 1300, 1500]);
                delays[3 * j + 2] = 20;
                fan[3 * j] = if j + 1 < m { vec![3 * (j + 1), 3 * j + 1] } else { vec![3 * j + 1] };
                fan[3 * j + 1] = vec![3 * j + 2];
                fan[3 * j + 2] = vec![];
            }
            for i in 3 * m..n {
                delays[i] = 20;
                fan[i] = vec![];
            }
        }
        let mut sim = Sim::new(seed ^ (r * 41 + 17), NetCfg { lat_min_ms: 5, lat_max_ms: 5, ..Default::default() });
        sim.record = true;
        let all: Vec<([u8; 20], SocketAddrV4)> = ids.iter().enumerate().map(|(i, id)| (*id, SocketAddrV4::new(fake_ip(i), 6881))).collect();
        let (delays2, fan2) = (delays.clone(), fan.clone());
        let policy: Policy = Box::new(move |me, m, wi| {
            let q = m.q.clone().unwrap_or_default();
            let on_target = m.target() == Some(target);
            let listed: Vec<([u8; 20], SocketAddrV4)> = if on_target { fan2[me.idx].iter().map(|&j| all[j]).collect() } else { vec![all[0]] };
            let nodes = krpc::compact_nodes(&listed);
            let d = if on_target { delays2[me.idx] } else { 10 };
            let b = match q.as_str() {
                "find_node" => lookup_reply(&nodes, me, m, wi, &[], false),
                "get" | "get_peers" | "get_signed_peers" => lookup_reply(&nodes, me, m, wi, &[], true),
                _ => krpc::response(&m.tid, &me.id, crate::bencode::B::dict(), Some(&wi.from)),
            };
            Reply::One(b, d)
        });
        let fnet = FakeNet::install(&mut sim, &ids, policy);
        let c = sim.add_node(NodeOpts::client(private_ip(3), &[fnet.bootstrap()[0].clone()]));
        sim.run_for(2500);
        let mut net = Net { sim, servers: vec![], clients: vec![c], boot: vec![], spec: NetSpec { servers: n, clients: 1, plan: "private".into(), join: "slowtree".into(), dead_bootstrap: 0, seed } };
        let kind = ["find_node", "immutable", "closest", "peers"][r as usize % 4];
        let ev = one_lookup_opts(&mut net, *b, c, kind, target, true);
        out.line(&ev);
        *b += 1;
    }
}

/// One real client among fake peers on PUBLIC addresses, where BEP42 matters: more than 20 peers with ids that are not
/// valid for their IP but XOR-close to the target, and a chain of BEP42-secure peers that are XOR-far from it and are
/// learned one at a time, after the lookup already holds more than 20 candidates. Secure ids order first, so every secure
/// peer belongs to the closest entries and must be queried and reported.
fn mixed(b: &mut u64, seed: u64, out: &mut Out, rng: &mut Rng, rounds: u64) {
    use crate::crypto;
    use crate::fakenet::*;
    use crate::krpc;
    use crate::sim::*;
    use std::net::Ipv4Addr;
    for r in 0..rounds {
        let target = rng.id();
        let n_insecure = rng.range(21, 30) as usize;
        let n_secure = rng.range(2, 6) as usize;
        let mut at: Vec<([u8; 20], SocketAddrV4)> = vec![];
        // secure chain first (index 0 = bootstrap)
        for i in 0..n_secure {
            let ip = Ipv4Addr::new(45 + i as u8, 20 + r as u8, 7, 1 + i as u8);
            at.push((crypto::bep42_id(ip, rng.id()), SocketAddrV4::new(ip, 6881)));
        }
        for i in 0..n_insecure {
            let ip = Ipv4Addr::new(80 + (i / 200) as u8, 1 + r as u8, 9, 1 + (i % 200) as u8);
            let mut id = target;
            for x in id.iter_mut().skip(14) {
                *x = rng.below(256) as u8;
            }
            if crypto::bep42_valid(&id, ip) {
                id[0] ^= 0x80;
            }
            at.push((id, SocketAddrV4::new(ip, 6881)));
        }
        let mut sim = Sim::new(seed ^ (r * 41 + 17), NetCfg { lat_min_ms: 5, lat_max_ms: 25, ..Default::default() });
        sim.record = true;
        let all = at.clone();
        let policy: Policy = Box::new(move |me, m, wi| {
            let q = m.q.clone().unwrap_or_default();
            let on_target = m.target() == Some(target);
            let listed: Vec<([u8; 20], SocketAddrV4)> = if !on_target {
                vec![all[0]]
            } else if me.idx == 0 {
                // the bootstrap peer knows the next secure peer and every insecure one
                std::iter::once(all[1]).chain(all.iter().skip(n_secure).cloned()).collect()
            } else if me.idx + 1 < n_secure {
                vec![all[me.idx + 1]]
            } else {
                vec![all[me.idx]]
            };
            let nodes = krpc::compact_nodes(&listed);
            let b = match q.as_str() {
                "find_node" => lookup_reply(&nodes, me, m, wi, &[], false),
                "get" | "get_peers" | "get_signed_peers" => lookup_reply(&nodes, me, m, wi, &[], true),
                _ => krpc::response(&m.tid, &me.id, crate::bencode::B::dict(), Some(&wi.from)),
            };
            Reply::One(b, 10)
        });
        let fnet = FakeNet::install_at(&mut sim, &at, policy);
        let c = sim.add_node(NodeOpts::client(private_ip(3), &[fnet.bootstrap()[0].clone()]));
        sim.run_for(2500);
        let mut net = Net { sim, servers: vec![], clients: vec![c], boot: vec![], spec: NetSpec { servers: at.len(), clients: 1, plan: "public".into(), join: "mixed".into(), dead_bootstrap: 0, seed } };
        let kind = ["find_node", "closest", "peers"][r as usize % 3];
        let ev = one_lookup(&mut net, *b, c, kind, target);
        out.line(&ev);
        *b += 1;
    }
}

pub fn run(args: &Args) -> i32 {
    let seed = args.u64("seed", 1);
    let thorough = args.thorough();
    let mut out = Out::create(&args.str("out", "/verif/work/C07/trace.ndjson"));
    let mut rng = Rng::new(seed ^ 0xC07);
    let mut b = 0u64;
    let mut samples = vec![];
    let sizes: Vec<(usize, usize, &str)> = if thorough {
        vec![(2, 0, "private"), (3, 1, "private"), (5, 2, "public"), (8, 2, "private"), (12, 3, "public"), (20, 5, "private"), (25, 5, "public"), (40, 5, "private"), (60, 10, "public"), (60, 5, "private"), (120, 10, "private")]
    } else {
        vec![(2, 0, "private"), (5, 2, "private"), (9, 2, "public"), (25, 4, "private"), (40, 5, "public")]
    };
    let per_net = args.u64("per-net", if thorough { 60 } else { 14 });
    let only = args.get("only").and_then(|x| x.parse::<u64>().ok());
    for (ni, (servers, clients, plan)) in sizes.iter().enumerate() {
        let spec = NetSpec { servers: *servers, clients: *clients, plan: plan.to_string(), join: if ni % 2 == 0 { "sequential".into() } else { "simultaneous".into() }, dead_bootstrap: ni % 3, seed: seed ^ (ni as u64 * 7919) };
        let mut net = build(&spec);
        let all: Vec<usize> = net.servers.iter().chain(net.clients.iter()).cloned().collect();
        for j in 0..per_net {
            let n = *rng.pick(&all);
            let kind = *rng.pick(&["find_node", "find_node", "closest", "put", "peers"]);
            let target = match rng.below(4) {
                0 => net.sim.snapshot(n).map(|s| id_of_hex(&s.id)).unwrap_or_else(|| rng.id()),
                1 => {
                    let o = *rng.pick(&net.servers);
                    let mut t = net.sim.snapshot(o).map(|s| id_of_hex(&s.id)).unwrap_or_else(|| rng.id());
                    t[19] ^= rng.below(256) as u8;
                    t
                }
                _ => rng.id(),
            };
            if only.is_some() && only != Some(b) {
                // keep the network evolution identical: the lookup still runs
                let _ = one_lookup(&mut net, b, n, kind, target);
                b += 1;
                continue;
            }
            let ev = one_lookup(&mut net, b, n, kind, target);
            if samples.len() < 3 && j == 3 {
                let mut s = ev.clone();
                if let Some(o) = s.as_object_mut() {
                    o.remove("U");
                }
                samples.push(s);
            }
            out.line(&ev);
            b += 1;
        }
    }
    if only.is_none() {
        crafted(&mut b, seed, &mut out, &mut rng, if thorough { 90 } else { 15 });
        chain(&mut b, seed, &mut out, &mut rng, if thorough { 140 } else { 28 });
        mixed(&mut b, seed, &mut out, &mut rng, if thorough { 90 } else { 18 });
        slowtree(&mut b, seed, &mut out, &mut rng, if thorough { 600 } else { 80 });
        late_informant(&mut b, seed, &mut out, &mut rng, if thorough { 80 } else { 12 });
        renamed_informant(&mut b, seed, &mut out, &mut rng, if thorough { 88 } else { 22 });
    }
    out.finish();
    if let Some(p) = args.get("summary") {
        crate::util::write_json(p, &json!({"runs": b, "distinct_nontrivial": b, "samples": samples}));
    }
    println!("lookup driver: lookups={b}");
    0
}
