//! C13 driver: networks of real nodes joining through one bootstrap node (all join orders of the
//! generator: sequential / simultaneous / late joiners, private and public IP plans, bootstrap lists
//! with dead entries, only dead entries). Records every node's tables, the lookups each node performs
//! afterwards (which servers it queried), and the real `bootstrapped()` of a late threaded joiner.
use crate::calls::{GetKind, Outcome};
use crate::net::*;
use crate::rng::Rng;
use crate::sim::*;
use crate::util::{Args, Out};
use serde_json::{json, Value};
use std::net::Ipv4Addr;

/// For every address of `servers` that the lookup did not query: how many DISTINCT node ids the answers listed at that IP
/// (two or more = a stale id of the node - e.g. from before it re-keyed - next to its current one: the per-IP rule of the
/// candidate list keeps only the first it hears of, KF-C07-1 / KF-C11-1).
fn shadowed(tr: &LookupTrace, servers: &[std::net::SocketAddrV4], me: std::net::SocketAddrV4) -> Vec<Value> {
    servers
        .iter()
        .filter(|a| **a != me && !tr.queried.contains(a))
        .map(|a| {
            let ids: std::collections::HashSet<[u8; 20]> = tr.listed.iter().filter(|e| e.addr.ip() == a.ip()).map(|e| e.id).collect();
            json!([a.to_string(), ids.len()])
        })
        .collect()
}

pub fn one_net(b: u64, spec: &NetSpec, lookups: bool) -> Value {
    let mut net = build(spec);
    let mut rng = Rng::new(spec.seed ^ 0x13);
    // a late joiner through the real API: AsyncDht::bootstrapped() on a threaded node
    let late_ip = node_ip(&spec.plan, spec.servers + spec.clients + 1);
    let late = net.sim.add_node(NodeOpts::server(late_ip, &net.boot).threaded());
    let mut bc = net.sim.call_async(late, "bootstrapped", |d| Box::pin(async move { json!(d.bootstrapped().await) }));
    net.sim.poke(late);
    let t0 = net.sim.now_ns();
    let bdone = net.sim.run_calls(&mut [&mut bc], 120_000);
    let bdur = (bc.done_ns().unwrap_or(net.sim.now_ns()) - t0) / MS;
    let late_result = match bc.outcome() {
        Some(Outcome::Value(v)) => v.clone(),
        _ => json!("none"),
    };
    net.servers.push(late);
    net.sim.run_for(4000);
    // a node whose bootstrap list holds only dead addresses
    let dead_boot = vec![format!("{}:6881", Ipv4Addr::new(10, 251, 0, 1)), format!("{}:6881", Ipv4Addr::new(10, 251, 0, 2))];
    let lonely = net.sim.add_node(NodeOpts::client(node_ip(&spec.plan, spec.servers + spec.clients + 2), &dead_boot).threaded());
    let mut dc = net.sim.call_async(lonely, "bootstrapped", |d| Box::pin(async move { json!(d.bootstrapped().await) }));
    net.sim.poke(lonely);
    let t1 = net.sim.now_ns();
    let ddone = net.sim.run_calls(&mut [&mut dc], 120_000);
    let ddur = (dc.done_ns().unwrap_or(net.sim.now_ns()) - t1) / MS;
    let dead_result = match dc.outcome() {
        Some(Outcome::Value(v)) => v.clone(),
        _ => json!("none"),
    };
    let dead_tmax = net.sim.snapshot(lonely).map(|s| s.inflight.timeout_ns / MS).unwrap_or(500);
    net.sim.crash(lonely);
    // tables
    let all: Vec<usize> = net.servers.iter().chain(net.clients.iter()).cloned().collect();
    let tables = |net: &mut Net| -> Vec<Value> {
        let mut nodes = vec![];
        for &n in &all {
            if let Some(s) = net.sim.snapshot(n) {
                let rt: Vec<String> = s.routing_table.nodes.iter().map(|x| x.addr.clone()).collect();
                let srt: Vec<String> = s.signed_peers_routing_table.nodes.iter().map(|x| x.addr.clone()).collect();
                nodes.push(json!({"n":n,"addr":net.sim.nodes[n].addr.to_string(),"server":s.server_mode,"rt":rt,"srt":srt,
                    "has_bootstrap": !s.bootstrap.is_empty(), "id": s.id, "public_address": s.public_address.clone().unwrap_or_default(), "firewalled": s.firewalled}));
            }
        }
        nodes
    };
    let nodes = tables(&mut net);
    // every node looks a random target up: which servers did it query
    let mut lks = vec![];
    if lookups {
        if b % 2 == 1 {
            // (odd behaviours: FIRST of all, while the early joiners still know only the nodes they met when they joined)
            // an info_hash that HAS peers: the first node announces itself, then every node looks the info_hash up - an
            // answer that carries values also carries closer nodes, and the lookup goes on through them
            let swarm = rng.id();
            let announcer = all[0];
            let mut put = net.sim.call_put(announcer, dht::verif::PutRequestSpecific::AnnouncePeer(dht::verif::AnnouncePeerRequestArguments { info_hash: dht::Id::from(swarm), port: 5151, implied_port: None }), None, "ann");
            net.sim.poke(announcer);
            net.sim.run_calls(&mut [&mut put], 60_000);
            for &n in &all {
                let (call, log0) = do_lookup(&mut net, n, GetKind::Peers, swarm, "swarm");
                let tr = lookup_trace(&net.sim, n, &swarm, log0, call.done_ns().unwrap_or(net.sim.now_ns()));
                let sv: Vec<std::net::SocketAddrV4> = net.servers.iter().filter(|&&x| net.sim.nodes[x].alive).map(|&x| net.sim.nodes[x].addr).collect();
                lks.push(json!({"n":n,"done":call.done(),"queried":tr.queried.iter().map(|a| a.to_string()).collect::<Vec<_>>(),"swarm":true,"items":call.items.len(),
                    "missed_ids_listed": shadowed(&tr, &sv, net.sim.nodes[n].addr)}));
            }
        }
        // every node first looks the late joiner up BY ITS ID (the way one finds a particular server) - before it has had any
        // other occasion to hear of it: the joiner must be queried like any other server
        if let Some(late_id) = net.sim.snapshot(late).map(|s| id_of_hex(&s.id)).filter(|_| b % 2 == 0) {
            for (i, &n) in all.iter().enumerate() {
                if n == late {
                    continue;
                }
                let kind = if i % 2 == 0 { GetKind::FindNode } else { GetKind::Immutable };
                let (call, log0) = do_lookup(&mut net, n, kind, late_id, "by_id");
                let tr = lookup_trace(&net.sim, n, &late_id, log0, call.done_ns().unwrap_or(net.sim.now_ns()));
                if std::env::var("JOIN_DUMP").is_ok() {
                    let la = net.sim.nodes[late].addr;
                    eprintln!("by_id n={n} kind={} queried={} late_queried={} listed_late={:?} answered={}", if i % 2 == 0 { "fn" } else { "get" }, tr.queried.len(), tr.queried.contains(&la),
                        tr.listed.iter().filter(|e| e.addr == la).map(|e| crate::bencode::hex(&e.id[..4])).collect::<Vec<_>>(), tr.answered.len());
                }
                let sv: Vec<std::net::SocketAddrV4> = net.servers.iter().filter(|&&x| net.sim.nodes[x].alive).map(|&x| net.sim.nodes[x].addr).collect();
                lks.push(json!({"n":n,"done":call.done(),"queried":tr.queried.iter().map(|a| a.to_string()).collect::<Vec<_>>(),"by_id":true,
                    "missed_ids_listed": shadowed(&tr, &sv, net.sim.nodes[n].addr)}));
            }
        }
        for &n in &all {
            let target = rng.id();
            let (call, log0) = do_lookup(&mut net, n, GetKind::Immutable, target, "l");
            let tr = lookup_trace(&net.sim, n, &target, log0, call.done_ns().unwrap_or(net.sim.now_ns()));
            let sv: Vec<std::net::SocketAddrV4> = net.servers.iter().filter(|&&x| net.sim.nodes[x].alive).map(|&x| net.sim.nodes[x].addr).collect();
            lks.push(json!({"n":n,"done":call.done(),"queried":tr.queried.iter().map(|a| a.to_string()).collect::<Vec<_>>(),
                "missed_ids_listed": shadowed(&tr, &sv, net.sim.nodes[n].addr)}));
        }

        if b % 2 == 0 {
            // the same for an info_hash that HAS peers: the first node announces itself, then every node looks the info_hash up - an
            // answer that carries values also carries closer nodes, and the lookup goes on through them
            let swarm = rng.id();
            let announcer = all[0];
            let mut put = net.sim.call_put(announcer, dht::verif::PutRequestSpecific::AnnouncePeer(dht::verif::AnnouncePeerRequestArguments { info_hash: dht::Id::from(swarm), port: 5151, implied_port: None }), None, "ann");
            net.sim.poke(announcer);
            net.sim.run_calls(&mut [&mut put], 60_000);
            for &n in &all {
                let (call, log0) = do_lookup(&mut net, n, GetKind::Peers, swarm, "swarm");
                let tr = lookup_trace(&net.sim, n, &swarm, log0, call.done_ns().unwrap_or(net.sim.now_ns()));
                let sv: Vec<std::net::SocketAddrV4> = net.servers.iter().filter(|&&x| net.sim.nodes[x].alive).map(|&x| net.sim.nodes[x].addr).collect();
                lks.push(json!({"n":n,"done":call.done(),"queried":tr.queried.iter().map(|a| a.to_string()).collect::<Vec<_>>(),"swarm":true,"items":call.items.len(),
                    "missed_ids_listed": shadowed(&tr, &sv, net.sim.nodes[n].addr)}));
            }
        }
    }
    // the tables again once every node has used the network (its lookup collected address votes: on public plans this is
    // where a node confirms its address and re-keys) - the network must STAY connected
    net.sim.run_for(5000);
    let nodes_after = tables(&mut net);
    let panicked: Vec<usize> = all.iter().cloned().filter(|&n| net.sim.nodes[n].panicked).collect();
    json!({"e":"net","b":b,"spec":{"servers":spec.servers,"clients":spec.clients,"plan":spec.plan,"join":spec.join,"dead_bootstrap":spec.dead_bootstrap},
        "first": net.sim.nodes[net.servers[0]].addr.to_string(),
        "servers": net.servers.iter().map(|&n| net.sim.nodes[n].addr.to_string()).collect::<Vec<_>>(),
        "nodes": nodes, "nodes_after": nodes_after, "lookups": lks,
        "late": {"done": bdone, "result": late_result, "dur_ms": bdur},
        "dead": {"done": ddone, "result": dead_result, "dur_ms": ddur, "tmax_ms": dead_tmax, "addresses": 2},
        "panicked": panicked})
}

/// A joiner behind a SLOW link (round trip above the initial 500 ms request timeout) to a live network: its first attempts time
/// out, the late answers stretch the adaptive timeout, a later attempt succeeds. Both flavours: an inline node re-populating
/// on its own while its table is empty, and a threaded node whose caller keeps asking `bootstrapped()`.
pub fn slow_join(b: u64, seed: u64, one_way_ms: u64, threaded: bool) -> Value {
    let spec = NetSpec { servers: 3, clients: 0, plan: "private".into(), join: "sequential".into(), dead_bootstrap: 0, seed };
    let mut net = build(&spec);
    net.sim.cfg.lat_min_ms = one_way_ms;
    net.sim.cfg.lat_max_ms = one_way_ms + 20;
    let ip = node_ip(&spec.plan, 9);
    let t0 = net.sim.now_ns();
    let mut attempts = 0u64;
    let (joined, table, boot_true) = if threaded {
        let j = net.sim.add_node(NodeOpts::client(ip, &net.boot).threaded());
        let mut ok = false;
        while !ok && net.sim.now_ns() - t0 < 60_000 * MS {
            attempts += 1;
            let mut bc = net.sim.call_async(j, "bootstrapped", |d| Box::pin(async move { json!(d.bootstrapped().await) }));
            net.sim.poke(j);
            net.sim.run_calls(&mut [&mut bc], 30_000);
            ok = matches!(bc.outcome(), Some(Outcome::Value(v)) if v == &json!(true));
        }
        let size = net.sim.snapshot(j).map(|s| s.routing_table.size).unwrap_or(0);
        (size > 0, size, ok)
    } else {
        let j = net.sim.add_node(NodeOpts::client(ip, &net.boot));
        let mut size = 0;
        while size == 0 && net.sim.now_ns() - t0 < 60_000 * MS {
            net.sim.run_for(1000);
            size = net.sim.snapshot(j).map(|s| s.routing_table.size).unwrap_or(0);
        }
        (size > 0, size, size > 0)
    };
    let dur = (net.sim.now_ns() - t0) / MS;
    let panicked = net.sim.nodes.iter().any(|n| n.panicked);
    net.sim.shutdown();
    json!({"e":"slowjoin","b":b,"one_way_ms":one_way_ms,"threaded":threaded,"joined":joined,"bootstrapped":boot_true,"table":table,"dur_ms":dur,"attempts":attempts,
        "spec":{"servers":3,"clients":0,"plan":"private","join":"slow_link","dead_bootstrap":0},"panicked":panicked})
}

/// A joiner whose caller keeps asking: `bootstrapped()` is called again every `step_ms` for the first `calls` steps of the
/// node's life - while the first lookup is running, when it has just finished, while the ping that confirms the public address
/// (and re-keys the node, on the public_rekey plan) is on its way, and after.  Every one of the calls returns, with true.
pub fn ask_join(b: u64, seed: u64, plan: &str, lat_ms: u64, step_ms: u64, calls: usize, threaded: bool) -> Value {
    let spec = NetSpec { servers: 3, clients: 0, plan: plan.into(), join: "sequential".into(), dead_bootstrap: 0, seed };
    let mut net = build(&spec);
    net.sim.cfg.lat_min_ms = lat_ms;
    net.sim.cfg.lat_max_ms = lat_ms;
    let ip = node_ip(plan, 9);
    let mut o = NodeOpts::server(ip, &net.boot);
    o.threaded = threaded;
    if plan == "public" {
        o.public_ip = Some(ip); // the operator states the address: the id is valid for it from the start
    }
    let j = net.sim.add_node(o);
    let id0 = net.sim.snapshot(j).map(|s| s.id.clone()).unwrap_or_default();
    let mut cs: Vec<crate::calls::Call> = vec![];
    for _ in 0..calls {
        if threaded {
            // the production run loop takes one message per iteration (an idle iteration lasts a poll interval)
            cs.push(net.sim.call_async(j, "bootstrapped", |d| Box::pin(async move { json!(d.bootstrapped().await) })));
        } else {
            // what bootstrapped() does, handled at once: a find_node lookup of the id the node has NOW
            let mut id = [0u8; 20];
            if let Some(s) = net.sim.snapshot(j) {
                id.copy_from_slice(&crate::bencode::unhex(&s.id));
            }
            cs.push(net.sim.call_get(j, crate::calls::GetKind::FindNode, id, "find_node(self)"));
        }
        net.sim.poke(j);
        net.sim.run_for(step_ms);
    }
    {
        let mut refs: Vec<&mut crate::calls::Call> = cs.iter_mut().collect();
        // (the run loop takes one API message per iteration, and an idle iteration lasts a poll interval)
        net.sim.run_calls(&mut refs[..], 200_000);
    }
    if std::env::var("ASK_DUMP").is_ok() {
        for (i, c) in cs.iter().enumerate() {
            eprintln!("call {i} start={} done={:?} outcome={:?}", c.start_ns / MS, c.done_ns().map(|x| x / MS), c.outcome().map(|o| format!("{o:?}")));
        }
        eprintln!("now={} alive={}", net.sim.now_ns() / MS, net.sim.nodes[j].alive);
    }
    let returned = cs.iter().filter(|c| c.done()).count();
    let truthy = cs.iter().filter(|c| if threaded { matches!(c.outcome(), Some(Outcome::Value(v)) if v == &json!(true)) } else { c.done() }).count();
    let first_pending = cs.iter().position(|c| !c.done()).map(|i| i as i64).unwrap_or(-1);
    let snap = net.sim.snapshot(j);
    let rekeyed = snap.as_ref().map(|s| s.id != id0).unwrap_or(false);
    let table = snap.as_ref().map(|s| s.routing_table.size).unwrap_or(0);
    let panicked = net.sim.nodes.iter().any(|n| n.panicked);
    net.sim.shutdown();
    json!({"e":"askjoin","b":b,"threaded":threaded,"lat_ms":lat_ms,"step_ms":step_ms,"calls":calls,"returned":returned,"true":truthy,"first_pending":first_pending,
        "rekeyed":rekeyed,"table":table,
        "spec":{"servers":3,"clients":0,"plan":plan,"join":"ask_again","dead_bootstrap":0},"panicked":panicked})
}

pub fn run(args: &Args) -> i32 {
    let seed = args.u64("seed", 1);
    let thorough = args.thorough();
    let mut out = Out::create(&args.str("out", "/verif/work/C13/trace.ndjson"));
    let mut specs: Vec<NetSpec> = vec![];
    let sizes: Vec<usize> = if thorough { (1..=20).collect() } else { vec![1, 2, 3, 5, 8, 13, 20] };
    for (i, &s) in sizes.iter().enumerate() {
        for (j, plan) in ["private", "public"].iter().enumerate() {
            for (k, join) in ["sequential", "simultaneous"].iter().enumerate() {
                if !thorough && (i + j + k) % 2 == 1 {
                    continue;
                }
                specs.push(NetSpec { servers: s, clients: (i + j) % 4, plan: plan.to_string(), join: join.to_string(), dead_bootstrap: (i + k) % 3, seed: seed ^ ((i * 31 + j * 7 + k) as u64) });
            }
        }
    }
    // nobody knows its public address: every node (the bootstrap-less first one too) re-keys once its address is confirmed
    for (i, &sv) in (if thorough { vec![2usize, 3, 4, 6, 9, 12, 16, 20] } else { vec![2usize, 4, 9, 16] }).iter().enumerate() {
        specs.push(NetSpec { servers: sv, clients: i % 3, plan: "public_rekey".into(), join: ["sequential", "simultaneous"][i % 2].into(), dead_bootstrap: i % 2, seed: seed ^ (700 + i as u64) });
    }
    // bootstrap lists longer than one lookup's first round, the live server last (22 dead first) or in the middle
    for (i, &sv) in [3usize, 8].iter().enumerate() {
        specs.push(NetSpec { servers: sv, clients: 1, plan: "private".into(), join: "sequential".into(), dead_bootstrap: [22, 35][i], seed: seed ^ (900 + i as u64) });
    }
    // bootstrap lists whose first entries are not addresses at all
    for (i, &sv) in [2usize, 5].iter().enumerate() {
        specs.push(NetSpec { servers: sv, clients: 1, plan: "private".into(), join: "sequential".into(), dead_bootstrap: [100, 102][i], seed: seed ^ (950 + i as u64) });
    }
    // larger networks: connectivity verdict only
    let big: Vec<usize> = if thorough { vec![40, 60, 100, 200, 300] } else { vec![60] };
    let only = args.get("only").and_then(|x| x.parse::<u64>().ok());
    let mut b = 0u64;
    let mut samples = vec![];
    for spec in &specs {
        if only.is_none() || only == Some(b) {
            let ev = one_net(b, spec, true);
            if samples.len() < 2 && spec.servers == 3 {
                samples.push(ev.clone());
            }
            out.line(&ev);
        }
        b += 1;
    }
    for (i, &s) in big.iter().enumerate() {
        if only.is_none() || only == Some(b) {
            let spec = NetSpec { servers: s, clients: 5, plan: if i % 2 == 0 { "private".into() } else { "public".into() }, join: "sequential".into(), dead_bootstrap: 1, seed: seed ^ (s as u64) };
            out.line(&one_net(b, &spec, false));
        }
        b += 1;
    }
    // joiners behind slow links (round trips of 0.6 .. 1.5 s)
    for (i, &ow) in (if thorough { vec![300u64, 350, 400, 500, 600, 750] } else { vec![300u64, 450] }).iter().enumerate() {
        for threaded in [false, true] {
            if only.is_none() || only == Some(b) {
                out.line(&slow_join(b, seed ^ (i as u64 * 17), ow, threaded));
            }
            b += 1;
        }
    }
    // callers that keep asking bootstrapped(), on every plan, over fast and slow links
    for (i, &(lat, step, calls)) in (if thorough { vec![(1u64, 1u64, 100usize), (2, 1, 100), (5, 1, 150), (5, 2, 100), (20, 3, 120), (50, 7, 100), (120, 11, 100)] } else { vec![(1u64, 1u64, 80usize), (20, 3, 80)] }).iter().enumerate() {
        for plan in ["private", "public", "public_rekey"] {
            for threaded in [false, true] {
                if only.is_none() || only == Some(b) {
                    out.line(&ask_join(b, seed ^ (i as u64 * 23), plan, lat, step, if threaded { calls / 2 } else { calls }, threaded));
                }
                b += 1;
            }
        }
    }
    out.finish();
    if let Some(p) = args.get("summary") {
        crate::util::write_json(p, &json!({"runs": b, "distinct_nontrivial": b, "samples": samples}));
    }
    println!("join driver: networks={b}");
    0
}
