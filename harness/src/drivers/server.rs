//! Server driver (C03, C04, C15, capacity half of C20): replays abstract request histories against
//! ONE real server-mode node over the simulated wire and records, per request, the reply datagram
//! (decoded by the harness codec) and the H4 projection of the stores. The trace is judged by TLC
//! (spec/ServerTrace.tla). Histories come from the TLC generator (`--in`) and/or the seeded random
//! generator in this file (`--random N`).
use crate::bencode::{hex, B};
use crate::crypto;
use crate::krpc::{self, Msg};
use crate::rng::Rng;
use crate::sim::*;
use crate::util::{Args, Out};
use dht::verif as v;
use dht::{RequestFilter, RequestSpecific, ServerSettings};
use serde_json::{json, Value};
use std::collections::HashMap;
use std::net::{Ipv4Addr, SocketAddrV4};
use std::time::Duration;

#[derive(Debug, Clone)]
struct Filter(String);
impl RequestFilter for Filter {
    fn allow_request(&self, _request: &RequestSpecific, from: SocketAddrV4) -> bool {
        // the harness' helper peer (10.77/16) and the node's own address (its self-ping) are not subject to the veto
        if from.ip().octets()[..2] == [10, 77] || *from.ip() == Ipv4Addr::new(45, 77, 1, 1) {
            return true;
        }
        match self.0.as_str() {
            "denyall" => false,
            "denyb" => from.ip() != &ip_of("b"),
            _ => true,
        }
    }
}

fn ip_of(label: &str) -> Ipv4Addr {
    match label {
        "a" => Ipv4Addr::new(45, 10, 0, 1),
        "b" => Ipv4Addr::new(45, 10, 0, 2),
        "c" => Ipv4Addr::new(45, 10, 0, 3), // differs from "a" in one bit of the last octet
        // "x<N>": the N-th of a crowd of other requesters
        l if l.starts_with('x') && l[1..].parse::<u32>().is_ok() => {
            let n = l[1..].parse::<u32>().unwrap_or(0);
            Ipv4Addr::new(45, 20 + (n / 62_500) as u8, ((n / 250) % 250) as u8, (n % 250) as u8 + 1)
        }
        _ => Ipv4Addr::new(45, 10, 9, 9),
    }
}
fn ip_label(ip: &Ipv4Addr) -> String {
    for l in ["a", "b", "c"] {
        if ip_of(l) == *ip {
            return l.to_string();
        }
    }
    let o = ip.octets();
    if o[0] == 45 && o[1] >= 20 && o[3] >= 1 {
        return format!("x{}", (o[1] as u32 - 20) * 62_500 + o[2] as u32 * 250 + o[3] as u32 - 1);
    }
    ip.to_string()
}

pub fn val_len(label: &str) -> usize {
    match label {
        "v1" => 10,
        "v2" => 12,
        "vmax" | "wmax" => 1000,
        "vbig" | "wbig" => 1001,
        "w1" => 5,
        "w2" => 7,
        "w3" => 9,
        _ => 16,
    }
}
pub fn val_bytes(label: &str) -> Vec<u8> {
    let n = val_len(label);
    let mut v = label.as_bytes().to_vec();
    while v.len() < n {
        v.push(b'.');
    }
    v.truncate(n);
    v
}
pub fn salt_len(label: &str) -> usize {
    match label {
        "" => 0,
        "s64" => 64,
        "sbig" => 65,
        // far beyond the limit, around the widths of the integer types a length might be squeezed into
        "s255" => 255,
        "s256" => 256,
        "s257" => 257,
        "s300" => 300,
        "s320" => 320,
        "s321" => 321,
        "s512" => 512,
        "s576" => 576,
        "s1024" => 1024,
        "s1088" => 1088,
        l => l.len(),
    }
}
pub fn salt_bytes(label: &str) -> Option<Vec<u8>> {
    if label.is_empty() {
        return None;
    }
    let n = salt_len(label);
    // "s2" / "s3" are BINARY salts (not valid UTF-8; they differ only in such a byte): BEP44 salts are byte strings
    if label == "s2" || label == "s3" {
        return Some(vec![b's', if label == "s2" { 0xB2 } else { 0xB3 }]);
    }
    let mut v = label.as_bytes().to_vec();
    while v.len() < n {
        v.push(b'_');
    }
    Some(v)
}
fn key_no(label: &str) -> u8 {
    label.trim_start_matches('k').parse().unwrap_or(9)
}
fn info_hash(label: &str) -> [u8; 20] {
    crypto::sha1(format!("infohash:{label}").as_bytes())
}
fn nid(label: &str) -> [u8; 20] {
    crypto::sha1(format!("nodeid:{label}").as_bytes())
}

struct Ctx {
    /// hex(target) -> abstract label (JSON)
    targets: HashMap<String, Value>,
    vals: HashMap<String, String>,
    keys: HashMap<String, String>,
    ts: HashMap<u64, i64>,
    tokens: Vec<Option<Vec<u8>>>,
    foreign_token: Vec<u8>,
    /// (key label, salt label, seq) -> (value label, signature) of valid items sent so far in this behaviour
    sigs: HashMap<(String, String, i64), (String, [u8; 64])>,
    /// real seq = seq_base + abstract seq (order preserving): behaviours run at 0, at i64::MIN, just below i64::MAX and across 0
    seq_base: i64,
}

fn target_of_label(ctx: &mut Ctx, t: &Value) -> [u8; 20] {
    let id = if let Some(a) = t.as_array() {
        match a[0].as_str().unwrap_or("") {
            "i" => {
                let l = a[1].as_str().unwrap_or("");
                if l == "other" {
                    crypto::immutable_target(b"some other value")
                } else {
                    crypto::immutable_target(&val_bytes(l))
                }
            }
            _ => {
                let k = crypto::keypair(key_no(a[1].as_str().unwrap_or("k9")));
                let salt = salt_bytes(a[2].as_str().unwrap_or(""));
                crypto::mutable_target(&k.verifying_key().to_bytes(), salt.as_deref())
            }
        }
    } else {
        info_hash(t.as_str().unwrap_or("h?"))
    };
    ctx.targets.insert(hex(&id), t.clone());
    id
}

fn label_of_target(ctx: &Ctx, h: &str) -> Value {
    ctx.targets.get(h).cloned().unwrap_or(json!(["?", h]))
}

fn from_addr(r: &Value) -> SocketAddrV4 {
    SocketAddrV4::new(
        ip_of(r["from"]["ip"].as_str().unwrap_or("a")),
        r["from"]["port"].as_u64().unwrap_or(1001) as u16,
    )
}

fn token_bytes(ctx: &Ctx, r: &Value, rng: &mut Rng) -> Vec<u8> {
    let t = &r["tok"];
    match t["kind"].as_str().unwrap_or("none") {
        "issued" => ctx
            .tokens
            .get(t["step"].as_u64().unwrap_or(9999) as usize)
            .cloned()
            .flatten()
            .unwrap_or_else(|| rng.bytes(4)),
        "flip" => {
            let mut b = ctx
                .tokens
                .get(t["step"].as_u64().unwrap_or(9999) as usize)
                .cloned()
                .flatten()
                .unwrap_or_else(|| rng.bytes(4));
            if !b.is_empty() {
                let i = rng.below(b.len() as u64 * 8) as usize;
                b[i / 8] ^= 1 << (i % 8);
            }
            b
        }
        "foreign" => ctx.foreign_token.clone(),
        "empty" => vec![],
        // a token anybody can compute OFFLINE from public data, the way this implementation computes tokens (CRC32C over the
        // presenter's IP and a 20-byte secret) but with a secret that is no secret: twenty equal bytes (zero-initialised /
        // memset state), nothing at all, the presenter's address again
        "offline" => {
            let v = t["v"].as_u64().unwrap_or(0);
            let ip = from_addr(r).ip().octets();
            let mut data = ip.to_vec();
            match v {
                0..=255 => data.extend_from_slice(&[v as u8; 20]),
                256 => {}
                257 => data.extend_from_slice(&from_addr(r).port().to_be_bytes()),
                258 => data.extend_from_slice(&ip),
                _ => data = vec![0u8; 20],
            }
            crypto::crc32c(&data).to_be_bytes().to_vec()
        }
        _ => rng.bytes(4),
    }
}

/// Build the datagram for abstract request `r` (after normalising derived fields in place).
fn concretise(ctx: &mut Ctx, r: &mut Value, step: usize, rng: &mut Rng) -> Option<Vec<u8>> {
    let tid = 0x4000_0000u32 + step as u32;
    let me = nid("requester");
    let kind = r["kind"].as_str().unwrap_or("").to_string();
    let b = match kind.as_str() {
        "ping" => krpc::ping(tid, &me, false),
        "findnode" => krpc::find_node(tid, &me, &nid("sometarget"), true), // ro: stay out of the routing table
        "get" => {
            let t = target_of_label(ctx, &r["t"].clone());
            let seqf = r["seqf"].as_i64().unwrap_or(-1);
            krpc::get_value(tid, &me, &t, if seqf >= 0 { Some(ctx.seq_base + seqf) } else { None }, false)
        }
        "getpeers" | "getspeers" => {
            let t = target_of_label(ctx, &r["t"].clone());
            krpc::get_peers(tid, &me, &t, kind == "getspeers", false)
        }
        "putimm" => {
            let val = r["val"].as_str().unwrap_or("v1").to_string();
            let bytes = val_bytes(&val);
            r["vlen"] = json!(bytes.len());
            let hashok = r["hashok"].as_bool().unwrap_or(true);
            r["t"] = if hashok { json!(["i", val]) } else { json!(["i", "other"]) };
            let t = target_of_label(ctx, &r["t"].clone());
            ctx.vals.insert(hex(&bytes), val.clone());
            let tok = token_bytes(ctx, r, rng);
            krpc::put_immutable(tid, &me, &t, &tok, &bytes)
        }
        "putmut" => {
            let val = r["val"].as_str().unwrap_or("w1").to_string();
            let bytes = val_bytes(&val);
            r["vlen"] = json!(bytes.len());
            let salt_l = r["salt"].as_str().unwrap_or("").to_string();
            r["slen"] = json!(salt_len(&salt_l));
            let salt = salt_bytes(&salt_l);
            let kl = r["k"].as_str().unwrap_or("k1").to_string();
            let tkl = r["tk"].as_str().unwrap_or(&kl).to_string();
            let sk = crypto::keypair(key_no(&kl));
            let pk = sk.verifying_key().to_bytes();
            ctx.keys.insert(hex(&pk), kl.clone());
            ctx.vals.insert(hex(&bytes), val.clone());
            let t = target_of_label(ctx, &json!(["m", tkl, salt_l]));
            let aseq = r["seq"].as_i64().unwrap_or(0);
            let seq = ctx.seq_base + aseq;
            let cas = r["cas"].as_i64().unwrap_or(-1);
            let mut sig = crypto::sign_mutable(&sk, seq, &bytes, salt.as_deref());
            // a genuine signature made earlier in this behaviour for the same key and salt but ANOTHER (seq, value) - the stored
            // item's among them (k and sig of a stored item are public: every get returns them); the same seq is preferred
            let replayable = ctx.sigs.get(&(kl.clone(), salt_l.clone(), aseq)).filter(|(v0, _)| *v0 != val).map(|x| x.1).or_else(|| {
                let mut c: Vec<(i64, [u8; 64])> = ctx.sigs.iter().filter(|((k0, s0, q0), (v0, _))| *k0 == kl && *s0 == salt_l && !(*q0 == aseq && *v0 == val)).map(|((_, _, q0), (_, g))| (*q0, *g)).collect();
                c.sort_by_key(|x| x.0);
                c.last().map(|x| x.1)
            });
            if r["sigok"].as_bool().unwrap_or(true) {
                ctx.sigs.insert((kl.clone(), salt_l.clone(), aseq), (val.clone(), sig));
            } else if let (Some(old), true) = (replayable, r["sigmode"] == "replay" || rng.chance(2, 3)) {
                // the genuine signature of ANOTHER value with the same key, salt and seq (possibly the stored one)
                sig = old;
            } else {
                match rng.below(4) {
                    0 => sig[rng.below(64) as usize] ^= 1 << rng.below(8),
                    1 => sig = crypto::sign_mutable(&sk, seq.wrapping_add(1), &bytes, salt.as_deref()),
                    2 => sig = crypto::sign_mutable(&crypto::keypair(77), seq, &bytes, salt.as_deref()),
                    _ => sig = crypto::sign_mutable(&sk, seq, &bytes, Some(b"another salt")),
                }
            }
            let tok = token_bytes(ctx, r, rng);
            krpc::put_mutable(
                tid,
                &me,
                &t,
                &tok,
                &bytes,
                &pk,
                &sig,
                seq,
                if cas >= 0 { Some(ctx.seq_base + cas) } else { None },
                salt.as_deref(),
            )
        }
        "announce" => {
            let t = target_of_label(ctx, &r["t"].clone());
            let tok = token_bytes(ctx, r, rng);
            let id = nid(r["nid"].as_str().unwrap_or("n1"));
            let implied = r["implied"].as_bool().unwrap_or(false);
            let mut a = B::dict();
            a.set("info_hash", B::bytes(t));
            a.set("token", B::bytes(&tok));
            a.set("port", B::Int(r["port"].as_i64().unwrap_or(7) as i128));
            if implied {
                a.set("implied_port", B::Int(1));
            } else if rng.chance(1, 2) {
                a.set("implied_port", B::Int(0));
            }
            krpc::request(tid, "announce_peer", &id, a, false)
        }
        "sannounce" => {
            let t = target_of_label(ctx, &r["t"].clone());
            let tok = token_bytes(ctx, r, rng);
            let kl = r["k"].as_str().unwrap_or("k1").to_string();
            let sk = crypto::keypair(key_no(&kl));
            let pk = sk.verifying_key().to_bytes();
            ctx.keys.insert(hex(&pk), kl);
            let dt = r["dt"].as_i64().unwrap_or(0);
            // + step microseconds: announcements made at the same (frozen) instant keep distinct timestamps, so that the
            // timestamp -> step label map read back from get_signed_peers answers is unambiguous
            let ts = (v::unix_micros() as i64 + dt * 1000 + step as i64) as u64;
            r["ts"] = json!(step);
            ctx.ts.insert(ts, step as i64);
            let mut sig = crypto::sign(&sk, &crypto::announce_signable(&t, ts));
            if !r["sigok"].as_bool().unwrap_or(true) {
                match rng.below(3) {
                    0 => sig[rng.below(64) as usize] ^= 1 << rng.below(8),
                    1 => sig = crypto::sign(&sk, &crypto::announce_signable(&t, ts + 1)),
                    _ => sig = crypto::sign(&sk, &crypto::announce_signable(&info_hash("elsewhere"), ts)),
                }
            }
            krpc::announce_signed_peer(tid, &me, &t, &tok, &pk, &sig, ts)
        }
        _ => return None,
    };
    Some(b.encode())
}

fn abstract_reply(ctx: &mut Ctx, req_kind: &str, reply: Option<&Msg>) -> (Value, Option<Vec<u8>>) {
    let mut o = json!({"kind":"none","code":0,"val":"","k":"","seq":-1,"peers":[],"tok":false});
    let m = match reply {
        Some(m) => m,
        None => return (o, None),
    };
    let mut token = None;
    if m.is_error() {
        o["kind"] = json!("error");
        o["code"] = json!(m.error_code().unwrap_or(-1) as i64);
        return (o, None);
    }
    if !m.is_response() {
        o["kind"] = json!("garbage");
        return (o, None);
    }
    if let Some(t) = m.arg_bytes("token") {
        token = Some(t.to_vec());
        o["tok"] = json!(true);
    }
    let kind = m.response_kind();
    let kind = match (kind, req_kind) {
        ("ping", "ping") => "pong",
        ("ping", k) if k.starts_with("put") || k.ends_with("announce") => "ack",
        ("ping", _) => "pong",
        ("nodes", _) => "nodes",
        ("immutable", _) => "imm",
        ("mutable", _) => "mut",
        ("signed_peers", _) => "speers",
        (k, _) => k,
    };
    o["kind"] = json!(kind);
    if let Some(vb) = m.arg_bytes("v") {
        o["val"] = json!(ctx.vals.get(&hex(vb)).cloned().unwrap_or(format!("?{}", hex(&vb[..vb.len().min(8)]))));
    }
    if let Some(kb) = m.arg_bytes("k") {
        o["k"] = json!(ctx.keys.get(&hex(kb)).cloned().unwrap_or(format!("?{}", hex(kb))));
    }
    if let Some(s) = m.arg_int("seq") {
        o["seq"] = json!((s as i64).wrapping_sub(ctx.seq_base));
    }
    if kind == "peers" {
        let mut ps = vec![];
        if let Some(l) = m.args().and_then(|a| a.get("values")).and_then(|x| x.as_list()) {
            for p in l {
                if let Some(a) = p.as_bytes().and_then(krpc::parse_compact_addr) {
                    ps.push(json!([ip_label(a.ip()), a.port()]));
                } else {
                    ps.push(json!(["?", 0]));
                }
            }
        }
        o["peers"] = json!(ps);
    }
    if kind == "speers" {
        let mut ps = vec![];
        if let Some(l) = m.args().and_then(|a| a.get("peers")).and_then(|x| x.as_list()) {
            for p in l {
                match p.as_bytes() {
                    Some(b) if b.len() == 104 => {
                        let k = ctx.keys.get(&hex(&b[..32])).cloned().unwrap_or("?".into());
                        let mut t8 = [0u8; 8];
                        t8.copy_from_slice(&b[32..40]);
                        let t = u64::from_be_bytes(t8);
                        ps.push(json!([k, ctx.ts.get(&t).cloned().unwrap_or(-7)]));
                    }
                    _ => ps.push(json!(["?", -8])),
                }
            }
        }
        o["peers"] = json!(ps);
    }
    (o, token)
}

fn projection(ctx: &Ctx, snap: &v::ServerSnap) -> Value {
    json!({
        "imm": snap.immutable.iter().map(|h| label_of_target(ctx, h)).collect::<Vec<_>>(),
        "mut": snap.mutable.iter().map(|(h, s)| json!([label_of_target(ctx, h), s.wrapping_sub(ctx.seq_base)])).collect::<Vec<_>>(),
        "peers": snap.peers.iter().map(|(h, n)| json!([label_of_target(ctx, h), n])).collect::<Vec<_>>(),
        "sp": snap.signed_peers.iter().map(|(h, n)| json!([label_of_target(ctx, h), n])).collect::<Vec<_>>(),
    })
}

fn caps_of(b: &Value) -> (usize, usize, usize, usize) {
    let c = &b["caps"];
    (
        c["imm"].as_u64().unwrap_or(1000) as usize,
        c["mut"].as_u64().unwrap_or(1000) as usize,
        c["hash"].as_u64().unwrap_or(2000) as usize,
        c["peers"].as_u64().unwrap_or(500) as usize,
    )
}

/// Replay one behaviour; append trace lines. Returns (requests, node panicked, some put was acked or rejected).
pub fn replay(b: &Value, out: &mut Out, seed: u64) -> (u64, bool, bool) {
    let mut rng = Rng::new(seed ^ b["b"].as_u64().unwrap_or(0).wrapping_mul(0x9E37));
    let mut sim = Sim::new(seed ^ b["b"].as_u64().unwrap_or(0), NetCfg::default());
    let (ci, cm, ch, cp) = caps_of(b);
    let filter = b["filter"].as_str().unwrap_or("allow").to_string();
    let settings = ServerSettings {
        max_info_hashes: ch,
        max_peers_per_info_hash: cp,
        max_immutable_values: ci,
        max_mutable_values: cm,
        filter: Box::new(Filter(filter.clone())),
    };
    let mut o = NodeOpts::server(Ipv4Addr::new(45, 77, 1, 1), &[]);
    o.settings = Some(settings);
    let n = sim.add_node(o);
    // the node learns its public address from a peer, confirms it with the ping it sends itself and takes the BEP42 id for it (its
    // random id is not valid for 45.77.1.1); returns whether the id changed
    let rekey_dance = |sim: &mut Sim| -> bool {
        use crate::fakenet::*;
        let id0 = sim.snapshot(n).map(|s| s.id.clone()).unwrap_or_default();
        let pid = crypto::sha1(b"helper peer");
        let net = FakeNet::install(sim, &[pid], Box::new(|_, _, _| Reply::Default));
        let paddr: SocketAddrV4 = net.bootstrap()[0].parse().expect("addr");
        let _ = sim.exchange(n, paddr, &krpc::find_node(77, &pid, &pid, false).encode());
        let mut call = sim.call_get(n, crate::calls::GetKind::FindNode, crypto::sha1(b"some target"), "warmup");
        sim.poke(n);
        sim.run_calls(&mut [&mut call], 5000);
        sim.run_for(1500);
        sim.snapshot(n).map(|s| s.id != id0).unwrap_or(false)
    };
    if b["rekey"].as_bool().unwrap_or(false) {
        // before the history starts: the configured filter and capacities are those of the node, whatever id it has
        let rekeyed = rekey_dance(&mut sim);
        out.line(&json!({"e":"note","b":b["b"],"rekeyed":rekeyed}));
    }
    // a second, unrelated server whose token for address "a" is the "foreign" token
    let f = sim.add_node(NodeOpts::server(Ipv4Addr::new(45, 77, 1, 2), &[]));
    let server_addr = sim.nodes[n].addr;
    let _ = server_addr;
    let mut ctx = Ctx {
        targets: HashMap::new(),
        vals: HashMap::new(),
        keys: HashMap::new(),
        ts: HashMap::new(),
        tokens: vec![],
        foreign_token: vec![],
        sigs: HashMap::new(),
        seq_base: match b["b"].as_u64().unwrap_or(0) % 4 {
            1 => i64::MIN,
            2 => i64::MAX - 8,
            3 => -2,
            _ => 0,
        },
    };
    {
        let q = krpc::get_value(1, &nid("requester"), &[7u8; 20], None, false).encode();
        let outs = sim.exchange(f, SocketAddrV4::new(ip_of("a"), 1001), &q);
        if let Some(m) = outs.first().and_then(|d| Msg::parse(&d.bytes)) {
            ctx.foreign_token = m.arg_bytes("token").map(|t| t.to_vec()).unwrap_or_default();
        }
    }
    out.line(&json!({"e":"reset","b":b["b"],"filter":filter,
        "caps":{"imm":ci,"mut":cm,"hash":ch,"peers":cp}}));
    let steps = b["steps"].as_array().cloned().unwrap_or_default();
    let mut count = 0;
    let mut nontrivial = false;
    for (i, step) in steps.iter().enumerate() {
        let mut r = step.clone();
        let kind = r["kind"].as_str().unwrap_or("").to_string();
        if kind == "rekey" {
            // in the middle of a history (right after a request, so that no token rotation is due while it lasts): for the model
            // nothing happens but the time that passes
            let t0 = sim.now_ns();
            let rekeyed = rekey_dance(&mut sim);
            let ms = (sim.now_ns() - t0) / crate::sim::MS;
            ctx.tokens.push(None);
            let snap = sim.snapshot(n).map(|s| projection(&ctx, &s.server)).unwrap_or(json!(null));
            out.line(&json!({"e":"req","r":{"kind":"advance","ms":ms,"rekeyed":rekeyed},"o":{"kind":"none","code":0,"val":"","k":"","seq":-1,"peers":[],"tok":false},"A":snap}));
            count += 1;
            continue;
        }
        if kind == "flood" {
            // `n` lookups from as many strangers, not recorded one by one (each is answered with a token; nothing is stored):
            // for the model no time passes and nothing changes
            let nreq = r["n"].as_u64().unwrap_or(0);
            for j in 0..nreq {
                let from = SocketAddrV4::new(ip_of(&format!("x{}", 100_000 + j)), 1001);
                let q = krpc::get_peers(9, &nid("flooder"), &info_hash("flooded"), j % 2 == 1, false).encode();
                let _ = sim.exchange(n, from, &q);
                if sim.nodes[n].panicked {
                    break;
                }
            }
            ctx.tokens.push(None);
            let snap = sim.snapshot(n).map(|s| projection(&ctx, &s.server)).unwrap_or(json!(null));
            out.line(&json!({"e":"req","r":{"kind":"advance","ms":0,"flood":nreq},"o":{"kind":"none","code":0,"val":"","k":"","seq":-1,"peers":[],"tok":false},"A":snap}));
            count += 1;
            continue;
        }
        if kind == "advance" {
            v::advance(Duration::from_millis(r["ms"].as_u64().unwrap_or(0)));
            ctx.tokens.push(None);
            let snap = sim.snapshot(n).map(|s| projection(&ctx, &s.server)).unwrap_or(json!(null));
            out.line(&json!({"e":"req","r":r,"o":{"kind":"none","code":0,"val":"","k":"","seq":-1,"peers":[],"tok":false},"A":snap}));
            count += 1;
            continue;
        }
        let from = from_addr(&r);
        let bytes = match concretise(&mut ctx, &mut r, i, &mut rng) {
            Some(b) => b,
            None => continue,
        };
        let outs = sim.exchange(n, from, &bytes);
        if sim.nodes[n].panicked {
            out.line(&json!({"e":"req","r":r,"o":{"kind":"PANIC","code":0,"val":"","k":"","seq":-1,"peers":[],"tok":false},"A":{"imm":[],"mut":[],"peers":[],"sp":[]}}));
            return (count + 1, true, true);
        }
        let reply = outs.iter().find(|d| d.to == from).and_then(|d| Msg::parse(&d.bytes));
        let (o, token) = abstract_reply(&mut ctx, &kind, reply.as_ref());
        if o["kind"] == "ack" || o["kind"] == "error" {
            nontrivial = true;
        }
        ctx.tokens.push(token);
        let snap = sim.snapshot(n).map(|s| projection(&ctx, &s.server)).unwrap_or(json!(null));
        out.line(&json!({"e":"req","r":r,"o":o,"A":snap}));
        count += 1;
    }
    (count, false, nontrivial)
}

// ------------------------------------------------------------------ random histories

fn pick<'a>(rng: &mut Rng, v: &[&'a str]) -> &'a str {
    v[rng.below(v.len() as u64) as usize]
}

/// Directed recency probes: fill a store of capacity 1..3, "use" its oldest entry in one particular way (the identical item
/// again, a newer item, a put rejected with 302 / 301, a get with and without seq filter - or not at all), write one more
/// entry so that exactly one entry must go, then ask for every entry and try to roll every entry back. The LRU reference
/// (Server.tla) says who must have survived; stores: mutable items, immutable values, peers of an info_hash.
pub fn lru_probes(id0: u64) -> Vec<Value> {
    let mut v = vec![];
    let from = json!({"ip": "a", "port": 1001});
    let tok = json!({"kind":"issued","step":0});
    let targets = [("k1", ""), ("k1", "s1"), ("k1", "s2"), ("k2", "")];
    let putmut = |t: (&str, &str), seq: i64, cas: i64, val: &str| json!({"kind":"putmut","from":from,"tok":tok,"k":t.0,"tk":t.0,"salt":t.1,"slen":0,
        "seq":seq,"cas":cas,"val":val,"vlen":0,"sigok":true});
    let getmut = |t: (&str, &str), seqf: i64| json!({"kind":"get","from":from,"t":["m", t.0, t.1],"seqf":seqf});
    let mut id = id0;
    for cap in 1..=3usize {
        for usage in ["none", "reput_same", "put_higher", "put_lower_302", "cas_mismatch_301", "get", "get_seqf"] {
            for used in 0..cap.min(2) {
                let mut steps = vec![json!({"kind":"get","from":from,"t":["i","v1"],"seqf":-1})];
                for i in 0..cap {
                    steps.push(putmut(targets[i], 2, -1, "w1"));
                }
                let u = targets[used];
                match usage {
                    "reput_same" => steps.push(putmut(u, 2, -1, "w1")),
                    "put_higher" => steps.push(putmut(u, 3, -1, "w2")),
                    "put_lower_302" => steps.push(putmut(u, 1, -1, "w2")),
                    "cas_mismatch_301" => steps.push(putmut(u, 3, 0, "w2")),
                    "get" => steps.push(getmut(u, -1)),
                    "get_seqf" => steps.push(getmut(u, 2)),
                    _ => {}
                }
                steps.push(putmut(targets[cap], 2, -1, "w3"));
                for i in 0..=cap {
                    steps.push(putmut(targets[i], 1, -1, "w2"));
                    steps.push(getmut(targets[i], -1));
                }
                id += 1;
                v.push(json!({"b": id, "filter": "allow", "caps": {"imm": cap, "mut": cap, "hash": cap, "peers": cap}, "steps": steps}));
            }
        }
        // immutable values and announced peers: same idea, uses = get / identical put again / announce again
        for usage in ["none", "reput", "get"] {
            let ivals = ["v1", "v2", "vmax", "v1"];
            let mut steps = vec![json!({"kind":"get","from":from,"t":["i","v1"],"seqf":-1})];
            let putimm = |val: &str| json!({"kind":"putimm","from":from,"tok":tok,"t":["i",val],"val":val,"vlen":0,"hashok":true});
            let getimm = |val: &str| json!({"kind":"get","from":from,"t":["i",val],"seqf":-1});
            let names: Vec<&str> = ivals.iter().take(cap + 1).cloned().collect();
            if names[cap] == names[0] {
                continue;
            }
            for i in 0..cap {
                steps.push(putimm(names[i]));
            }
            match usage {
                "reput" => steps.push(putimm(names[0])),
                "get" => steps.push(getimm(names[0])),
                _ => {}
            }
            steps.push(putimm(names[cap]));
            for n in &names {
                steps.push(getimm(n));
            }
            id += 1;
            v.push(json!({"b": id, "filter": "allow", "caps": {"imm": cap, "mut": cap, "hash": cap, "peers": cap}, "steps": steps}));
        }
        for usage in ["none", "reannounce", "getpeers"] {
            let hashes = ["h1", "h2", "h3", "h1"];
            let names: Vec<&str> = hashes.iter().take(cap + 1).cloned().collect();
            if names[cap] == names[0] {
                continue;
            }
            let mut steps = vec![json!({"kind":"getpeers","from":from,"t":"h3"})];
            let ann = |h: &str, nid: &str, port: u64| json!({"kind":"announce","from":from,"tok":tok,"t":h,"nid":nid,"port":port,"implied":false});
            let getp = |h: &str| json!({"kind":"getpeers","from":from,"t":h});
            for i in 0..cap {
                steps.push(ann(names[i], "n1", 7));
            }
            match usage {
                "reannounce" => steps.push(ann(names[0], "n1", 8)),
                "getpeers" => steps.push(getp(names[0])),
                _ => {}
            }
            steps.push(ann(names[cap], "n2", 7));
            for n in &names {
                steps.push(getp(n));
            }
            id += 1;
            v.push(json!({"b": id, "filter": "allow", "caps": {"imm": cap, "mut": cap, "hash": cap, "peers": 2}, "steps": steps}));
        }
    }
    v
}

/// A seeded random history biased towards the interesting neighbourhood of each property.
pub fn random_behaviour(id: u64, rng: &mut Rng, focus: &str, len: usize) -> Value {
    let small = rng.chance(2, 3);
    let caps = if small {
        json!({"imm": rng.range(1, 3), "mut": rng.range(1, 3), "hash": rng.range(1, 2), "peers": rng.range(1, 3)})
    } else {
        json!({"imm": 1000, "mut": 1000, "hash": 2000, "peers": 500})
    };
    let filter = if rng.chance(1, 8) { pick(rng, &["denyall", "denyb"]) } else { "allow" };
    let mut steps: Vec<Value> = vec![];
    let mut token_steps: Vec<usize> = vec![];
    let froms = [("a", 1001u16), ("a", 1002), ("b", 1001), ("c", 1001)];
    let keys = ["k1", "k2"];
    let salts = ["", "", "s1", "s2", "s3", "s64", "sbig"];
    let mvals = ["w1", "w2", "w3", "wmax", "wbig"];
    let ivals = ["v1", "v2", "vmax", "vbig"];
    let hashes = ["h1", "h2", "h3"];
    // a freshly started server (no rotation yet, nothing issued yet): writes that are valid but for an offline-computable token
    if focus == "C15" && rng.chance(1, 2) {
        for v in [0u64, 255, 256] {
            let from = json!({"ip": pick(rng, &["a", "b"]), "port": 1001});
            steps.push(match rng.below(3) {
                0 => json!({"kind":"putimm","from":from,"tok":{"kind":"offline","v":v},"t":["i","v1"],"val":"v1","vlen":0,"hashok":true}),
                1 => json!({"kind":"announce","from":from,"tok":{"kind":"offline","v":v},"t":"h1","nid":"n1","port":7,"implied":false}),
                _ => json!({"kind":"putmut","from":from,"tok":{"kind":"offline","v":v},"k":"k1","tk":"k1","salt":"","slen":0,"seq":1,"cas":-1,"val":"w1","vlen":0,"sigok":true}),
            });
        }
    }
    for _ in 0..len {
        let i = steps.len();
        let nf = if rng.chance(3, 4) { 2 } else { 4 };
        let (fip, fport) = froms[rng.below(nf) as usize];
        let from = json!({"ip": fip, "port": fport});
        let tok = if !token_steps.is_empty() && rng.chance(4, 5) {
            let s = token_steps[token_steps.len() - 1 - rng.below(token_steps.len().min(3) as u64) as usize];
            if rng.chance(1, 12) {
                json!({"kind":"flip","step":s})
            } else {
                json!({"kind":"issued","step":s})
            }
        } else {
            let k = pick(rng, &["none", "empty", "foreign", "garbage", "offline"]);
            if k == "offline" {
                // the all-zero and the all-ones secret half of the time
                json!({"kind": k, "v": if rng.chance(1, 2) { *rng.pick(&[0u64, 0, 255]) } else { rng.below(260) }})
            } else {
                json!({"kind": k})
            }
        };
        let w = rng.below(100);
        let mut_focus = focus == "C04";
        let tok_focus = focus == "C15";
        let step = if w < 12 || (tok_focus && w < 30) {
            let ms = *rng.pick(&[1u64, 1000, 60_000, 150_000, 299_999, 300_000, 300_001, 301_000, 45_000, 600_001]);
            json!({"kind":"advance","ms":ms})
        } else if w < 40 {
            token_steps.push(i);
            let t = if rng.chance(1, 2) || mut_focus {
                json!(["m", pick(rng, &keys), pick(rng, &salts[..5])])
            } else {
                json!(["i", pick(rng, &ivals[..3])])
            };
            let seqf = if rng.chance(1, 3) { rng.below(4) as i64 } else { -1 };
            if !mut_focus && rng.chance(1, 4) {
                json!({"kind": pick(rng, &["getpeers", "getspeers"]), "from": from, "t": pick(rng, &hashes)})
            } else {
                json!({"kind":"get","from":from,"t":t,"seqf":seqf})
            }
        } else if w < 70 || mut_focus {
            let k = pick(rng, &keys);
            let tk = if rng.chance(1, 10) { pick(rng, &keys) } else { k };
            let cas = if rng.chance(1, 3) { rng.below(4) as i64 } else { -1 };
            let nv = if rng.chance(1, 6) { 5 } else { 3 };
            json!({"kind":"putmut","from":from,"tok":tok,"k":k,"tk":tk,"salt":pick(rng, &salts),"slen":0,
                   "seq":rng.below(4),"cas":cas,"val":pick(rng, &mvals[..nv]),"vlen":0,
                   "sigok":!rng.chance(1,8)})
        } else if w < 82 {
            json!({"kind":"putimm","from":from,"tok":tok,"t":["i","v1"],"val":pick(rng, &ivals),"vlen":0,"hashok":!rng.chance(1,6)})
        } else if w < 90 {
            json!({"kind":"announce","from":from,"tok":tok,"t":pick(rng, &hashes),"nid":pick(rng, &["n1","n2","n3"]),
                   "port":rng.range(1, 9),"implied":rng.chance(1,2)})
        } else if w < 97 {
            let dt = *rng.pick(&[0i64, 1000, -1000, 44_000, -44_000, 44_999, 45_001, -45_001, 46_000, -46_000, 3_600_000]);
            json!({"kind":"sannounce","from":from,"tok":tok,"t":pick(rng, &hashes),"k":pick(rng, &keys),"ts":0,"dt":dt,"sigok":!rng.chance(1,6)})
        } else {
            json!({"kind": pick(rng, &["ping", "findnode"]), "from": from})
        };
        steps.push(step);
    }
    json!({"b": id, "filter": filter, "caps": caps, "steps": steps})
}

struct Tally {
    behaviours: u64,
    requests: u64,
    panics: u64,
    distinct: std::collections::HashSet<u64>,
}
impl Tally {
    fn add(&mut self, b: &Value, r: (u64, bool, bool)) {
        use std::hash::{Hash, Hasher};
        self.behaviours += 1;
        self.requests += r.0;
        self.panics += r.1 as u64;
        if r.2 {
            let mut h = std::collections::hash_map::DefaultHasher::new();
            b["steps"].to_string().hash(&mut h);
            b["caps"].to_string().hash(&mut h);
            b["filter"].to_string().hash(&mut h);
            self.distinct.insert(h.finish());
        }
    }
}

/// Replays of a public signature: a valid item is stored; a put then presents the STORED item's key and signature with another
/// seq and / or value (higher seq, same seq, with the matching cas, with a huge seq); it is refused (206) and a get still returns
/// the genuine item; the owner's next genuine write goes through.
pub fn sig_replay_probes(id0: u64) -> Vec<Value> {
    let mut v = vec![];
    let from = json!({"ip": "a", "port": 1001});
    let tok = json!({"kind":"issued","step":0});
    let put = |seq: i64, cas: i64, val: &str, ok: bool| json!({"kind":"putmut","from":from,"tok":tok,"k":"k1","tk":"k1","salt":"","slen":0,
        "seq":seq,"cas":cas,"val":val,"vlen":0,"sigok":ok,"sigmode": if ok { "" } else { "replay" }});
    let get = || json!({"kind":"get","from":from,"t":["m","k1",""],"seqf":-1});
    let mut id = id0;
    for (seq2, cas2, val2) in [(2i64, -1i64, "w2"), (1, -1, "w2"), (3, -1, "w1"), (3, 1, "w2"), (1, 1, "w3")] {
        let steps = vec![get(), put(1, -1, "w1", true), put(seq2, cas2, val2, false), get(), put(2, 1, "w3", true), get()];
        v.push(json!({"b": id, "filter": "allow", "caps": {"imm": 1000, "mut": 1000, "hash": 2000, "peers": 500}, "steps": steps}));
        id += 1;
    }
    v
}

/// Sizes: every salt length class (0, 64, 65, then far beyond the limit: 255 .. 1088) and value length class, each written with a
/// fresh token and a good signature and read back; an oversized item must be refused with 207 and must not be served.
pub fn size_probes(id0: u64) -> Vec<Value> {
    let from = json!({"ip": "a", "port": 1001});
    let tok = json!({"kind":"issued","step":0});
    let mut v = vec![];
    let mut id = id0;
    for group in [&["s64", "sbig", "s255", "s256"][..], &["s257", "s300", "s320", "s321"][..], &["s512", "s576", "s1024", "s1088"][..]] {
        let mut steps = vec![json!({"kind":"get","from":from,"t":["m","k1",""],"seqf":-1})];
        for salt in group {
            steps.push(json!({"kind":"putmut","from":from,"tok":tok,"k":"k1","tk":"k1","salt":salt,"slen":0,"seq":1,"cas":-1,"val":"w1","vlen":0,"sigok":true}));
            steps.push(json!({"kind":"get","from":from,"t":["m","k1",salt],"seqf":-1}));
        }
        for val in ["wmax", "wbig"] {
            steps.push(json!({"kind":"putmut","from":from,"tok":tok,"k":"k2","tk":"k2","salt":"","slen":0,"seq":1,"cas":-1,"val":val,"vlen":0,"sigok":true}));
            steps.push(json!({"kind":"get","from":from,"t":["m","k2",""],"seqf":-1}));
        }
        for val in ["vmax", "vbig"] {
            steps.push(json!({"kind":"putimm","from":from,"tok":tok,"t":["i",val],"val":val,"vlen":0,"hashok":true}));
            steps.push(json!({"kind":"get","from":from,"t":["i",val],"seqf":-1}));
        }
        v.push(json!({"b": id, "filter": "allow", "caps": {"imm": 1000, "mut": 1000, "hash": 2000, "peers": 500}, "steps": steps}));
        id += 1;
    }
    v
}

/// The same node after it took a new id: histories that start once a public-address server has confirmed its address and
/// re-keyed. Vetoed requests are still vetoed, small stores are still small.
pub fn rekey_probes(id0: u64) -> Vec<Value> {
    let a = json!({"ip": "a", "port": 1001});
    let bb = json!({"ip": "b", "port": 1001});
    let tok = json!({"kind":"issued","step":0});
    let get = |f: &Value, k: &str| json!({"kind":"get","from":f,"t":["m",k,""],"seqf":-1});
    let put = |f: &Value, k: &str, step: u64| json!({"kind":"putmut","from":f,"tok":{"kind":"issued","step":step},"k":k,"tk":k,"salt":"","slen":0,"seq":1,"cas":-1,"val":"w1","vlen":0,"sigok":true});
    let _ = tok;
    let mut v = vec![];
    v.push(json!({"b": id0, "rekey": true, "filter": "denyall", "caps": {"imm": 1000, "mut": 1000, "hash": 2000, "peers": 500},
        "steps": [json!({"kind":"ping","from":a}), get(&a, "k1"), json!({"kind":"findnode","from":a}), json!({"kind":"getpeers","from":a,"t":"h1"})]}));
    v.push(json!({"b": id0 + 1, "rekey": true, "filter": "denyb", "caps": {"imm": 1000, "mut": 1000, "hash": 2000, "peers": 500},
        "steps": [get(&bb, "k1"), json!({"kind":"ping","from":bb}), get(&a, "k1"), put(&a, "k1", 2), get(&bb, "k1"), get(&a, "k1")]}));
    // a re-key in the middle of a history, seconds after a scheduled token rotation: a token that is a few seconds old stays good
    // (lookup at 4:59, another request at 5:01, the re-key, the write)
    for early in [299_000u64, 200_000, 10_000] {
        v.push(json!({"b": id0 + 3 + early / 100_000, "filter": "allow", "caps": {"imm": 1000, "mut": 1000, "hash": 2000, "peers": 500},
            "steps": [json!({"kind":"advance","ms":early}), get(&a, "k1"), json!({"kind":"advance","ms":302_000 - early}), json!({"kind":"ping","from":bb}),
                      json!({"kind":"advance","ms":1000}), json!({"kind":"rekey"}), put(&a, "k1", 1), get(&a, "k1"),
                      json!({"kind":"announce","from":a,"tok":{"kind":"issued","step":1},"t":"h1","nid":"n1","port":7,"implied":false})]}));
    }
    v.push(json!({"b": id0 + 2, "rekey": true, "filter": "allow", "caps": {"imm": 1, "mut": 1, "hash": 1, "peers": 1},
        "steps": [get(&a, "k1"), put(&a, "k1", 0), put(&a, "k2", 0), get(&a, "k1"), get(&a, "k2"),
                  json!({"kind":"announce","from":a,"tok":{"kind":"issued","step":0},"t":"h1","nid":"n1","port":7,"implied":false}),
                  json!({"kind":"announce","from":a,"tok":{"kind":"issued","step":0},"t":"h2","nid":"n2","port":8,"implied":false}),
                  json!({"kind":"getpeers","from":a,"t":"h1"}), json!({"kind":"getpeers","from":a,"t":"h2"})]}));
    v
}

/// Crowds: N different announcers (node ids, ports) / N different signers on ONE info_hash, then a lookup of it, for N around
/// the size of an answer (20 peers / 10 signed announcements: an answer is a random sample once more are stored), a few more
/// announces and lookups, and a second info_hash beside it.
pub fn crowd_probes(id0: u64) -> Vec<Value> {
    let mut v = vec![];
    let from = json!({"ip": "a", "port": 1001});
    let tok = json!({"kind":"issued","step":0});
    let mut id = id0;
    for signed in [false, true] {
        // (count of announcers, configured capacity per info_hash): around the answer size with the default capacity, and past
        // capacities that are neither tiny nor the default (17, 33: between the sizes a growing allocation would pass through)
        for (n, cap) in [(1usize, 500usize), (9, 500), (10, 500), (11, 500), (19, 500), (20, 500), (21, 500), (22, 500), (40, 500), (40, 17), (40, 33), (70, 33)] {
            let mut steps = vec![json!({"kind": if signed { "getspeers" } else { "getpeers" }, "from": from, "t": "h1"})];
            let ann = |j: usize, h: &str| {
                if signed {
                    json!({"kind":"sannounce","from":from,"tok":tok,"t":h,"k":format!("k{}", 20 + j),"ts":0,"dt":0,"sigok":true})
                } else {
                    json!({"kind":"announce","from":from,"tok":tok,"t":h,"nid":format!("n{}", 20 + j),"port":100 + j,"implied":false})
                }
            };
            let get = |h: &str| json!({"kind": if signed { "getspeers" } else { "getpeers" }, "from": from, "t": h});
            for j in 0..n {
                steps.push(ann(j, "h1"));
            }
            steps.push(get("h1"));
            steps.push(ann(0, "h2"));
            steps.push(get("h1"));
            steps.push(ann(n, "h1"));
            steps.push(get("h1"));
            steps.push(get("h2"));
            steps.push(json!({"kind":"ping","from":from}));
            v.push(json!({"b": id, "filter": "allow", "caps": {"imm": 1000, "mut": 1000, "hash": 2000, "peers": cap}, "steps": steps}));
            id += 1;
        }
    }
    v
}

/// A busy node: between a requester's lookup and its write (well inside the five minutes a token is good for) `crowd` OTHER
/// addresses look something up and are handed tokens of their own. Lookup-then-put still works - for every write kind, with and
/// without a rotation in between.
pub fn busy_token_probes(id0: u64, crowd: u32) -> Vec<Value> {
    let mut v = vec![];
    let from = json!({"ip": "a", "port": 1001});
    let tok = json!({"kind":"issued","step":0});
    for (k, rotate) in [false, true].iter().enumerate() {
        let mut steps = vec![json!({"kind":"get","from":from,"t":["i","v1"],"seqf":-1})];
        if *rotate {
            steps.push(json!({"kind":"advance","ms":200_000}));
        }
        for n in 0..crowd {
            let f = json!({"ip": format!("x{n}"), "port": 1001});
            steps.push(match n % 3 {
                0 => json!({"kind":"get","from":f,"t":["i","v2"],"seqf":-1}),
                1 => json!({"kind":"getpeers","from":f,"t":"h1"}),
                _ => json!({"kind":"getspeers","from":f,"t":"h2"}),
            });
        }
        if *rotate {
            steps.push(json!({"kind":"advance","ms":90_000}));
        }
        steps.push(json!({"kind":"putimm","from":from,"tok":tok,"t":["i","v1"],"val":"v1","vlen":0,"hashok":true}));
        steps.push(json!({"kind":"announce","from":from,"tok":tok,"t":"h1","nid":"n1","port":7,"implied":false}));
        steps.push(json!({"kind":"putmut","from":from,"tok":tok,"k":"k1","tk":"k1","salt":"","slen":0,"seq":1,"cas":-1,"val":"w1","vlen":0,"sigok":true}));
        steps.push(json!({"kind":"sannounce","from":from,"tok":tok,"t":"h2","k":"k1","ts":0,"dt":0,"sigok":true}));
        v.push(json!({"b": id0 + k as u64, "filter": "allow", "caps": {"imm": 1000, "mut": 1000, "hash": 2000, "peers": 500}, "steps": steps}));
    }
    v
}

/// A token survives any NUMBER of other lookups: between the lookup and the write the node answers tens of thousands of lookups
/// from strangers (a popular node; or somebody who wants writes to fail) - seconds pass at most, the token is still good.
pub fn flood_probes(id0: u64) -> Vec<Value> {
    let from = json!({"ip": "a", "port": 1001});
    let tok = json!({"kind":"issued","step":0});
    let get = || json!({"kind":"get","from":from,"t":["i","v1"],"seqf":-1});
    let writes = |steps: &mut Vec<Value>, k: &str| {
        steps.push(json!({"kind":"putmut","from":from,"tok":tok,"k":k,"tk":k,"salt":"","slen":0,"seq":1,"cas":-1,"val":"w1","vlen":0,"sigok":true}));
        steps.push(json!({"kind":"announce","from":from,"tok":tok,"t":"h1","nid":"n1","port":7,"implied":false}));
    };
    let mut v = vec![];
    for (k, floods) in [vec![70_000u64], vec![16_383, 1, 16_384, 1], vec![33_000, 33_000]].iter().enumerate() {
        let mut steps = vec![get()];
        for (i, f) in floods.iter().enumerate() {
            steps.push(json!({"kind":"flood","n":f}));
            writes(&mut steps, if i % 2 == 0 { "k1" } else { "k2" });
        }
        v.push(json!({"b": id0 + k as u64, "filter": "allow", "caps": {"imm": 1000, "mut": 1000, "hash": 2000, "peers": 500}, "steps": steps}));
    }
    v
}

pub fn run(args: &Args) -> i32 {
    let seed = args.u64("seed", 1);
    let mut out = Out::create(&args.str("out", "/verif/work/server/trace.ndjson"));
    let mut t = Tally { behaviours: 0, requests: 0, panics: 0, distinct: Default::default() };
    let mut samples: Vec<Value> = vec![];
    if let Some(path) = args.get("in") {
        let text = std::fs::read_to_string(path).expect("read behaviours");
        for line in text.lines() {
            if let Ok(b) = serde_json::from_str::<Value>(line) {
                let r = replay(&b, &mut out, seed);
                t.add(&b, r);
                if samples.len() < 2 {
                    samples.push(b);
                }
            }
        }
    }
    if let Some(path) = args.get("gen") {
        // TLC state-graph export: one line per distinct design state = shortest prefix + every enabled request
        let permille = args.u64("sample-permille", 1000);
        let text = std::fs::read_to_string(path).expect("read gen");
        let mut srng = Rng::new(seed ^ 0xABCD);
        let mut id = 0u64;
        for line in text.lines() {
            let g: Value = match serde_json::from_str(line) {
                Ok(g) => g,
                Err(_) => continue,
            };
            let prefix = g["prefix"].as_array().cloned().unwrap_or_default();
            for r in g["requests"].as_array().cloned().unwrap_or_default() {
                id += 1;
                if srng.below(1000) >= permille {
                    continue;
                }
                let mut steps = prefix.clone();
                steps.push(r);
                let b = json!({"b": id, "filter": g["filter"], "caps": g["caps"], "steps": steps});
                let r = replay(&b, &mut out, seed);
                t.add(&b, r);
                if samples.len() < 3 && srng.chance(1, 50) {
                    samples.push(b);
                }
            }
        }
    }
    let n = args.u64("random", 0);
    let len = args.u64("len", 30) as usize;
    let focus = args.str("focus", "C03");
    let mut rng = Rng::new(seed.wrapping_mul(77).wrapping_add(5));
    if n > 0 || args.u64("probes", 0) > 0 {
        for b in lru_probes(2_000_000).into_iter().chain(crowd_probes(3_000_000)).chain(sig_replay_probes(5_000_000)).chain(rekey_probes(6_000_000)).chain(size_probes(7_000_000)).chain(flood_probes(8_000_000)) {
            let r = replay(&b, &mut out, seed);
            t.add(&b, r);
        }
    }
    if n > 0 && focus == "C15" {
        for b in busy_token_probes(4_000_000, if args.thorough() { 5200 } else { 1100 }) {
            let r = replay(&b, &mut out, seed);
            t.add(&b, r);
        }
    }
    for i in 0..n {
        let b = random_behaviour(1_000_000 + i, &mut rng, &focus, len);
        let r = replay(&b, &mut out, seed);
        t.add(&b, r);
        if samples.len() < 4 {
            samples.push(b);
        }
    }
    out.finish();
    let (behaviours, requests, panics) = (t.behaviours, t.requests, t.panics);
    let summary = json!({"behaviours": behaviours, "requests": requests, "panics": panics,
        "distinct_nontrivial": t.distinct.len(), "samples": samples});
    if let Some(p) = args.get("summary") {
        crate::util::write_json(p, &summary);
    }
    println!("server driver: behaviours={behaviours} requests={requests} panics={panics}");
    0
}
