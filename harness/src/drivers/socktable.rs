//! C09 at the level of the socket alone: a bare KrpcSocket (hook `SocketUnderTest`) driven call by call - requests to two
//! addresses, genuine / duplicate / spoofed / late replies, receives without a message, pauses - one trace line per call,
//! judged by SockTableTrace.tla (model SockTable.tla stepped alongside).
use crate::krpc;
use crate::rng::Rng;
use crate::util::{Args, Out};
use dht::verif as v;
use serde_json::{json, Value};
use std::collections::HashSet;
use std::net::{Ipv4Addr, SocketAddrV4};
use std::time::Duration;

fn addr(label: &str) -> SocketAddrV4 {
    match label {
        "a" => SocketAddrV4::new(Ipv4Addr::new(10, 90, 0, 1), 6881),
        "b" => SocketAddrV4::new(Ipv4Addr::new(10, 90, 0, 2), 6881),
        // strangers: same ip as a / b on another port; ips whose bits contain / are contained in those of a and b; the edges
        "a_port" => SocketAddrV4::new(Ipv4Addr::new(10, 90, 0, 1), 6882),
        "b_port" => SocketAddrV4::new(Ipv4Addr::new(10, 90, 0, 2), 16881),
        "super" => SocketAddrV4::new(Ipv4Addr::new(10, 90, 0, 3), 6881),
        "super2" => SocketAddrV4::new(Ipv4Addr::new(26, 218, 128, 7), 6881),
        "ones" => SocketAddrV4::new(Ipv4Addr::new(255, 255, 255, 255), 6881),
        "sub" => SocketAddrV4::new(Ipv4Addr::new(10, 90, 0, 0), 6881),
        "zero" => SocketAddrV4::new(Ipv4Addr::new(0, 0, 0, 0), 6881),
        // the peer's ip with port 0: the socket drops such datagrams unread
        "port0" => SocketAddrV4::new(Ipv4Addr::new(10, 90, 0, 1), 0),
        _ => SocketAddrV4::new(Ipv4Addr::new(10, 66, 6, 6), 6881),
    }
}

struct Run {
    sock: v::SocketUnderTest,
    /// (tid, to label) of every request, newest last
    sent: Vec<(u32, String)>,
    replied: HashSet<(u32, String)>,
    lines: u64,
}

impl Run {
    fn snap(&self) -> (Vec<u32>, usize, u32, (u64, u64)) {
        let s = self.sock.snapshot();
        (s.entries.iter().map(|e| e.0).collect(), s.capacity, s.next_tid, (s.timeout_ns / 1_000_000, (s.timeout_ns + 999_999) / 1_000_000))
    }
    fn send(&mut self, to: &str, out: &mut Out) {
        let tid = self.sock.request(addr(to));
        let _ = v::sim_take_outbox();
        let (present, cap, next, _) = self.snap();
        out.line(&json!({"e":"op","op":"send","to":to,"tid":tid,"present":present,"cap":cap,"next_tid":next}));
        self.sent.push((tid, to.to_string()));
        self.lines += 1;
    }
    fn recv(&mut self, tid: i64, from: &str, error: bool, out: &mut Out) {
        self.recv_kind(tid, from, if tid < 0 { "none" } else if error { "err" } else { "resp" }, out)
    }
    /// kind: none (the read times out), resp, err, req (a REQUEST carrying that transaction id), junk (bytes that are no message)
    fn recv_kind(&mut self, tid: i64, from: &str, kind: &str, out: &mut Out) {
        let (before, _, _, timeout) = self.snap();
        let t = (tid.max(0) as u32).to_be_bytes();
        let input = match kind {
            "none" => None,
            "err" => Some((krpc::error(&t, 203, "x").encode(), addr(from))),
            "req" => Some((krpc::ping(tid.max(0) as u32, &[9u8; 20], false).encode(), addr(from))),
            "junk" => {
                // a response cut short: the transaction id is there, the message is not
                let mut b = krpc::response(&t, &[7u8; 20], crate::bencode::B::dict(), None).encode();
                b.truncate(b.len() - 3);
                Some((b, addr(from)))
            }
            "big" => {
                // the largest answer an honest node sends: a 1000-byte mutable value with key, signature, token and twenty nodes
                // (about 1.7 kB, inside the 2 048 bytes a node reads)
                let mut r = crate::bencode::B::dict();
                r.set("nodes", crate::bencode::B::bytes(&[0x42u8; 26 * 20][..]));
                r.set("v", crate::bencode::B::bytes(&[b'v'; 1000][..]));
                r.set("k", crate::bencode::B::bytes(&[1u8; 32][..]));
                r.set("sig", crate::bencode::B::bytes(&[2u8; 64][..]));
                r.set("seq", crate::bencode::B::Int(7));
                r.set("token", crate::bencode::B::bytes(&[3u8; 4][..]));
                Some((krpc::response(&t, &[7u8; 20], r, Some(&addr("a"))).encode(), addr(from)))
            }
            _ => Some((krpc::response(&t, &[7u8; 20], crate::bencode::B::dict(), None).encode(), addr(from))),
        };
        let handed = self.sock.recv(input).is_some();
        let (present, cap, next, _) = self.snap();
        let answers = kind == "resp" || kind == "err" || kind == "big";
        let first = answers && self.replied.insert((tid as u32, from.to_string()));
        out.line(&json!({"e":"op","op":"recv","tid":tid,"from":from,"kind":kind,
            "timeout_ms":timeout.0,"timeout_hi_ms":timeout.1,"handed":handed,"present_before":before,"present":present,"cap":cap,"next_tid":next,"first_reply":first}));
        self.lines += 1;
    }
    fn advance(&mut self, ms: u64, out: &mut Out) {
        v::advance(Duration::from_millis(ms));
        out.line(&json!({"e":"op","op":"advance","ms":ms}));
        self.lines += 1;
    }
}

fn start(b: u64, out: &mut Out) -> Run {
    v::sim_reset();
    v::reset_clock();
    out.line(&json!({"e":"reset","b":b}));
    Run { sock: v::SocketUnderTest::new(Ipv4Addr::new(10, 90, 0, 9)), sent: vec![], replied: HashSet::new(), lines: 1 }
}

/// Directed: k requests at one instant, everything expires, a receive, m more requests, then the late replies of the first
/// generation from the right address (k passes through the capacities 4 and 8).
fn generations(b: u64, k: usize, m: usize, out: &mut Out) -> u64 {
    let mut r = start(b, out);
    for i in 0..k {
        r.send(if i % 2 == 0 { "a" } else { "b" }, out);
    }
    r.advance(600, out);
    r.recv(-1, "a", false, out);
    for i in 0..m {
        r.send(if i % 2 == 0 { "a" } else { "b" }, out);
    }
    let first: Vec<(u32, String)> = r.sent.iter().take(k).cloned().collect();
    for (t, to) in first {
        r.recv(t as i64, &to, false, out);
    }
    r.advance(100, out);
    let second: Vec<(u32, String)> = r.sent.iter().skip(k).cloned().collect();
    for (t, to) in second {
        r.recv(t as i64, &to, false, out);
    }
    r.lines
}

fn random(b: u64, rng: &mut Rng, len: usize, out: &mut Out) -> u64 {
    let mut r = start(b, out);
    for _ in 0..len {
        match rng.below(100) {
            0..=34 => {
                let to = if rng.chance(1, 2) { "a" } else { "b" };
                r.send(to, out);
            }
            35..=59 if !r.sent.is_empty() => {
                // a reply to one of the requests (often a recent one), from the right address
                let i = r.sent.len() - 1 - rng.below(r.sent.len().min(6) as u64) as usize;
                let (t, to) = r.sent[i].clone();
                if rng.chance(1, 4) {
                    r.recv_kind(t as i64, &to, "big", out);
                } else {
                    r.recv(t as i64, &to, rng.chance(1, 5), out);
                }
            }
            60..=69 if !r.sent.is_empty() => {
                // a spoof: right id from a wrong address, or a guessed neighbouring id
                let (t, to) = r.sent[rng.below(r.sent.len() as u64) as usize].clone();
                match rng.below(3) {
                    0 => r.recv(t as i64, *rng.pick(&["evil", "a_port", "b_port", "super", "super2", "ones", "sub", "zero"]), rng.chance(1, 4), out),
                    1 => r.recv(t as i64, if to == "a" { "b" } else { "a" }, false, out),
                    _ => r.recv(t as i64 + 1 + rng.below(3) as i64, &to, false, out),
                }
            }
            70..=73 if !r.sent.is_empty() => {
                // not a reply at all: a request that happens to carry the id, a truncated message, a datagram from port 0
                let (t, to) = r.sent[r.sent.len() - 1 - rng.below(r.sent.len().min(4) as u64) as usize].clone();
                match rng.below(4) {
                    0 => r.recv_kind(t as i64, &to, "req", out),
                    1 => r.recv_kind(t as i64, "evil", "req", out),
                    2 => r.recv_kind(t as i64, &to, "junk", out),
                    _ => r.recv_kind(t as i64, "port0", "resp", out),
                }
            }
            70..=79 => r.recv(-1, "a", false, out),
            80..=89 => r.advance(*rng.pick(&[1u64, 50, 200, 499, 500, 501]), out),
            _ => r.advance(*rng.pick(&[600u64, 1200, 5000]), out),
        }
    }
    r.lines
}

pub fn run(args: &Args) -> i32 {
    let seed = args.u64("seed", 1);
    let mut out = Out::create(&args.str("out", "/verif/work/C09/trace-table.ndjson"));
    let only = args.get("only").and_then(|x| x.parse::<u64>().ok());
    let mut b = 0u64;
    let mut ran = 0u64;
    let mut lines = 0u64;
    for k in 1..=9usize {
        for m in [1usize, 4, 9] {
            if only.is_none() || only == Some(b) {
                lines += generations(b, k, m, &mut out);
                ran += 1;
            }
            b += 1;
        }
    }
    let len = args.u64("len", 40) as usize;
    for _ in 0..args.u64("random", 300) {
        if only.is_none() || only == Some(b) {
            let mut rng = Rng::new(seed ^ 0x50C7 ^ b.wrapping_mul(0x9E3779B9));
            lines += random(b, &mut rng, len, &mut out);
            ran += 1;
        }
        b += 1;
    }
    out.finish();
    if let Some(p) = args.get("summary") {
        crate::util::write_json(p, &json!({"runs": ran, "lines": lines, "distinct_nontrivial": ran, "samples": Vec::<Value>::new()}));
    }
    println!("socktable driver: behaviours={ran} lines={lines}");
    0
}
