use crate::calls::{GetKind, Outcome};
use crate::crypto;
use crate::sim::*;
use crate::util::Args;
use dht::verif as v;
use dht::PutRequestSpecific;

pub fn run(args: &Args) -> i32 {
    let n = args.u64("n", 8) as usize;
    let threaded = args.get("threaded").is_some();
    let t0 = std::time::Instant::now();
    let mut sim = Sim::new(args.u64("seed", 1), NetCfg::default());
    sim.record = true;
    let boot = vec![format!("{}:6881", private_ip(0))];
    sim.add_node(NodeOpts::server(private_ip(0), &[]));
    for i in 1..n {
        let mut o = NodeOpts::server(private_ip(i), &boot);
        if threaded && i == n - 1 {
            o = o.threaded();
        }
        sim.add_node(o);
        sim.run_for(2000);
    }
    let w = n - 1;
    let val = b"hello world".to_vec();
    let target = crypto::immutable_target(&val);
    let req = PutRequestSpecific::PutImmutable(v::PutImmutableRequestArguments { target: target.into(), v: val.clone().into() });
    let mut put = sim.call_put(w, req, None, "put");
    sim.poke(w);
    let ok = sim.run_calls(&mut [&mut put], 20_000);
    println!("put done={ok} outcome={:?} at {} ms", put.outcome(), sim.now_ms());
    let mut get = sim.call_get(1, GetKind::Immutable, target, "get");
    sim.poke(1);
    let ok = sim.run_calls(&mut [&mut get], 20_000);
    println!("get done={ok} items={:?} outcome={:?}", get.items.len(), get.outcome());
    let snap = sim.snapshot(w).unwrap();
    println!("snap rt={} queries={} inflight_total={} steps={} wires={} wall={:?}", snap.routing_table.size, snap.queries.len(), snap.inflight.total, sim.steps, sim.log.len(), t0.elapsed());
    sim.shutdown();
    if matches!(put.outcome(), Some(Outcome::PutOk(_))) && get.items.len() > 0 { 0 } else { 1 }
}
