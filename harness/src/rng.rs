//! Deterministic randomness: a seeded generator for the harness, and the process-global stream that
//! serves the library's `getrandom` calls (custom backend) and std's `RandomState` keys.
use std::sync::atomic::{AtomicU64, Ordering};

#[derive(Clone, Debug)]
pub struct Rng(pub u64);

impl Rng {
    pub fn new(seed: u64) -> Self {
        Rng(seed ^ 0x9E37_79B9_7F4A_7C15)
    }
    pub fn next_u64(&mut self) -> u64 {
        // splitmix64
        self.0 = self.0.wrapping_add(0x9E37_79B9_7F4A_7C15);
        let mut z = self.0;
        z = (z ^ (z >> 30)).wrapping_mul(0xBF58_476D_1CE4_E5B9);
        z = (z ^ (z >> 27)).wrapping_mul(0x94D0_49BB_1331_11EB);
        z ^ (z >> 31)
    }
    pub fn below(&mut self, n: u64) -> u64 {
        if n == 0 {
            0
        } else {
            self.next_u64() % n
        }
    }
    pub fn range(&mut self, lo: u64, hi_incl: u64) -> u64 {
        lo + self.below(hi_incl - lo + 1)
    }
    pub fn chance(&mut self, num: u64, den: u64) -> bool {
        self.below(den) < num
    }
    pub fn bytes(&mut self, n: usize) -> Vec<u8> {
        let mut v = Vec::with_capacity(n);
        while v.len() < n {
            let x = self.next_u64().to_le_bytes();
            for b in x {
                if v.len() < n {
                    v.push(b);
                }
            }
        }
        v
    }
    pub fn id(&mut self) -> [u8; 20] {
        let mut a = [0u8; 20];
        a.copy_from_slice(&self.bytes(20));
        a
    }
    pub fn pick<'a, T>(&mut self, v: &'a [T]) -> &'a T {
        &v[self.below(v.len() as u64) as usize]
    }
    pub fn shuffle<T>(&mut self, v: &mut [T]) {
        for i in (1..v.len()).rev() {
            let j = self.below(i as u64 + 1) as usize;
            v.swap(i, j);
        }
    }
    pub fn fork(&mut self) -> Rng {
        Rng::new(self.next_u64())
    }
}

static GLOBAL: AtomicU64 = AtomicU64::new(0x1234_5678_9ABC_DEF0);

/// Re-seed the stream behind the library's `getrandom`.
pub fn seed_global(seed: u64) {
    GLOBAL.store(seed ^ 0xD1B5_4A32_D192_ED03, Ordering::SeqCst);
}

fn global_next() -> u64 {
    let s = GLOBAL
        .fetch_add(0x9E37_79B9_7F4A_7C15, Ordering::SeqCst)
        .wrapping_add(0x9E37_79B9_7F4A_7C15);
    let mut z = s;
    z = (z ^ (z >> 30)).wrapping_mul(0xBF58_476D_1CE4_E5B9);
    z = (z ^ (z >> 27)).wrapping_mul(0x94D0_49BB_1331_11EB);
    z ^ (z >> 31)
}

pub fn fill_global(dest: &mut [u8]) {
    let mut i = 0;
    while i < dest.len() {
        let x = global_next().to_le_bytes();
        for b in x {
            if i < dest.len() {
                dest[i] = b;
                i += 1;
            }
        }
    }
}

/// getrandom 0.3 custom backend (selected by `--cfg getrandom_backend="custom"`).
#[no_mangle]
unsafe extern "Rust" fn __getrandom_v03_custom(
    dest: *mut u8,
    len: usize,
) -> Result<(), getrandom::Error> {
    let slice = std::slice::from_raw_parts_mut(dest, len);
    fill_global(slice);
    Ok(())
}

/// Interposes libc's `getrandom` so that std's `RandomState` keys (HashMap iteration order inside
/// the library) are reproducible. Constant output: only hash-map seeding uses it.
#[no_mangle]
pub unsafe extern "C" fn getrandom(buf: *mut u8, buflen: usize, _flags: u32) -> isize {
    for i in 0..buflen {
        *buf.add(i) = 0x5a;
    }
    buflen as isize
}
