//! Small helpers: argument parsing, trace writers.
use std::collections::HashMap;
use std::io::Write;

pub struct Args {
    pub map: HashMap<String, String>,
}
impl Args {
    pub fn parse(args: &[String]) -> Args {
        let mut map = HashMap::new();
        let mut i = 0;
        while i < args.len() {
            if let Some(k) = args[i].strip_prefix("--") {
                if i + 1 < args.len() && !args[i + 1].starts_with("--") {
                    map.insert(k.to_string(), args[i + 1].clone());
                    i += 2;
                    continue;
                }
                map.insert(k.to_string(), "true".to_string());
            }
            i += 1;
        }
        Args { map }
    }
    pub fn get(&self, k: &str) -> Option<&str> {
        self.map.get(k).map(|s| s.as_str())
    }
    pub fn str(&self, k: &str, d: &str) -> String {
        self.get(k).unwrap_or(d).to_string()
    }
    pub fn u64(&self, k: &str, d: u64) -> u64 {
        self.get(k).and_then(|s| s.parse().ok()).unwrap_or(d)
    }
    pub fn thorough(&self) -> bool {
        self.get("tier") == Some("thorough")
    }
}

pub struct Out {
    w: std::io::BufWriter<std::fs::File>,
    pub lines: u64,
}
impl Out {
    pub fn create(path: &str) -> Out {
        if let Some(p) = std::path::Path::new(path).parent() {
            let _ = std::fs::create_dir_all(p);
        }
        Out {
            w: std::io::BufWriter::new(std::fs::File::create(path).expect("create output")),
            lines: 0,
        }
    }
    pub fn line(&mut self, v: &serde_json::Value) {
        serde_json::to_writer(&mut self.w, v).expect("write");
        self.w.write_all(b"\n").expect("write");
        self.lines += 1;
    }
    pub fn finish(mut self) {
        self.w.flush().expect("flush");
    }
}

pub fn write_json(path: &str, v: &serde_json::Value) {
    if let Some(p) = std::path::Path::new(path).parent() {
        let _ = std::fs::create_dir_all(p);
    }
    std::fs::write(path, serde_json::to_vec_pretty(v).expect("json")).expect("write json");
}

pub fn id_json(id: &[u8]) -> serde_json::Value {
    serde_json::Value::Array(id.iter().map(|b| serde_json::json!(*b)).collect())
}

static LAST_PANIC: std::sync::Mutex<String> = std::sync::Mutex::new(String::new());
/// Remember the message of the latest panic anywhere in the process (set from the panic hook).
pub fn note_panic(msg: &str) {
    if let Ok(mut g) = LAST_PANIC.lock() {
        *g = msg.to_string();
    }
}
/// Message of the latest panic (panics of the code under test are data).
pub fn last_panic() -> String {
    LAST_PANIC.lock().map(|g| g.clone()).unwrap_or_default()
}
