//! Harness-side primitives: bitwise CRC32C / BEP42 (independent of the `crc` crate used by the
//! library), SHA-1 targets, Ed25519 items. Signing uses ed25519-dalek directly (the same crate the
//! library links), never the library's own helper functions.
use ed25519_dalek::{Signer, SigningKey, Verifier, VerifyingKey};
use std::net::Ipv4Addr;

/// Bitwise CRC32C (Castagnoli, reflected, poly 0x82F63B78).
pub fn crc32c(data: &[u8]) -> u32 {
    let mut crc: u32 = 0xFFFF_FFFF;
    for b in data {
        crc ^= *b as u32;
        for _ in 0..8 {
            crc = if crc & 1 == 1 {
                (crc >> 1) ^ 0x82F6_3B78
            } else {
                crc >> 1
            };
        }
    }
    !crc
}

/// BEP42: the first three bytes of crc32c((ip & 0x030f3fff) | r << 29); only 21 bits matter.
pub fn bep42_prefix(ip: Ipv4Addr, r: u8) -> [u8; 3] {
    let ipn = u32::from_be_bytes(ip.octets());
    let masked = (ipn & 0x030f_3fff) | (((r & 7) as u32) << 29);
    let c = crc32c(&masked.to_be_bytes()).to_be_bytes();
    [c[0], c[1], c[2]]
}

pub fn ip_exempt(ip: Ipv4Addr) -> bool {
    let o = ip.octets();
    o[0] == 10
        || (o[0] == 172 && (16..=31).contains(&o[1]))
        || (o[0] == 192 && o[1] == 168)
        || (o[0] == 169 && o[1] == 254)
        || o[0] == 127
}

pub fn bep42_valid(id: &[u8; 20], ip: Ipv4Addr) -> bool {
    if ip_exempt(ip) {
        return true;
    }
    let p = bep42_prefix(ip, id[19]);
    id[0] == p[0] && id[1] == p[1] && (id[2] & 0xf8) == (p[2] & 0xf8)
}

/// An id that is BEP42-valid for `ip`, with the given random fill.
pub fn bep42_id(ip: Ipv4Addr, fill: [u8; 20]) -> [u8; 20] {
    let mut id = fill;
    let p = bep42_prefix(ip, id[19]);
    id[0] = p[0];
    id[1] = p[1];
    id[2] = (p[2] & 0xf8) | (id[2] & 7);
    id
}

pub fn first21(id: &[u8; 20]) -> [u8; 3] {
    [id[0], id[1], id[2] & 0xf8]
}

pub fn sha1(data: &[u8]) -> [u8; 20] {
    let mut h = sha1_smol::Sha1::new();
    h.update(data);
    h.digest().bytes()
}

/// BEP44 immutable target: sha1 of the bencoded value ("<len>:<bytes>").
pub fn immutable_target(v: &[u8]) -> [u8; 20] {
    let mut enc = format!("{}:", v.len()).into_bytes();
    enc.extend_from_slice(v);
    sha1(&enc)
}

/// BEP44 mutable target: sha1(k || salt).
pub fn mutable_target(k: &[u8; 32], salt: Option<&[u8]>) -> [u8; 20] {
    let mut enc = k.to_vec();
    if let Some(s) = salt {
        enc.extend_from_slice(s);
    }
    sha1(&enc)
}

/// BEP44 signable: [4:salt<len>:<salt>]3:seqi<seq>e1:v<len>:<v>
pub fn mutable_signable(seq: i64, v: &[u8], salt: Option<&[u8]>) -> Vec<u8> {
    let mut s = vec![];
    if let Some(salt) = salt {
        s.extend(format!("4:salt{}:", salt.len()).bytes());
        s.extend_from_slice(salt);
    }
    s.extend(format!("3:seqi{}e1:v{}:", seq, v.len()).bytes());
    s.extend_from_slice(v);
    s
}

pub fn keypair(n: u8) -> SigningKey {
    let mut seed = [0u8; 32];
    seed[0] = n;
    seed[31] = 0xA5;
    SigningKey::from_bytes(&seed)
}

pub fn sign(sk: &SigningKey, msg: &[u8]) -> [u8; 64] {
    sk.sign(msg).to_bytes()
}

pub fn verify(pk: &[u8; 32], msg: &[u8], sig: &[u8; 64]) -> bool {
    match VerifyingKey::from_bytes(pk) {
        Ok(k) => k
            .verify(msg, &ed25519_dalek::Signature::from_bytes(sig))
            .is_ok(),
        Err(_) => false,
    }
}

pub fn sign_mutable(sk: &SigningKey, seq: i64, v: &[u8], salt: Option<&[u8]>) -> [u8; 64] {
    sign(sk, &mutable_signable(seq, v, salt))
}

pub fn verify_mutable(pk: &[u8; 32], seq: i64, v: &[u8], salt: Option<&[u8]>, sig: &[u8; 64]) -> bool {
    verify(pk, &mutable_signable(seq, v, salt), sig)
}

/// Signed announce signable: info_hash || timestamp (big endian u64).
pub fn announce_signable(info_hash: &[u8; 20], t: u64) -> Vec<u8> {
    let mut s = info_hash.to_vec();
    s.extend(t.to_be_bytes());
    s
}

pub fn xor(a: &[u8; 20], b: &[u8; 20]) -> [u8; 20] {
    let mut r = [0u8; 20];
    for i in 0..20 {
        r[i] = a[i] ^ b[i];
    }
    r
}

/// 160 - number of leading zero bits of a xor b.
pub fn distance(a: &[u8; 20], b: &[u8; 20]) -> u32 {
    let x = xor(a, b);
    for (i, byte) in x.iter().enumerate() {
        if *byte != 0 {
            return 160 - (i as u32 * 8 + byte.leading_zeros());
        }
    }
    0
}

#[cfg(test)]
mod t {
    use super::*;
    #[test]
    fn crc_vector() {
        assert_eq!(crc32c(b"123456789"), 0xE306_9283);
    }
    #[test]
    fn bep42_vectors() {
        // BEP42 test vectors: ip, r, prefix
        let v = [
            ([124u8, 31, 75, 21], 1u8, [0x5f, 0xbf, 0xbf]),
            ([21, 75, 31, 124], 86, [0x5a, 0x3c, 0xe9]),
            ([65, 23, 51, 170], 22, [0xa5, 0xd4, 0x32]),
            ([84, 124, 73, 14], 65, [0x1b, 0x03, 0x21]),
            ([43, 213, 53, 83], 90, [0xe5, 0x6f, 0x6c]),
        ];
        for (ip, r, p) in v {
            let got = bep42_prefix(Ipv4Addr::from(ip), r);
            assert_eq!(got[0], p[0]);
            assert_eq!(got[1], p[1]);
            assert_eq!(got[2] & 0xf8, p[2] & 0xf8);
        }
    }
}
