//! Whole networks of real nodes in the simulator: construction (join orders, IP plans, clients),
//! lookups with their message traces, crash / restart.
use crate::calls::{Call, GetKind};
use crate::crypto;
use crate::krpc::Msg;
use crate::sim::*;
use dht::verif as v;
use std::collections::{HashMap, HashSet};
use std::net::{Ipv4Addr, SocketAddrV4};

#[derive(Clone, Debug)]
pub struct NetSpec {
    pub servers: usize,
    pub clients: usize,
    /// "private" (every id counts as secure) | "public" (BEP42 live; most nodes start with a secure id via public_ip, every
    /// 5th with a random one) | "public_rekey" (BEP42 live; nobody knows its address: every node starts with a random id and
    /// re-keys once its address is confirmed)
    pub plan: String,
    /// "sequential" | "simultaneous"
    pub join: String,
    /// dead addresses prepended to every bootstrap list (+ 100: and two entries that are not addresses in front of them)
    pub dead_bootstrap: usize,
    pub seed: u64,
}

pub struct Net {
    pub sim: Sim,
    pub servers: Vec<usize>,
    pub clients: Vec<usize>,
    pub boot: Vec<String>,
    pub spec: NetSpec,
}

pub fn node_ip(plan: &str, i: usize) -> Ipv4Addr {
    if plan.starts_with("public") {
        public_ip(i)
    } else {
        private_ip(i)
    }
}

pub fn build(spec: &NetSpec) -> Net {
    let mut sim = Sim::new(spec.seed, NetCfg { lat_min_ms: 5, lat_max_ms: 30, ..Default::default() });
    sim.record = true;
    let mut servers = vec![];
    let mut clients = vec![];
    let first_ip = node_ip(&spec.plan, 0);
    // dead_bootstrap = 100 + k: k dead addresses as usual, and in FRONT of everything two entries that are not addresses at all
    // (no port; a port that is not a number - what a retired host name or a typo in a configuration file amounts to, without
    // asking a resolver)
    let (junk, dead) = (spec.dead_bootstrap >= 100, spec.dead_bootstrap % 100);
    let mut boot: Vec<String> = (0..dead).map(|i| format!("{}:6881", Ipv4Addr::new(10, 250, 0, i as u8 + 1))).collect();
    if dead > 30 {
        // the live server in the middle of a long list
        boot.insert(dead / 2, format!("{first_ip}:6881"));
    } else {
        boot.push(format!("{first_ip}:6881"));
    }
    if junk {
        boot.insert(0, "10.250.9.9:notaport".to_string());
        boot.insert(0, "no-port-entry".to_string());
    }
    let mk = |i: usize, server: bool, boot: &[String], plan: &str| {
        let ip = node_ip(plan, i);
        let mut o = if server { NodeOpts::server(ip, boot) } else { NodeOpts::client(ip, boot) };
        if plan == "public" && i % 5 != 4 {
            // most nodes know their public address (secure id from the start); every 5th starts with a random id
            o.public_ip = Some(ip);
        }
        o
    };
    let first = sim.add_node(mk(0, true, &[], &spec.plan));
    servers.push(first);
    sim.run_for(500);
    for i in 1..spec.servers {
        let n = sim.add_node(mk(i, true, &boot, &spec.plan));
        servers.push(n);
        if spec.join == "sequential" {
            sim.run_for(2500);
        }
    }
    for j in 0..spec.clients {
        let n = sim.add_node(mk(spec.servers + j, false, &boot, &spec.plan));
        clients.push(n);
        if spec.join == "sequential" {
            sim.run_for(1500);
        }
    }
    sim.run_for(6000);
    Net { sim, servers, clients, boot, spec: spec.clone() }
}

pub fn id_of_hex(h: &str) -> [u8; 20] {
    let b = crate::bencode::unhex(h);
    let mut a = [0u8; 20];
    if b.len() == 20 {
        a.copy_from_slice(&b);
    }
    a
}

#[derive(Clone, Debug, PartialEq, Eq, Hash)]
pub struct Ent {
    pub id: [u8; 20],
    pub addr: SocketAddrV4,
}

/// Message trace of one lookup (a call on node `n` between `start` and `end`), attributed by target
/// (requests) and by transaction id (answers).
pub struct LookupTrace {
    pub queried: Vec<SocketAddrV4>,
    /// (address, time sent) of every request of the lookup, in order
    pub requests: Vec<(SocketAddrV4, u64, Vec<u8>)>,
    pub answered: Vec<(Ent, u64)>,
    pub listed: Vec<Ent>,
    /// destinations of store requests (puts)
    pub stores: Vec<SocketAddrV4>,
    pub token_bearers: Vec<Ent>,
}

pub fn lookup_trace(sim: &Sim, n: usize, target: &[u8; 20], log0: usize, end_ns: u64) -> LookupTrace {
    lookup_trace_accepted(sim, n, target, log0, end_ns, None)
}

/// `accepted`: when given, only the responses whose wire id is in the set count as answers (the responses the node's socket
/// accepted: in-flight entry present, right address, younger than the request timeout at that instant - read off the
/// snapshots that bracket every delivery in watch mode).
pub fn lookup_trace_accepted(sim: &Sim, n: usize, target: &[u8; 20], log0: usize, end_ns: u64, accepted: Option<&HashSet<u64>>) -> LookupTrace {
    let me = sim.nodes[n].addr;
    let mut t = LookupTrace { queried: vec![], requests: vec![], answered: vec![], listed: vec![], stores: vec![], token_bearers: vec![] };
    let mut tids: HashMap<Vec<u8>, SocketAddrV4> = HashMap::new();
    let mut seenq = HashSet::new();
    for r in &sim.log[log0..] {
        let m = match &r.msg {
            Some(m) => m,
            None => continue,
        };
        if r.from == me && m.is_request() && r.sent_ns <= end_ns + 5_000 * MS {
            let q = m.q.clone().unwrap_or_default();
            if m.target() == Some(*target) && (q == "find_node" || q == "get" || q == "get_peers" || q == "get_signed_peers") && r.sent_ns <= end_ns {
                tids.insert(m.tid.clone(), r.to);
                t.requests.push((r.to, r.sent_ns, m.tid.clone()));
                if seenq.insert(r.to) {
                    t.queried.push(r.to);
                }
            } else if m.target() == Some(*target) && (q == "put" || q.starts_with("announce")) {
                t.stores.push(r.to);
            }
        } else if r.to == me && (m.is_response() || m.is_error()) && !r.delivered_ns.is_empty() && r.delivered_ns[0] <= end_ns
            && accepted.map(|a| a.contains(&r.id)).unwrap_or(true) {
            if let Some(to) = tids.get(&m.tid) {
                if *to == r.from && m.is_response() {
                    if let Some(id) = m.arg_id("id") {
                        let e = Ent { id, addr: r.from };
                        t.answered.push((e.clone(), r.delivered_ns[0]));
                        if m.arg_bytes("token").is_some() {
                            t.token_bearers.push(e);
                        }
                    }
                    if let Some(ns) = m.nodes() {
                        for (id, addr) in ns {
                            t.listed.push(Ent { id, addr });
                        }
                    }
                }
            }
        }
    }
    t
}

pub fn ent_json(e: &Ent) -> serde_json::Value {
    serde_json::json!({"id": crate::util::id_json(&e.id), "ip": e.addr.ip().to_string(), "port": e.addr.port(), "addr": e.addr.to_string(),
        "sec": crypto::bep42_valid(&e.id, *e.addr.ip())})
}

/// run one get-type call to completion and return it with the log position at its start
pub fn do_lookup(net: &mut Net, n: usize, kind: GetKind, target: [u8; 20], label: &str) -> (Call, usize) {
    let log0 = net.sim.log.len();
    let mut call = net.sim.call_get(n, kind, target, label);
    net.sim.poke(n);
    net.sim.run_calls(&mut [&mut call], 60_000);
    (call, log0)
}

pub fn table_ents(s: &v::TableSnap) -> Vec<Ent> {
    s.nodes.iter().map(|n| Ent { id: id_of_hex(&n.id), addr: n.addr.parse().expect("addr") }).collect()
}
