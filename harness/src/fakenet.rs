//! Fake peers: harness callbacks bound to simulated addresses that speak KRPC through the harness' own
//! codec. A `FakeNet` is a small set of such peers that answer lookups honestly by default (id, token,
//! `nodes` listing every fake) and let a scenario override any reply (content, delay, silence,
//! duplicates, forged source).
use crate::bencode::B;
use crate::krpc::{self, Msg};
use crate::sim::{Outgoing, Sim, Wire};
use std::cell::RefCell;
use std::net::{Ipv4Addr, SocketAddrV4};
use std::rc::Rc;

#[derive(Clone, Debug)]
pub struct FakePeer {
    pub idx: usize,
    pub id: [u8; 20],
    pub addr: SocketAddrV4,
}

impl FakePeer {
    pub fn token(&self) -> Vec<u8> {
        vec![b't', b'k', self.idx as u8, 0x5a]
    }
}

/// What a fake does with one incoming request.
pub enum Reply {
    /// the honest default for this request kind
    Default,
    /// the honest default, `delay_ms` later
    DefaultAfter(u64),
    Silent,
    /// one datagram after `delay_ms`
    One(B, u64),
    /// several datagrams (delay, content)
    Many(Vec<(u64, B)>),
    /// raw outgoing datagrams (arbitrary source address: spoofing)
    Raw(Vec<Outgoing>),
}

/// Log entry of a request seen by a fake.
#[derive(Clone, Debug)]
pub struct Seen {
    pub t_ns: u64,
    pub peer: usize,
    pub from: SocketAddrV4,
    pub msg: Msg,
}

pub type Policy = Box<dyn FnMut(&FakePeer, &Msg, &Wire) -> Reply>;

pub struct FakeNetState {
    pub peers: Vec<FakePeer>,
    pub seen: Vec<Seen>,
    pub policy: Policy,
    pub default_delay_ms: u64,
    /// subset of peers listed in `nodes` fields (default: all)
    pub listed: Vec<usize>,
}

#[derive(Clone)]
pub struct FakeNet(pub Rc<RefCell<FakeNetState>>);

pub fn fake_ip(i: usize) -> Ipv4Addr {
    Ipv4Addr::new(10, 77, (i / 200) as u8, (i % 200) as u8 + 1)
}

impl FakeNet {
    /// `ids[i]` is the id of peer i; addresses are private (every id counts as secure).
    pub fn install(sim: &mut Sim, ids: &[[u8; 20]], policy: Policy) -> FakeNet {
        let at: Vec<([u8; 20], SocketAddrV4)> = ids.iter().enumerate().map(|(i, id)| (*id, SocketAddrV4::new(fake_ip(i), 6881))).collect();
        Self::install_at(sim, &at, policy)
    }

    /// Peers at chosen addresses (public ones make BEP42 matter: an id is secure only if it is valid for its IP).
    pub fn install_at(sim: &mut Sim, at: &[([u8; 20], SocketAddrV4)], policy: Policy) -> FakeNet {
        let peers: Vec<FakePeer> = at
            .iter()
            .enumerate()
            .map(|(i, (id, addr))| FakePeer {
                idx: i,
                id: *id,
                addr: *addr,
            })
            .collect();
        let listed = (0..peers.len()).collect();
        let st = Rc::new(RefCell::new(FakeNetState {
            peers: peers.clone(),
            seen: vec![],
            policy,
            default_delay_ms: 10,
            listed,
        }));
        for p in peers {
            let st2 = st.clone();
            let me = p.clone();
            sim.add_fake(
                p.addr,
                Box::new(move |now, w: &Wire, m: Option<&Msg>| {
                    let m = match m {
                        Some(m) if m.is_request() => m,
                        _ => return vec![],
                    };
                    let mut s = st2.borrow_mut();
                    s.seen.push(Seen {
                        t_ns: now,
                        peer: me.idx,
                        from: w.from,
                        msg: m.clone(),
                    });
                    let r = (s.policy)(&me, m, w);
                    let out = |b: B, d: u64| Outgoing {
                        from: me.addr,
                        to: w.from,
                        bytes: b.encode(),
                        delay_ms: d,
                    };
                    match r {
                        Reply::Silent => vec![],
                        Reply::Default => match default_reply(&s, &me, m, w) {
                            Some(b) => vec![out(b, s.default_delay_ms)],
                            None => vec![],
                        },
                        Reply::DefaultAfter(d) => match default_reply(&s, &me, m, w) {
                            Some(b) => vec![out(b, d)],
                            None => vec![],
                        },
                        Reply::One(b, d) => vec![out(b, d)],
                        Reply::Many(v) => v.into_iter().map(|(d, b)| out(b, d)).collect(),
                        Reply::Raw(v) => v,
                    }
                }),
            );
        }
        FakeNet(st)
    }

    pub fn bootstrap(&self) -> Vec<String> {
        self.0.borrow().peers.iter().map(|p| p.addr.to_string()).collect()
    }
    pub fn peers(&self) -> Vec<FakePeer> {
        self.0.borrow().peers.clone()
    }
    pub fn seen(&self) -> Vec<Seen> {
        self.0.borrow().seen.clone()
    }
    pub fn clear_seen(&self) {
        self.0.borrow_mut().seen.clear();
    }
    pub fn set_policy(&self, p: Policy) {
        self.0.borrow_mut().policy = p;
    }
}

pub fn nodes_field(s: &FakeNetState) -> Vec<u8> {
    let l: Vec<([u8; 20], SocketAddrV4)> = s.listed.iter().map(|&i| (s.peers[i].id, s.peers[i].addr)).collect();
    krpc::compact_nodes(&l)
}

/// Honest reply skeleton: lookups get id + token + nodes and no value; writes are acknowledged.
pub fn default_reply(s: &FakeNetState, me: &FakePeer, m: &Msg, w: &Wire) -> Option<B> {
    let q = m.q.clone().unwrap_or_default();
    let mut r = B::dict();
    match q.as_str() {
        "ping" => {}
        "find_node" => {
            r.set("nodes", B::bytes(nodes_field(s)));
        }
        "get" | "get_peers" | "get_signed_peers" => {
            r.set("nodes", B::bytes(nodes_field(s)));
            r.set("token", B::bytes(me.token()));
        }
        "put" | "announce_peer" | "announce_signed_peer" => {}
        _ => return None,
    }
    Some(krpc::response(&m.tid, &me.id, r, Some(&w.from)))
}

/// A lookup reply (id + token + nodes) extended with extra fields.
pub fn lookup_reply(s_nodes: &[u8], me: &FakePeer, m: &Msg, w: &Wire, extra: &[(&str, B)], with_token: bool) -> B {
    let mut r = B::dict();
    r.set("nodes", B::bytes(s_nodes));
    if with_token {
        r.set("token", B::bytes(me.token()));
    }
    for (k, v) in extra {
        r.set(k, v.clone());
    }
    krpc::response(&m.tid, &me.id, r, Some(&w.from))
}
