//! API calls on simulated nodes and their observed outcomes.
//!
//! Inline nodes are driven through the gated mirror of `run()`'s Put/Get arms; threaded nodes through
//! the real channel into the production run loop (raw messages), or through the real `AsyncDht`
//! wrappers polled by hand (`async_call`).
use crate::bencode::hex;
use crate::sim::{Kind, Sim};
use dht::verif::{self as v, GetRequestSpecific, PutError, PutQueryError, ConcurrencyError, ResponseSender};
use dht::{Id, MutableItem, Node, PutRequestSpecific};
use flume::{Receiver, TryRecvError};
use serde_json::{json, Value};
use std::future::Future;
use std::net::SocketAddrV4;
use std::pin::Pin;
use std::task::{Context, Poll, Waker};

#[derive(Clone, Debug, PartialEq)]
pub enum Item {
    Immutable(Vec<u8>),
    Mutable {
        k: [u8; 32],
        seq: i64,
        v: Vec<u8>,
        sig: [u8; 64],
        salt: Option<Vec<u8>>,
        target: [u8; 20],
    },
    Peers(Vec<SocketAddrV4>),
    SignedPeers(Vec<([u8; 32], u64, [u8; 64])>),
}

impl Item {
    pub fn from_mutable(m: &MutableItem) -> Item {
        Item::Mutable {
            k: *m.key(),
            seq: m.seq(),
            v: m.value().to_vec(),
            sig: *m.signature(),
            salt: m.salt().map(|s| s.to_vec()),
            target: *m.target().as_bytes(),
        }
    }
    pub fn to_json(&self) -> Value {
        match self {
            Item::Immutable(v) => json!({"kind":"immutable","v":hex(v)}),
            Item::Mutable { k, seq, v, salt, target, .. } => {
                json!({"kind":"mutable","k":hex(k),"seq":seq,"v":hex(v),"salt":salt.as_ref().map(|s| hex(s)),"target":hex(target)})
            }
            Item::Peers(p) => json!({"kind":"peers","peers":p.iter().map(|a| a.to_string()).collect::<Vec<_>>()}),
            Item::SignedPeers(p) => {
                json!({"kind":"signed_peers","peers":p.iter().map(|(k,t,_)| json!({"k":hex(k),"t":t.to_string()})).collect::<Vec<_>>()})
            }
        }
    }
}

#[derive(Clone, Debug, PartialEq)]
pub enum Outcome {
    PutOk([u8; 20]),
    /// "NoClosestNodes" | "Timeout" | "ErrorResponse:<code>" | "ConflictRisk" | "NotMostRecent" | "CasFailed"
    PutErr(String),
    /// a get stream ended (items are in `Call::items`)
    StreamEnd,
    Closest(Vec<([u8; 20], SocketAddrV4)>),
    /// result of a wrapped async call rendered as JSON
    Value(Value),
    Panicked(String),
}

impl Outcome {
    pub fn name(&self) -> String {
        match self {
            Outcome::PutOk(_) => "ok".into(),
            Outcome::PutErr(e) => e.clone(),
            Outcome::StreamEnd => "end".into(),
            Outcome::Closest(_) => "closest".into(),
            Outcome::Value(_) => "value".into(),
            Outcome::Panicked(_) => "panicked".into(),
        }
    }
}

pub fn put_error_name(e: &PutError) -> String {
    match e {
        PutError::Query(PutQueryError::NoClosestNodes) => "NoClosestNodes".into(),
        PutError::Query(PutQueryError::Timeout) => "Timeout".into(),
        PutError::Query(PutQueryError::ErrorResponse(e)) => format!("ErrorResponse:{}", e.code),
        PutError::Concurrency(ConcurrencyError::ConflictRisk) => "ConflictRisk".into(),
        PutError::Concurrency(ConcurrencyError::NotMostRecent) => "NotMostRecent".into(),
        PutError::Concurrency(ConcurrencyError::CasFailed) => "CasFailed".into(),
    }
}

enum Chan {
    Put(Receiver<Result<Id, PutError>>),
    Imm(Receiver<Box<[u8]>>),
    Mut(Receiver<MutableItem>),
    Peers(Receiver<Vec<SocketAddrV4>>),
    Signed(Receiver<Vec<dht::verif::SignedAnnounce>>),
    Closest(Receiver<Box<[Node]>>),
    Fut(Pin<Box<dyn Future<Output = Value>>>),
    Closed,
}

pub struct Call {
    pub node: usize,
    pub label: String,
    pub start_ns: u64,
    pub items: Vec<(u64, Item)>,
    /// every outcome observed (exactly one expected), with the virtual instant
    pub outcomes: Vec<(u64, Outcome)>,
    chan: Chan,
}

impl Call {
    /// The caller drops its receiving end (a `get_immutable` that has its value, an iterator that is not read to the end).
    pub fn abandon(&mut self) {
        self.chan = Chan::Closed;
    }
    pub fn done(&self) -> bool {
        !self.outcomes.is_empty()
    }
    pub fn outcome(&self) -> Option<&Outcome> {
        self.outcomes.first().map(|x| &x.1)
    }
    pub fn done_ns(&self) -> Option<u64> {
        self.outcomes.first().map(|x| x.0)
    }

    /// Drain whatever the actor has delivered so far. Call after ticks of the owning node.
    pub fn poll(&mut self, now_ns: u64) {
        fn drain<T>(rx: &Receiver<T>, mut f: impl FnMut(T)) -> bool {
            loop {
                match rx.try_recv() {
                    Ok(x) => f(x),
                    Err(TryRecvError::Empty) => return false,
                    Err(TryRecvError::Disconnected) => return true,
                }
            }
        }
        let mut closed = false;
        match &mut self.chan {
            Chan::Put(rx) => {
                let outs = &mut self.outcomes;
                closed = drain(rx, |r| {
                    outs.push((
                        now_ns,
                        match r {
                            Ok(id) => Outcome::PutOk(*id.as_bytes()),
                            Err(e) => Outcome::PutErr(put_error_name(&e)),
                        },
                    ))
                });
                if closed && self.outcomes.is_empty() {
                    // sender dropped without a result: the caller would panic/hang
                    self.outcomes.push((now_ns, Outcome::PutErr("Dropped".into())));
                }
            }
            Chan::Imm(rx) => {
                let items = &mut self.items;
                closed = drain(rx, |x| items.push((now_ns, Item::Immutable(x.to_vec()))));
                if closed {
                    self.outcomes.push((now_ns, Outcome::StreamEnd));
                }
            }
            Chan::Mut(rx) => {
                let items = &mut self.items;
                closed = drain(rx, |x| items.push((now_ns, Item::from_mutable(&x))));
                if closed {
                    self.outcomes.push((now_ns, Outcome::StreamEnd));
                }
            }
            Chan::Peers(rx) => {
                let items = &mut self.items;
                closed = drain(rx, |x| items.push((now_ns, Item::Peers(x))));
                if closed {
                    self.outcomes.push((now_ns, Outcome::StreamEnd));
                }
            }
            Chan::Signed(rx) => {
                let items = &mut self.items;
                closed = drain(rx, |x| {
                    items.push((
                        now_ns,
                        Item::SignedPeers(
                            x.iter()
                                .map(|p| (*p.key(), p.timestamp(), *p.signature()))
                                .collect(),
                        ),
                    ))
                });
                if closed {
                    self.outcomes.push((now_ns, Outcome::StreamEnd));
                }
            }
            Chan::Closest(rx) => {
                let outs = &mut self.outcomes;
                closed = drain(rx, |x| {
                    outs.push((
                        now_ns,
                        Outcome::Closest(
                            x.iter()
                                .map(|n| (*n.id().as_bytes(), n.address()))
                                .collect(),
                        ),
                    ))
                });
                if closed && self.outcomes.is_empty() {
                    self.outcomes.push((now_ns, Outcome::PutErr("Dropped".into())));
                }
            }
            Chan::Fut(f) => {
                let mut cx = Context::from_waker(Waker::noop());
                let r = std::panic::catch_unwind(std::panic::AssertUnwindSafe(|| f.as_mut().poll(&mut cx)));
                match r {
                    Ok(Poll::Ready(v)) => {
                        self.outcomes.push((now_ns, Outcome::Value(v)));
                        closed = true;
                    }
                    Ok(Poll::Pending) => {}
                    Err(e) => {
                        let s = e
                            .downcast_ref::<String>()
                            .cloned()
                            .or_else(|| e.downcast_ref::<&str>().map(|s| s.to_string()))
                            .unwrap_or_default();
                        self.outcomes.push((now_ns, Outcome::Panicked(s)));
                        closed = true;
                    }
                }
            }
            Chan::Closed => {}
        }
        if closed {
            self.chan = Chan::Closed;
        }
    }
}

#[derive(Clone, Debug)]
pub enum GetKind {
    FindNode,
    Immutable,
    Mutable { salt: Option<Vec<u8>>, seq: Option<i64> },
    Peers,
    SignedPeers,
    /// get_closest_nodes
    ClosestNodes,
}

fn get_request(kind: &GetKind, target: [u8; 20]) -> GetRequestSpecific {
    let id = Id::from(target);
    match kind {
        GetKind::FindNode => GetRequestSpecific::FindNode(v::FindNodeRequestArguments { target: id }),
        GetKind::Immutable | GetKind::ClosestNodes => GetRequestSpecific::GetValue(v::GetValueRequestArguments {
            target: id,
            seq: None,
            salt: None,
        }),
        GetKind::Mutable { salt, seq } => GetRequestSpecific::GetValue(v::GetValueRequestArguments {
            target: id,
            seq: *seq,
            salt: salt.clone().map(|s| s.into_boxed_slice()),
        }),
        GetKind::Peers => GetRequestSpecific::GetPeers(v::GetPeersRequestArguments { info_hash: id }),
        GetKind::SignedPeers => GetRequestSpecific::GetSignedPeers(v::GetPeersRequestArguments { info_hash: id }),
    }
}

impl Sim {
    /// Issue a put. The message is handled at the start of the node's next loop iteration; callers
    /// normally `poke` the node afterwards.
    pub fn call_put(&mut self, n: usize, request: PutRequestSpecific, extra: Option<Box<[Node]>>, label: &str) -> Call {
        let start_ns = self.now_ns();
        let chan = match &mut self.nodes[n].kind {
            Kind::Inline(a) => {
                let (tx, rx) = flume::bounded(1);
                a.verif_api_put(request, tx, extra);
                Chan::Put(rx)
            }
            Kind::Threaded(Some(d)) => Chan::Put(v::dht_put_raw(d, request, extra)),
            _ => Chan::Closed,
        };
        Call {
            node: n,
            label: label.to_string(),
            start_ns,
            items: vec![],
            outcomes: vec![],
            chan,
        }
    }

    pub fn call_get(&mut self, n: usize, kind: GetKind, target: [u8; 20], label: &str) -> Call {
        let start_ns = self.now_ns();
        let req = get_request(&kind, target);
        let (sender, chan) = match kind {
            GetKind::FindNode | GetKind::ClosestNodes => {
                let (tx, rx) = flume::unbounded();
                (ResponseSender::ClosestNodes(tx), Chan::Closest(rx))
            }
            GetKind::Immutable => {
                let (tx, rx) = flume::unbounded();
                (ResponseSender::Immutable(tx), Chan::Imm(rx))
            }
            GetKind::Mutable { .. } => {
                let (tx, rx) = flume::unbounded();
                (ResponseSender::Mutable(tx), Chan::Mut(rx))
            }
            GetKind::Peers => {
                let (tx, rx) = flume::unbounded();
                (ResponseSender::Peers(tx), Chan::Peers(rx))
            }
            GetKind::SignedPeers => {
                let (tx, rx) = flume::unbounded();
                (ResponseSender::SignedPeers(tx), Chan::Signed(rx))
            }
        };
        let chan = match &mut self.nodes[n].kind {
            Kind::Inline(a) => {
                a.verif_api_get(req, sender);
                chan
            }
            Kind::Threaded(Some(d)) => {
                v::dht_get_raw(d, req, sender);
                chan
            }
            _ => Chan::Closed,
        };
        Call {
            node: n,
            label: label.to_string(),
            start_ns,
            items: vec![],
            outcomes: vec![],
            chan,
        }
    }

    /// A call through the real `AsyncDht` wrappers of a threaded node, polled by hand. The future is
    /// polled once immediately so its first API message is queued at a deterministic point.
    pub fn call_async<F>(&mut self, n: usize, label: &str, f: F) -> Call
    where
        F: FnOnce(dht::async_dht::AsyncDht) -> Pin<Box<dyn Future<Output = Value>>>,
    {
        let d = self.dht(n).as_async();
        let mut c = Call {
            node: n,
            label: label.to_string(),
            start_ns: self.now_ns(),
            items: vec![],
            outcomes: vec![],
            chan: Chan::Fut(f(d)),
        };
        c.poll(self.now_ns());
        c
    }

    /// Run until all calls are done (polling them after every step) or `max_ms` elapsed.
    pub fn run_calls(&mut self, calls: &mut [&mut Call], max_ms: u64) -> bool {
        let limit = self.now_ns() + max_ms * crate::sim::MS;
        loop {
            let now = self.now_ns();
            let mut all = true;
            for c in calls.iter_mut() {
                c.poll(now);
                if !c.done() {
                    all = false;
                }
            }
            if all {
                return true;
            }
            if !self.step(limit) {
                let now = self.now_ns();
                for c in calls.iter_mut() {
                    c.poll(now);
                }
                return calls.iter().all(|c| c.done());
            }
        }
    }
}
