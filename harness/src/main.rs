use mlverif::drivers;
use mlverif::util::Args;

fn main() {
    let argv: Vec<String> = std::env::args().collect();
    if argv.len() < 2 {
        eprintln!("usage: mlverif <driver> [--tier quick|thorough] [--seed N] [--out FILE] ...");
        std::process::exit(2);
    }
    let args = Args::parse(&argv[2..]);
    // keep panics of the code under test quiet unless asked
    if args.get("verbose-panics").is_none() {
        // panics of the code under test are data; panics of the harness itself must be visible
        std::panic::set_hook(Box::new(|info| {
            mlverif::util::note_panic(&info.to_string());
            if let Some(l) = info.location() {
                if l.file().contains("/verif/") || l.file().ends_with("verif.rs") || l.file().starts_with("src/") {
                    eprintln!("HARNESS PANIC at {}:{}: {}", l.file(), l.line(), info);
                }
            }
        }));
    }
    let code = match argv[1].as_str() {
        "smoke" => drivers::smoke::run(&args),
        "server" => drivers::server::run(&args),
        "idmath" => drivers::idmath::run(&args),
        "rt" => drivers::rt::run(&args),
        "mostrecent" => drivers::mostrecent::run(&args),
        "codec" => drivers::codec::run(&args),
        "shapes" => drivers::shapes::run(&args),
        "nestprobe" => drivers::nestprobe::run(&args),
        "sock" => drivers::sock::run(&args),
        "putq" => drivers::putq::run(&args),
        "query" => drivers::query::run(&args),
        "tickconf" => drivers::tickconf::run(&args),
        "actorconf" => drivers::actorconf::run(&args),
        "adaptconf" => drivers::adaptconf::run(&args),
        "socktable" => drivers::socktable::run(&args),
        "auth" => drivers::auth::run(&args),
        "lookup" => drivers::lookup::run(&args),
        "join" => drivers::join::run(&args),
        "putget" => drivers::putget::run(&args),
        "timeline" => drivers::timeline::run(&args),
        "modes" => drivers::modes::run(&args),
        "idmath-one" => drivers::idmath::run_one(&args),
        other => {
            eprintln!("unknown driver {other}");
            2
        }
    };
    std::process::exit(code);
}
