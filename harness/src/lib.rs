pub mod bencode;
pub mod calls;
pub mod crypto;
pub mod krpc;
pub mod rng;
pub mod sim;
pub mod util;
pub mod drivers;
