//! Independent KRPC message builder / parser on top of the harness' own bencode codec.
use crate::bencode::{hex, B};
use std::net::{Ipv4Addr, SocketAddrV4};

pub const VERSION: [u8; 4] = [82, 83, 0, 6];

pub fn compact_addr(a: &SocketAddrV4) -> Vec<u8> {
    let mut v = a.ip().octets().to_vec();
    v.extend(a.port().to_be_bytes());
    v
}
pub fn parse_compact_addr(b: &[u8]) -> Option<SocketAddrV4> {
    if b.len() != 6 {
        return None;
    }
    Some(SocketAddrV4::new(
        Ipv4Addr::new(b[0], b[1], b[2], b[3]),
        u16::from_be_bytes([b[4], b[5]]),
    ))
}
pub fn compact_nodes(nodes: &[([u8; 20], SocketAddrV4)]) -> Vec<u8> {
    let mut v = vec![];
    for (id, a) in nodes {
        v.extend(id);
        v.extend(compact_addr(a));
    }
    v
}
pub fn parse_compact_nodes(b: &[u8]) -> Option<Vec<([u8; 20], SocketAddrV4)>> {
    if b.len() % 26 != 0 {
        return None;
    }
    let mut out = vec![];
    for c in b.chunks(26) {
        let mut id = [0u8; 20];
        id.copy_from_slice(&c[..20]);
        out.push((id, parse_compact_addr(&c[20..])?));
    }
    Some(out)
}

/// Parsed view of a KRPC datagram (as decoded by the harness, never by the library).
#[derive(Clone, Debug)]
pub struct Msg {
    pub raw: B,
    /// "q", "r", "e" or other
    pub y: String,
    pub q: Option<String>,
    pub tid: Vec<u8>,
    pub ro: Option<i128>,
    pub version: Option<Vec<u8>>,
    pub ip: Option<Vec<u8>>,
}

impl Msg {
    pub fn parse(bytes: &[u8]) -> Option<Msg> {
        let raw = B::decode(bytes).ok()?;
        let y = String::from_utf8_lossy(raw.get("y")?.as_bytes()?).to_string();
        let q = raw
            .get("q")
            .and_then(|q| q.as_bytes())
            .map(|q| String::from_utf8_lossy(q).to_string());
        let tid = raw.get("t")?.as_bytes()?.to_vec();
        let ro = raw.get("ro").and_then(|x| x.as_int());
        let version = raw.get("v").and_then(|x| x.as_bytes()).map(|x| x.to_vec());
        let ip = raw.get("ip").and_then(|x| x.as_bytes()).map(|x| x.to_vec());
        Some(Msg {
            raw,
            y,
            q,
            tid,
            ro,
            version,
            ip,
        })
    }
    pub fn tid_u32(&self) -> Option<u32> {
        match self.tid.len() {
            4 => Some(u32::from_be_bytes([
                self.tid[0],
                self.tid[1],
                self.tid[2],
                self.tid[3],
            ])),
            2 => Some(u16::from_be_bytes([self.tid[0], self.tid[1]]) as u32),
            _ => None,
        }
    }
    pub fn is_request(&self) -> bool {
        self.y == "q"
    }
    pub fn is_response(&self) -> bool {
        self.y == "r"
    }
    pub fn is_error(&self) -> bool {
        self.y == "e"
    }
    /// Arguments dictionary of a request (`a`) or response (`r`).
    pub fn args(&self) -> Option<&B> {
        if self.y == "q" {
            self.raw.get("a")
        } else if self.y == "r" {
            self.raw.get("r")
        } else {
            None
        }
    }
    pub fn arg_bytes(&self, k: &str) -> Option<&[u8]> {
        self.args()?.get(k)?.as_bytes()
    }
    pub fn arg_int(&self, k: &str) -> Option<i128> {
        self.args()?.get(k)?.as_int()
    }
    pub fn arg_id(&self, k: &str) -> Option<[u8; 20]> {
        let b = self.arg_bytes(k)?;
        if b.len() != 20 {
            return None;
        }
        let mut id = [0u8; 20];
        id.copy_from_slice(b);
        Some(id)
    }
    /// The lookup / write target of a request (`target` or `info_hash`).
    pub fn target(&self) -> Option<[u8; 20]> {
        self.arg_id("target").or_else(|| self.arg_id("info_hash"))
    }
    pub fn nodes(&self) -> Option<Vec<([u8; 20], SocketAddrV4)>> {
        parse_compact_nodes(self.arg_bytes("nodes")?)
    }
    pub fn error_code(&self) -> Option<i128> {
        self.raw.get("e")?.as_list()?.first()?.as_int()
    }
    /// Coarse classification of a response by the fields it carries.
    pub fn response_kind(&self) -> &'static str {
        if self.y == "e" {
            return "error";
        }
        if self.y != "r" {
            return "other";
        }
        let has = |k: &str| self.args().and_then(|a| a.get(k)).is_some();
        if has("v") && has("k") && has("sig") {
            "mutable"
        } else if has("v") {
            "immutable"
        } else if has("values") {
            "peers"
        } else if has("peers") {
            "signed_peers"
        } else if has("seq") && has("token") {
            "nomorerecent"
        } else if has("token") {
            "novalues"
        } else if has("nodes") {
            "nodes"
        } else {
            "ping"
        }
    }
    pub fn summary(&self) -> serde_json::Value {
        serde_json::json!({
            "y": self.y, "q": self.q, "tid": hex(&self.tid), "ro": self.ro.map(|x| x as i64),
            "kind": if self.y == "q" { self.q.clone().unwrap_or_default() } else { self.response_kind().to_string() },
            "code": self.error_code().map(|x| x as i64),
        })
    }
}

fn envelope(y: &str, tid: &[u8], ro: bool) -> B {
    let mut d = B::dict();
    d.set("t", B::bytes(tid));
    d.set("y", B::str(y));
    d.set("v", B::bytes(VERSION));
    d.set("ro", B::Int(if ro { 1 } else { 0 }));
    d
}

/// Build a request. `args` must already contain everything but `id`.
pub fn request(tid: u32, q: &str, id: &[u8; 20], mut args: B, ro: bool) -> B {
    let mut d = envelope("q", &tid.to_be_bytes(), ro);
    d.set("q", B::str(q));
    args.set("id", B::bytes(id));
    d.set("a", args);
    d
}

/// Build a response to transaction `tid` (raw bytes as received). `r` must contain everything but `id`.
pub fn response(tid: &[u8], id: &[u8; 20], mut r: B, to: Option<&SocketAddrV4>) -> B {
    let mut d = envelope("r", tid, false);
    r.set("id", B::bytes(id));
    d.set("r", r);
    if let Some(to) = to {
        d.set("ip", B::bytes(compact_addr(to)));
    }
    d
}

/// Error descriptions are free text: every implementation words the same code in its own way (this crate, libtorrent, an
/// empty string...). Peer `idx` of a scenario speaks dialect `idx % 5`.
pub fn error_text(code: i64, idx: usize) -> String {
    match idx % 5 {
        0 => match code {
            301 => "CAS mismatched, re-read value and try again.".to_string(),
            302 => "Sequence number less than current.".to_string(),
            203 => "Bad token".to_string(),
            _ => "Generic Error".to_string(),
        },
        1 => match code {
            301 => "CAS mismatch".to_string(),
            302 => "old sequence number".to_string(),
            203 => "invalid token".to_string(),
            _ => "error".to_string(),
        },
        2 => String::new(),
        3 => format!("E{code}"),
        _ => "rejected".to_string(),
    }
}

pub fn error(tid: &[u8], code: i64, text: &str) -> B {
    let mut d = envelope("e", tid, false);
    d.set("e", B::List(vec![B::Int(code as i128), B::str(text)]));
    d
}

pub fn ping(tid: u32, id: &[u8; 20], ro: bool) -> B {
    request(tid, "ping", id, B::dict(), ro)
}
pub fn find_node(tid: u32, id: &[u8; 20], target: &[u8; 20], ro: bool) -> B {
    let mut a = B::dict();
    a.set("target", B::bytes(target));
    request(tid, "find_node", id, a, ro)
}
pub fn get_peers(tid: u32, id: &[u8; 20], info_hash: &[u8; 20], signed: bool, ro: bool) -> B {
    let mut a = B::dict();
    a.set("info_hash", B::bytes(info_hash));
    request(
        tid,
        if signed { "get_signed_peers" } else { "get_peers" },
        id,
        a,
        ro,
    )
}
pub fn get_value(tid: u32, id: &[u8; 20], target: &[u8; 20], seq: Option<i64>, ro: bool) -> B {
    let mut a = B::dict();
    a.set("target", B::bytes(target));
    if let Some(s) = seq {
        a.set("seq", B::Int(s as i128));
    }
    request(tid, "get", id, a, ro)
}
pub fn put_immutable(tid: u32, id: &[u8; 20], target: &[u8; 20], token: &[u8], v: &[u8]) -> B {
    let mut a = B::dict();
    a.set("target", B::bytes(target));
    a.set("token", B::bytes(token));
    a.set("v", B::bytes(v));
    request(tid, "put", id, a, false)
}
#[allow(clippy::too_many_arguments)]
pub fn put_mutable(
    tid: u32,
    id: &[u8; 20],
    target: &[u8; 20],
    token: &[u8],
    v: &[u8],
    k: &[u8],
    sig: &[u8],
    seq: i64,
    cas: Option<i64>,
    salt: Option<&[u8]>,
) -> B {
    let mut a = B::dict();
    a.set("target", B::bytes(target));
    a.set("token", B::bytes(token));
    a.set("v", B::bytes(v));
    a.set("k", B::bytes(k));
    a.set("sig", B::bytes(sig));
    a.set("seq", B::Int(seq as i128));
    if let Some(c) = cas {
        a.set("cas", B::Int(c as i128));
    }
    if let Some(s) = salt {
        a.set("salt", B::bytes(s));
    }
    request(tid, "put", id, a, false)
}
pub fn announce_peer(
    tid: u32,
    id: &[u8; 20],
    info_hash: &[u8; 20],
    token: &[u8],
    port: u16,
    implied: Option<u8>,
) -> B {
    let mut a = B::dict();
    a.set("info_hash", B::bytes(info_hash));
    a.set("token", B::bytes(token));
    a.set("port", B::Int(port as i128));
    if let Some(i) = implied {
        a.set("implied_port", B::Int(i as i128));
    }
    request(tid, "announce_peer", id, a, false)
}
pub fn announce_signed_peer(
    tid: u32,
    id: &[u8; 20],
    info_hash: &[u8; 20],
    token: &[u8],
    k: &[u8],
    sig: &[u8],
    t: u64,
) -> B {
    let mut a = B::dict();
    a.set("info_hash", B::bytes(info_hash));
    a.set("token", B::bytes(token));
    a.set("k", B::bytes(k));
    a.set("sig", B::bytes(sig));
    a.set("t", B::Int(t as i128));
    request(tid, "announce_signed_peer", id, a, false)
}
