SPECIFICATION Spec
CONSTANTS
  WideCounters = TRUE
  EarlyMajority = TRUE
  MaxN = 5
  Codes = {0, 203, 301, 302}
INVARIANT Literal
INVARIANT RuleTable
CHECK_DEADLOCK FALSE
