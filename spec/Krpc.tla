-------------------------------- MODULE Krpc --------------------------------
(* common/messages.rs + messages/internal.rs: the space of messages the library can build and    *)
(* their wire form as a bencode dictionary (BEP5 / BEP43 / BEP44 / signed-peers key names).       *)
(* A message is a record of labels; Encode(m) is the dictionary the wire form must be, with       *)
(* every leaf a label string (integers in decimal).  The harness builds the typed message from    *)
(* the labels, encodes it with the library, decodes the bytes with its OWN bencode codec and maps  *)
(* byte strings back to labels; KrpcTrace compares.                                               *)
EXTENDS Integers, Sequences, FiniteSets, TLC

Opt(k, v) == IF v = "none" THEN <<>> ELSE (k :> v)     \* optional dictionary entry
\* timestamps are carried through an i64 on the wire (messages/internal.rs): u64 values above i64::MAX wrap
WireT(t) == IF t = "18446744073709551615" THEN "-1" ELSE t

Envelope(m, y) == ("t" :> m.tid) @@ ("y" :> y) @@ Opt("v", m.ver) @@ Opt("ip", m.ip) @@ ("ro" :> IF m.ro THEN "1" ELSE "0")

Args(m) ==
  ("id" :> m.id) @@
  CASE m.kind = "ping" -> <<>>
    [] m.kind = "find_node" -> ("target" :> m.target)
    [] m.kind \in {"get_peers", "get_signed_peers"} -> ("info_hash" :> m.target)
    [] m.kind = "get" -> ("target" :> m.target) @@ Opt("seq", m.seq)
    [] m.kind = "announce_peer" -> ("info_hash" :> m.target) @@ ("token" :> m.token) @@ ("port" :> m.port)
                                    @@ ("implied_port" :> IF m.implied = "true" THEN "1" ELSE "0")
    [] m.kind = "announce_signed_peer" -> ("info_hash" :> m.target) @@ ("token" :> m.token) @@ ("k" :> m.k)
                                    @@ ("sig" :> m.sig) @@ ("t" :> WireT(m.t))
    [] m.kind = "put_immutable" -> ("target" :> m.target) @@ ("token" :> m.token) @@ ("v" :> m.v)
    [] m.kind = "put_mutable" -> ("target" :> m.target) @@ ("token" :> m.token) @@ ("v" :> m.v) @@ ("k" :> m.k)
                                    @@ ("sig" :> m.sig) @@ ("seq" :> m.seq) @@ Opt("cas", m.cas) @@ Opt("salt", m.salt)
QName(m) == CASE m.kind \in {"put_immutable", "put_mutable"} -> "put" [] OTHER -> m.kind

Resp(m) ==
  ("id" :> m.id) @@
  CASE m.kind = "r_ping" -> <<>>
    [] m.kind = "r_find_node" -> ("nodes" :> m.nodes)
    [] m.kind = "r_get_peers" -> ("token" :> m.token) @@ Opt("nodes", m.nodes) @@ ("values" :> m.values)
    [] m.kind = "r_get_signed_peers" -> ("token" :> m.token) @@ Opt("nodes", m.nodes) @@ ("peers" :> m.values)
    [] m.kind = "r_get_immutable" -> ("token" :> m.token) @@ Opt("nodes", m.nodes) @@ ("v" :> m.v)
    [] m.kind = "r_get_mutable" -> ("token" :> m.token) @@ Opt("nodes", m.nodes) @@ ("v" :> m.v) @@ ("k" :> m.k)
                                    @@ ("sig" :> m.sig) @@ ("seq" :> m.seq)
    [] m.kind = "r_no_values" -> ("token" :> m.token) @@ Opt("nodes", m.nodes)
    [] m.kind = "r_no_more_recent" -> ("token" :> m.token) @@ Opt("nodes", m.nodes) @@ ("seq" :> m.seq)

IsRequest(m) == m.kind \in {"ping", "find_node", "get_peers", "get_signed_peers", "get", "announce_peer",
                            "announce_signed_peer", "put_immutable", "put_mutable"}
IsError(m) == m.kind = "error"

Encode(m) == IF IsRequest(m) THEN Envelope(m, "q") @@ ("q" :> QName(m)) @@ ("a" :> Args(m))
             ELSE IF IsError(m) THEN Envelope(m, "e") @@ ("e" :> <<m.code, m.text>>)
             ELSE Envelope(m, "r") @@ ("r" :> Resp(m))

(* ------------------------------ the buildable space -------------------- *)
Ids == {"id:zero", "id:ff", "id:a"}
Tids == {"t:0", "t:1", "t:65535", "t:65536", "t:4294967295"}
Toks == {"tok:0", "tok:1", "tok:4", "tok:20"}
Vals == {"v:0", "v:1", "v:1000", "v:1001"}
Seqs == {"0", "1", "-1", "9223372036854775807", "-9223372036854775808"}
Nodes == {"none", "nodes:0", "nodes:1", "nodes:2", "nodes:20", "nodes:50"}
Salts == {"none", "salt:0", "salt:1", "salt:64", "salt:65"}

\* one-dimensional sweeps: every length / count in a range (with everything else standard), because a codec can go wrong at
\* one particular size only (a count whose byte length is also a multiple of another record size, a length limit, ...)
Lab(p, S) == {p \o ToString(n) : n \in S}
NodesSweep == Lab("nodes:", 0..80)
ValuesSweep == Lab("values:", 0..64)
SpeersSweep == Lab("speers:", 0..24)
ToksSweep == Lab("tok:", 0..40)
ValsSweep == Lab("v:", (0..40) \cup (990..1010))
SaltsSweep == Lab("salt:", 0..70)
TextsSweep == Lab("text:a", (1..300) \cup {511, 512, 513, 1000}) \cup Lab("text:u", (1..300) \cup {511, 512, 513, 1000})
                \cup Lab("text:w", 2..140)

Env0 == [tid |-> "t:1", ver |-> "RS06", ip |-> "none", ro |-> FALSE]
WithEnv(S) == {e @@ x : e \in {Env0}, x \in S}
Envelopes == [tid : Tids, ver : {"none", "RS06"}, ip : {"none", "ip:a"}, ro : BOOLEAN]

Requests0 ==
       {[kind |-> "ping", id |-> i] : i \in Ids}
  \cup {[kind |-> k, id |-> "id:a", target |-> t] : k \in {"find_node", "get_peers", "get_signed_peers"}, t \in Ids}
  \cup {[kind |-> "get", id |-> "id:a", target |-> "id:ff", seq |-> s] : s \in Seqs \cup {"none"}}
  \cup {[kind |-> "announce_peer", id |-> "id:a", target |-> "id:zero", token |-> t, port |-> p, implied |-> i] :
          t \in Toks, p \in {"0", "1", "65535"}, i \in {"none", "true", "false"}}
  \cup {[kind |-> "announce_signed_peer", id |-> "id:a", target |-> "id:zero", token |-> t, k |-> "k:1", sig |-> "sig:1", t |-> ts] :
          t \in {"tok:4", "tok:0"}, ts \in {"0", "1", "9223372036854775807", "18446744073709551615"}}
  \cup {[kind |-> "put_immutable", id |-> "id:a", target |-> "id:ff", token |-> t, v |-> v] : t \in Toks, v \in Vals}
  \cup {[kind |-> "put_mutable", id |-> "id:a", target |-> "id:ff", token |-> t, v |-> v, k |-> "k:1", sig |-> "sig:1",
         seq |-> s, cas |-> c, salt |-> sl] :
          t \in {"tok:4", "tok:0"}, v \in {"v:0", "v:1000"}, s \in Seqs, c \in {"none", "0", "-1", "9223372036854775807"}, sl \in Salts}
Responses0 ==
       {[kind |-> "r_ping", id |-> i] : i \in Ids}
  \cup {[kind |-> "r_find_node", id |-> "id:a", nodes |-> n] : n \in Nodes \ {"none"}}
  \cup {[kind |-> "r_get_peers", id |-> "id:a", token |-> t, nodes |-> n, values |-> v] :
          t \in Toks, n \in Nodes, v \in {"values:0", "values:1", "values:2", "values:50"}}
  \cup {[kind |-> "r_get_signed_peers", id |-> "id:a", token |-> t, nodes |-> n, values |-> v] :
          t \in {"tok:4"}, n \in Nodes, v \in {"speers:0", "speers:1", "speers:2"}}
  \cup {[kind |-> "r_get_immutable", id |-> "id:a", token |-> t, nodes |-> n, v |-> v] : t \in Toks, n \in Nodes, v \in Vals}
  \cup {[kind |-> "r_get_mutable", id |-> "id:a", token |-> t, nodes |-> n, v |-> v, k |-> "k:1", sig |-> "sig:1", seq |-> s] :
          t \in {"tok:4", "tok:0"}, n \in {"none", "nodes:2"}, v \in Vals, s \in Seqs}
  \cup {[kind |-> "r_no_values", id |-> "id:a", token |-> t, nodes |-> n] : t \in Toks, n \in Nodes}
  \cup {[kind |-> "r_no_more_recent", id |-> "id:a", token |-> t, nodes |-> n, seq |-> s] : t \in {"tok:4", "tok:0"}, n \in Nodes, s \in Seqs}
Errors0 == {[kind |-> "error", code |-> c, text |-> x] : c \in {"201", "203", "-1", "2147483647", "-2147483648"},
                                                         x \in {"text:empty", "text:generic", "text:utf8"}}
\* node lists in which ids repeat (at different addresses)
NodesDup == {"nodesdup:3", "nodesdup:4", "nodesdup:7", "nodesdup:20"}
Sweeps ==
       {[kind |-> "r_find_node", id |-> "id:a", nodes |-> n] : n \in NodesDup}
  \cup {[kind |-> "r_no_values", id |-> "id:a", token |-> "tok:4", nodes |-> n] : n \in NodesDup}
  \cup {[kind |-> "r_get_mutable", id |-> "id:a", token |-> "tok:4", nodes |-> n, v |-> "v:1", k |-> "k:1", sig |-> "sig:1", seq |-> "1"] : n \in NodesDup}
  \cup {[kind |-> "r_get_peers", id |-> "id:a", token |-> "tok:4", nodes |-> n, values |-> "values:1"] : n \in NodesDup}
  \cup
       {[kind |-> "r_find_node", id |-> "id:a", nodes |-> n] : n \in NodesSweep}
  \cup {[kind |-> k, id |-> "id:a", token |-> "tok:4", nodes |-> n] : k \in {"r_no_values"}, n \in NodesSweep}
  \cup {[kind |-> "r_get_immutable", id |-> "id:a", token |-> "tok:4", nodes |-> n, v |-> "v:1"] : n \in NodesSweep}
  \cup {[kind |-> "r_get_mutable", id |-> "id:a", token |-> "tok:4", nodes |-> n, v |-> "v:1", k |-> "k:1", sig |-> "sig:1", seq |-> "1"] : n \in NodesSweep}
  \cup {[kind |-> "r_no_more_recent", id |-> "id:a", token |-> "tok:4", nodes |-> n, seq |-> "1"] : n \in NodesSweep}
  \cup {[kind |-> "r_get_peers", id |-> "id:a", token |-> "tok:4", nodes |-> n, values |-> "values:1"] : n \in NodesSweep}
  \cup {[kind |-> "r_get_signed_peers", id |-> "id:a", token |-> "tok:4", nodes |-> n, values |-> "speers:1"] : n \in NodesSweep}
  \cup {[kind |-> "r_get_peers", id |-> "id:a", token |-> "tok:4", nodes |-> n, values |-> v] : n \in {"none", "nodes:2"}, v \in ValuesSweep}
  \cup {[kind |-> "r_get_signed_peers", id |-> "id:a", token |-> "tok:4", nodes |-> n, values |-> v] : n \in {"none", "nodes:2"}, v \in SpeersSweep}
  \cup {[kind |-> "r_no_values", id |-> "id:a", token |-> t, nodes |-> "nodes:2"] : t \in ToksSweep}
  \cup {[kind |-> "put_immutable", id |-> "id:a", target |-> "id:ff", token |-> t, v |-> "v:1"] : t \in ToksSweep}
  \cup {[kind |-> "announce_peer", id |-> "id:a", target |-> "id:zero", token |-> t, port |-> "1", implied |-> "none"] : t \in ToksSweep}
  \cup {[kind |-> "put_immutable", id |-> "id:a", target |-> "id:ff", token |-> "tok:4", v |-> v] : v \in ValsSweep}
  \cup {[kind |-> "r_get_immutable", id |-> "id:a", token |-> "tok:4", nodes |-> "none", v |-> v] : v \in ValsSweep}
  \cup {[kind |-> "put_mutable", id |-> "id:a", target |-> "id:ff", token |-> "tok:4", v |-> v, k |-> "k:1", sig |-> "sig:1",
         seq |-> "1", cas |-> "none", salt |-> sl] : v \in {"v:1"}, sl \in SaltsSweep}
  \cup {[kind |-> "error", code |-> "203", text |-> x] : x \in TextsSweep}
\* every kind-specific combination with the standard envelope, plus every envelope with one message of each kind
Rep(S) == {CHOOSE x \in {y \in S : y.kind = k} : TRUE : k \in {z.kind : z \in S}}
Messages == WithEnv(Requests0 \cup Responses0 \cup Errors0 \cup Sweeps)
            \cup {e @@ x : e \in Envelopes, x \in Rep(Requests0 \cup Responses0 \cup Errors0)}
=============================================================================
