------------------------------- MODULE MC_Actor -------------------------------
(* Exhaustive exploration of Actor.tla at design level: a few API calls on two data targets (A: mutable items that   *)
(* conflict / supersede / repeat, B: an immutable value), two peers as the environment (answer with nodes / token /   *)
(* value / ack / 301 / 302 / 203, lose datagrams), request expiry as an explicit step, every HashMap order of the     *)
(* targets.  Time stays 0 (no maintenance round fires; those are stepped in the long conformance plans).            *)
EXTENDS Actor, TLC
CONSTANTS CallSet          \* the calls of this configuration (subset of MCalls)
VARIABLE ex                \* transaction ids whose request has expired

MPeers == {"p1", "p2"}
MTargets == {"A", "B", "S"}
MCalls == {"putA1", "putA1b", "putA2", "putA2c", "putA0c", "getA", "fnA", "putB", "getB"}
Mut(sig, seq, cas) == [kind |-> "mut", sig |-> sig, seq |-> seq, cas |-> cas]
MItemOf == [c \in MCalls |->
   CASE c = "putA1" -> Mut(1, 1, -1) [] c = "putA1b" -> Mut(1, 1, -1) [] c = "putA2" -> Mut(2, 2, -1)
     [] c = "putA2c" -> Mut(3, 2, 1) [] c = "putA0c" -> Mut(6, 0, 1)
     [] c = "putB" -> [kind |-> "imm", sig |-> 100, seq |-> 0, cas |-> -1]
     [] OTHER -> NoItem]
MOpOf == [c \in MCalls |-> IF c = "fnA" THEN "fn" ELSE IF c \in {"getA", "getB"} THEN "get" ELSE "put"]
MTargetOf == [c \in MCalls |-> IF c \in {"putB", "getB"} THEN "B" ELSE "A"]
MDist == [t \in MTargets |-> [p \in MPeers |-> IF (t = "B") = (p = "p1") THEN 2 ELSE 1]]
MKnows == [p \in MPeers |-> [t \in MTargets |-> MPeers]]
MBoot == {"p2"}

Orders == {<<"A", "B", "S">>, <<"B", "A", "S">>}      \* S is never active here: two orders cover the HashMap orders that matter
vars == <<s, ex>>

Init == s = [Init0 EXCEPT !.rt = [p \in MBoot |-> 0]] /\ ex = {}

Clean(st) == st
ApiCall(c) == /\ c \in CallSet /\ c \notin s.called
              /\ s' = [s EXCEPT !.mbox = Append(s.mbox, c), !.called = s.called \cup {c}]
              /\ UNCHANGED ex
Loop(input, ord) == s' = Tick(HandleApi(s, 0), input, 0, ex, ord)
Idle == (\E ord \in Orders : Loop(NoIn, ord)) /\ UNCHANGED ex
Deliver(m) == /\ m.dir = "resp"
              /\ \E ord \in Orders :
                   s' = [Tick(HandleApi(s, 0), [dir |-> "resp", tid |-> m.tid, peer |-> m.peer, kind |-> m.kind, val |-> m.val, code |-> m.code], 0, ex, ord)
                           EXCEPT !.net = @ \ {m}]
              /\ UNCHANGED ex
Answers(m) == IF m.kind = "store" THEN {[kind |-> "ack", val |-> 0, code |-> 0], [kind |-> "e", val |-> 0, code |-> 301],
                                        [kind |-> "e", val |-> 0, code |-> 302], [kind |-> "e", val |-> 0, code |-> 203]}
              ELSE IF m.kind = "get" THEN {[kind |-> "tok", val |-> 0, code |-> 0], [kind |-> "val", val |-> IF m.t = "A" THEN 1 ELSE 100, code |-> 0]}
              ELSE IF m.kind = "ping" THEN {[kind |-> "pong", val |-> 0, code |-> 0]}
              ELSE {[kind |-> "nodes", val |-> 0, code |-> 0]}
PeerAnswer(m) == /\ m.dir = "req"
                 /\ \E a \in Answers(m) :
                      s' = [s EXCEPT !.net = (s.net \ {m}) \cup {[dir |-> "resp", tid |-> m.tid, peer |-> m.peer, kind |-> a.kind, val |-> a.val, code |-> a.code]}]
                 /\ UNCHANGED ex
Lose(m) == s' = [s EXCEPT !.net = s.net \ {m}] /\ UNCHANGED ex
\* requests expire in the order they were sent (same timeout for all)
Expire == /\ \E i \in s.infl : i.tid \notin ex
          /\ LET t == CHOOSE x \in {i.tid : i \in {j \in s.infl : j.tid \notin ex}} : \A y \in {i.tid : i \in {j \in s.infl : j.tid \notin ex}} : x <= y
             IN ex' = ex \cup {t}
          /\ UNCHANGED s
Next == \/ \E c \in CallSet : ApiCall(c)
        \/ Idle
        \/ \E m \in s.net : Deliver(m) \/ PeerAnswer(m) \/ Lose(m)
        \/ Expire
Spec == Init /\ [][Next]_vars /\ WF_vars(Idle) /\ WF_vars(Expire)

\* ------------------------------ L1 ------------------------------
Quiet == s.net = {} /\ s.mbox = <<>> /\ \A i \in s.infl : i.tid \in ex
Fix == \A ord \in Orders : Tick(HandleApi(s, 0), NoIn, 0, ex, ord) = s
\* C06: no quiescent state in which a call is pending and idle ticks change nothing
C06_NotStuck == ~(Quiet /\ Fix /\ \E c \in s.called : s.done[c] = "pending")
C06_ExactlyOne == \A c \in MCalls : s.outcomes[c] <= 1
\* C20: nothing is left behind at quiescence
C20_NoLeak == (Quiet /\ Fix) => \A t \in MTargets : ~s.q[t].on /\ ~s.p[t].on /\ s.gs[t] = {} /\ s.ps[t] = {}
\* C17: concurrency errors only for mutable puts, and only the three of the table
C17_NeverForOtherKinds == \A c \in s.called : (MOpOf[c] = "put" /\ MItemOf[c].kind = "imm") => s.done[c] \notin {"NotMostRecent", "CasFailed", "ConflictRisk"}
\* C07 (design level): between ticks every one of the K closest known candidates of every active lookup has been queried
C07_ClosureInv == \A t \in MTargets : s.q[t].on => Closest(t, s.q[t].cand) \subseteq s.q[t].vis
\* a reader parked on a target has received every value its lookup has seen (streams are complete and in order)
ReadersSeeAll == \A t \in MTargets : \A c \in s.gs[t] : (MOpOf[c] = "get" /\ s.q[t].on) =>
                    \E k \in 0..Len(s.got[c]) : SubSeq(s.got[c], k + 1, Len(s.got[c])) = s.q[t].vals
TypeOK == \A t \in MTargets : s.p[t].on => s.p[t].item.kind \in {"mut", "imm"}
C06_Terminates == \A c \in MCalls : (c \in s.called) ~> (s.done[c] # "pending")
=============================================================================
