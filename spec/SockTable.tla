------------------------------ MODULE SockTable ------------------------------
(* actor/socket.rs InflightRequests as it is: a vector of requests in sending order, transaction ids handed out by a      *)
(* counter, the lazy compaction that runs at the start of a receive only when the vector is FULL (its length has reached *)
(* its capacity; the capacity doubles when a request is pushed onto a full vector: 4, 8, 16, ...) and then drops the     *)
(* expired prefix, and the attribution rule of is_expected_response: the address is compared before anything is         *)
(* consumed; a matching entry is removed whatever its age; the message is handed on only if the entry had not expired.   *)
(* The request timeout adapts to observed round trips (float arithmetic): it is an INPUT of every step here (the value   *)
(* in force before the step, read off the socket), so the table logic is exact while the estimator stays outside.  Ages *)
(* are whole milliseconds, the timeout is not: it is given as [lo, hi] = its floor and ceiling in milliseconds.           *)
(* Stepped alongside a bare KrpcSocket by SockTableTrace (hook SocketUnderTest).                                         *)
EXTENDS Integers, Sequences, FiniteSets
NoHit == 0

Init0 == [next |-> 0, reqs |-> <<>>, cap |-> 0, now |-> 0]

\* socket.request -> add(): the id is the counter's value; a push onto a full vector doubles its capacity (first: 4)
Send(st, to) ==
  [st |-> [st EXCEPT !.next = st.next + 1,
                     !.reqs = Append(st.reqs, [tid |-> st.next, to |-> to, at |-> st.now]),
                     !.cap = IF Len(st.reqs) = st.cap THEN (IF st.cap = 0 THEN 4 ELSE 2 * st.cap) ELSE st.cap],
   tid |-> st.next]

Expired(r, st, timeout) == st.now - r.at >= timeout.hi
\* cleanup(): only when the vector is full; the expired PREFIX goes (requests are in sending order).  The cut is found by a
\* binary search on "age versus timeout": requests whose age EQUALS the timeout compare Equal, and the search may stop at any of
\* them - k of those boundary requests go with the strictly older ones (k is not determined: 0 .. their number)
RECURSIVE DropOlderPrefix(_, _, _)
DropOlderPrefix(q, st, timeout) ==
  IF q # <<>> /\ st.now - Head(q).at > timeout.lo THEN DropOlderPrefix(Tail(q), st, timeout) ELSE q
RECURSIVE Boundary(_, _, _)
Boundary(q, st, timeout) == IF q # <<>> /\ timeout.lo = timeout.hi /\ st.now - Head(q).at = timeout.lo THEN 1 + Boundary(Tail(q), st, timeout) ELSE 0
Cleanup(st, timeout, k) ==
  IF Len(st.reqs) >= st.cap /\ st.cap > 0
  THEN LET q == DropOlderPrefix(st.reqs, st, timeout) IN [st EXCEPT !.reqs = SubSeq(q, k + 1, Len(q))]
  ELSE st
Cuts(st, timeout) == IF Len(st.reqs) >= st.cap /\ st.cap > 0 THEN 0..Boundary(DropOlderPrefix(st.reqs, st, timeout), st, timeout) ELSE {0}

Index(q, t) == IF \E i \in 1..Len(q) : q[i].tid = t THEN CHOOSE i \in 1..Len(q) : q[i].tid = t ELSE NoHit
Without(q, i) == [j \in 1..(Len(q) - 1) |-> IF j < i THEN q[j] ELSE q[j + 1]]

\* recv_from: compaction first.  Nothing read, bytes that are no message, a datagram from port 0: nothing is handed on.  A REQUEST
\* is handed on whatever transaction id it carries and touches no in-flight request.  A response / error <<t, from>>: the
\* attribution rule.
\* ("big": a response of the largest legal size)
Answers(kind) == kind \in {"resp", "err", "big"}
Recv(st0, t, from, timeout, k, kind) ==
  LET st == Cleanup(st0, timeout, k)
      i == IF t < 0 THEN NoHit ELSE Index(st.reqs, t)
  IN IF from = "port0" \/ kind \in {"none", "junk"} THEN [st |-> st, handed |-> FALSE]
     ELSE IF kind = "req" THEN [st |-> st, handed |-> TRUE]
     ELSE IF i = NoHit \/ st.reqs[i].to # from THEN [st |-> st, handed |-> FALSE]
     ELSE [st |-> [st EXCEPT !.reqs = Without(st.reqs, i)], handed |-> ~Expired(st.reqs[i], st, timeout)]

Advance(st, ms) == [st EXCEPT !.now = st.now + ms]
=============================================================================
