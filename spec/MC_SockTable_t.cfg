SPECIFICATION Spec
CONSTANTS
  MaxSend = 5
  MaxTime = 4
  Timeout = 2
  ResetWhenEmptied = FALSE
INVARIANTS SendingOrder WithinCapacity C09_TidsNotReused C09_CounterAhead C09_ReceiveRules
CHECK_DEADLOCK FALSE
