SPECIFICATION TraceSpec
CONSTANTS
  Rotate = 300000
  TsTolerance = 45000
  MaxV = 1000
  MaxSalt = 64
  CheckKeyTarget = TRUE
POSTCONDITION TraceAccepted
CHECK_DEADLOCK FALSE
