--------------------------- MODULE QueryTickTrace ---------------------------
(* Tick-level L2 conformance of the real Actor (actor.rs tick / get / put, core.rs, iterative_query.rs,  *)
(* put_query.rs, the in-flight table of socket.rs) against Query.tla.                                      *)
(* One real client node among four scripted peers p1..p4 (p1 closest to the target) that know each other   *)
(* in a chain (TKnows), bootstrapped through p4 only.  Every line of the trace is one step of the real     *)
(* node: an API call handled by Actor::get / Actor::put (`api`), or one Actor::tick with the datagram it   *)
(* read (`tick`, input = timeout when none), each with the set of in-flight requests that have expired by  *)
(* then and the projection of the node's state afterwards (cfg-gated snapshot).  The model is stepped by   *)
(* Query!HandleApi / Query!Tick with the same input; transaction ids are the real ones minus the id the    *)
(* node was at when the behaviour started (SendAll sends closest-first, like visit_closest / PutQuery::start *)
(* do), so requests, answers and expiry are identified exactly.  Any difference between the observed and   *)
(* the model's projection is reported as DRIFT with the differing fields and the rest of the behaviour is  *)
(* skipped; the L1 formulas of C06 / C20 that can be read off a single observed state are evaluated on     *)
(* every line.                                                                                             *)
EXTENDS Query, Json, IOUtils, TLCExt
VARIABLES l, mode, base, beh

Rec == ndJsonDeserialize(IOEnv.TRACE)
tvars == <<s, l, mode, base, beh>>

\* ---- the fixed scenario topology (the harness builds exactly this) ----
TPeers == {"p1", "p2", "p3", "p4"}
TDist == [p \in TPeers |-> CASE p = "p1" -> 1 [] p = "p2" -> 2 [] p = "p3" -> 3 [] OTHER -> 4]
TKnows == [p \in TPeers |-> CASE p = "p4" -> {"p3", "p4"} [] p = "p3" -> {"p2", "p3"} [] p = "p2" -> {"p1", "p2"} [] OTHER -> {"p1", "p2"}]
TBoot == {"p4"}
TCalls == {"fn1", "fn2", "get1", "get2", "put1", "put2"}
TOpOf == [c \in TCalls |-> CASE c \in {"fn1", "fn2"} -> "fn" [] c \in {"get1", "get2"} -> "get" [] OTHER -> "put"]

SeqSet(q) == {q[i] : i \in 1..Len(q)}

\* ages: a request is either live (0) or expired (MaxAge); the harness computes expiry from its own wire log
SetAges(st, expired) ==
  [st EXCEPT !.infl = {[i EXCEPT !.age = IF (i.tid + base) \in expired THEN MaxAge ELSE 0] : i \in st.infl}]

\* what the snapshot shows, computed from the model state
Proj(st) ==
  [q_on |-> st.q.on,
   q_kind |-> IF st.q.on THEN st.q.kind ELSE "none",
   cand |-> IF st.q.on THEN st.q.cand ELSE {},
   vis |-> IF st.q.on THEN st.q.vis ELSE {},
   resp |-> IF st.q.on THEN st.q.resp ELSE {},
   q_tids |-> IF st.q.on THEN {t + base : t \in st.q.tids} ELSE {},
   p_on |-> st.p.on,
   p_started |-> st.p.on /\ st.p.started,
   p_tids |-> IF st.p.on THEN {t + base : t \in st.p.tids} ELSE {},
   acks |-> IF st.p.on THEN st.p.acks ELSE 0,
   errs |-> IF st.p.on THEN st.p.errs ELSE 0,
   live |-> {i.tid + base : i \in {j \in st.infl : j.age < MaxAge}},
   present |-> {i.tid + base : i \in st.infl}, cap |-> st.cap,
   next_tid |-> st.tid + base,
   cache_on |-> st.cache.on,
   cache_kind |-> IF st.cache.on THEN st.cache.kind ELSE "none",
   cache_nodes |-> IF st.cache.on THEN Cardinality(st.cache.nodes) ELSE 0,
   rt |-> st.rt,
   waiting_get |-> Cardinality(st.gs), waiting_put |-> Cardinality(st.ps),
   done |-> [c \in st.called |-> st.done[c]]]

Obs(o) ==
  [q_on |-> o.q_on, q_kind |-> o.q_kind, cand |-> SeqSet(o.cand), vis |-> SeqSet(o.vis), resp |-> SeqSet(o.resp),
   q_tids |-> SeqSet(o.q_tids), p_on |-> o.p_on, p_started |-> o.p_started, p_tids |-> SeqSet(o.p_tids),
   acks |-> o.acks, errs |-> o.errs, live |-> SeqSet(o.live), present |-> SeqSet(o.present), cap |-> o.cap, next_tid |-> o.next_tid,
   cache_on |-> o.cache_on, cache_kind |-> o.cache_kind, cache_nodes |-> o.cache_nodes,
   rt |-> SeqSet(o.rt),
   waiting_get |-> o.waiting_get, waiting_put |-> o.waiting_put,
   done |-> [c \in SeqSet(o.called) |-> o.done[c]]]

Fields == {"q_on", "q_kind", "cand", "vis", "resp", "q_tids", "p_on", "p_started", "p_tids", "acks", "errs", "live", "present", "cap",
           "next_tid", "cache_on", "cache_kind", "cache_nodes", "rt", "waiting_get", "waiting_put", "done"}
Diff(a, b) == {f \in Fields : a[f] # b[f]}

\* L1 readable off one observed state (the model-level formulas of Query.tla, on the observation):
\*   C06_ExactlyOne : no call has received more than one outcome;  C20 : a node with nothing in flight keeps no query / put
L1(e) ==
  (IF \E c \in DOMAIN e.outcomes : e.outcomes[c] > 1 THEN {"C06_ExactlyOne"} ELSE {})
  \cup (IF e.panicked THEN {"C06_NodeAlive"} ELSE {})
  \cup (IF \E c \in DOMAIN e.proj.done : e.proj.done[c] = "dropped" THEN {"C06_CallAnswered"} ELSE {})
  \* the last line of a behaviour is taken 6 s (12 request timeouts) after the last call: every call has completed
  \cup (IF e.last /\ \E c \in DOMAIN e.proj.done : e.proj.done[c] = "pending" THEN {"C06_Terminates"} ELSE {})
  \cup (IF e.quiet /\ (e.proj.q_on \/ e.proj.p_on \/ e.proj.waiting_get > 0 \/ e.proj.waiting_put > 0)
        THEN {"C20_NoLeak"} ELSE {})
  \* C09: over the whole behaviour no (transaction id, address) pair is used for two requests
  \cup (IF e.tid_reused # <<>> THEN {"C09_TidsNotReused"} ELSE {})

TInit == /\ s = [tid |-> 0, infl |-> {}, q |-> NoQ, p |-> NoP, cache |-> NoC, gs |-> {}, ps |-> {}, mbox |-> <<>>,
                 called |-> {}, done |-> [c \in Calls |-> "pending"], outcomes |-> [c \in Calls |-> 0], net |-> {}, rt |-> Boot, cap |-> 0]
         /\ l = 1 /\ mode = "skip" /\ base = 0 /\ beh = -1

Reset == /\ Rec[l].e = "reset"
         \* requests left over from the bootstrap are in the table with negative model ids
         /\ s' = [tid |-> 0, infl |-> {[tid |-> Rec[l].infl0[i][1] - Rec[l].tid_base, to |-> Rec[l].infl0[i][2], age |-> 0] : i \in 1..Len(Rec[l].infl0)},
                  q |-> NoQ, p |-> NoP, cache |-> NoC, gs |-> {}, ps |-> {}, mbox |-> <<>>,
                  called |-> {}, done |-> [c \in Calls |-> "pending"], outcomes |-> [c \in Calls |-> 0], net |-> {}, rt |-> Boot,
                  cap |-> Rec[l].cap0]
         /\ base' = Rec[l].tid_base /\ beh' = Rec[l].b /\ mode' = "ok" /\ l' = l + 1

Skip == /\ Rec[l].e \in {"api", "tick"} /\ mode = "skip"
        /\ l' = l + 1 /\ UNCHANGED <<s, mode, base, beh>>

\* the fields through which a message can influence query results, routing tables and put results
CoreFields == {"cand", "vis", "resp", "rt", "acks", "errs", "q_on", "p_on", "cache_on", "cache_nodes", "done"}
Judge(e, m) ==
  LET d == Diff(Obs(e.proj), Proj(m))
      \* C09: the datagram read in this tick answers a request that had already expired (harness clock), and the node's state
      \* differs from the model's - in which expired replies only leave the in-flight table - in a core field
      lateEffect == e.e = "tick" /\ e.input.dir = "resp" /\ e.input.tid \in SeqSet(e.expired) /\ d \cap CoreFields # {}
      \* C09: a reply or error that matches an outstanding request (transaction id and address) consumes it
      notConsumed == e.e = "tick" /\ e.input.dir = "resp" /\ e.input.tid \in SeqSet(e.proj.present)
                     /\ \E i \in s.infl : i.tid = e.input.tid - base /\ i.to = e.input.peer
      f == L1(e) \cup (IF lateEffect THEN {"C09_ExpiredIgnored"} ELSE {}) \cup (IF notConsumed THEN {"C09_ConsumedOnce"} ELSE {}) IN
  IF f # {} THEN PrintT(<<"VIOL", ToJson([line |-> l, b |-> beh, failed |-> f, step |-> e.e])>>) /\ mode' = "skip"
  ELSE IF d # {}
       THEN PrintT(<<"DRIFT", ToJson([line |-> l, b |-> beh, step |-> e.e, fields |-> d,
                                       obs |-> [f2 \in d |-> Obs(e.proj)[f2]], model |-> [f2 \in d |-> Proj(m)[f2]]])>>)
            /\ mode' = "skip"
       ELSE mode' = "ok"

Api == /\ Rec[l].e = "api" /\ mode = "ok"
       /\ LET e == Rec[l]
              pre == SetAges([s EXCEPT !.mbox = <<e.call>>, !.called = @ \cup {e.call}], SeqSet(e.expired))
              m == [HandleApi(pre) EXCEPT !.net = {}]
          IN Judge(e, m) /\ s' = m
       /\ l' = l + 1 /\ UNCHANGED <<base, beh>>

TickStep == /\ Rec[l].e = "tick" /\ mode = "ok"
            /\ LET e == Rec[l]
                   input == IF e.input.dir = "timeout" THEN TimeoutIn
                            ELSE [dir |-> "resp", tid |-> e.input.tid - base, peer |-> e.input.peer, kind |-> e.input.kind]
                   m == [Tick(SetAges(s, SeqSet(e.expired)), input) EXCEPT !.net = {}]
               IN Judge(e, m) /\ s' = m
            /\ l' = l + 1 /\ UNCHANGED <<base, beh>>

\* the node died (a panic in the code under test is data)
Dead == /\ Rec[l].e = "dead"
        /\ IF mode = "ok" THEN PrintT(<<"VIOL", ToJson([line |-> l, b |-> beh, failed |-> {"C06_NodeAlive"}, step |-> "dead"])>>) ELSE TRUE
        /\ mode' = "skip" /\ l' = l + 1 /\ UNCHANGED <<s, base, beh>>

TNext == l <= Len(Rec) /\ (Reset \/ Skip \/ Api \/ TickStep \/ Dead)
TSpec == TInit /\ [][TNext]_tvars
TraceAccepted == IF TLCGet("stats").diameter - 1 = Len(Rec) THEN TRUE
                 ELSE PrintT(<<"REJECTED", TLCGet("stats").diameter, Len(Rec)>>) /\ FALSE
=============================================================================
