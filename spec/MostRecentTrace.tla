-------------------------- MODULE MostRecentTrace --------------------------
(* C16 on the real API: each line is one call of get_mutable_most_recent (async or sync flavour)  *)
(* with the authentic items in the order their response datagrams were delivered to the node     *)
(* and the returned item.  L1 is MostRecent!Expected on the observed arrival sequence.            *)
EXTENDS MostRecent, Json, IOUtils, TLCExt
VARIABLE l
Rec == ndJsonDeserialize(IOEnv.TRACE)
Seq2(q) == [i \in 1..Len(q) |-> <<q[i][1], q[i][2]>>]
Failed(e) ==
  IF e.hung THEN {"C16_Terminates"}
  ELSE IF e.status = "panic" THEN {"C16_NoPanic"}
  ELSE LET arr == Seq2(e.arrived) res == <<e.result[1], e.result[2]>> exp == Expected(arr) IN
       (IF (res = NoneItem) # (arr = <<>>) THEN {"C16_NoneIffNothing"} ELSE {})
       \cup (IF res # NoneItem /\ arr # <<>> /\ res[1] # exp[1] THEN {"C16_MaxSeq"} ELSE {})
       \cup (IF res # NoneItem /\ arr # <<>> /\ res[1] = exp[1] /\ res[2] # exp[2] THEN {"C16_TieGreatestValue"} ELSE {})
TInit == l = 1 /\ items = <<>> /\ pending = {} /\ best = NoneItem /\ arrived = <<>>
TNext == /\ l <= Len(Rec)
         /\ LET f == Failed(Rec[l]) IN
            IF f # {} THEN PrintT(<<"VIOL", ToJson([line |-> l, b |-> Rec[l].b, failed |-> f, flavour |-> Rec[l].flavour])>>) ELSE TRUE
         /\ l' = l + 1 /\ UNCHANGED vars
TSpec == TInit /\ [][TNext]_<<l, vars>>
TraceAccepted == IF TLCGet("stats").diameter - 1 = Len(Rec) THEN TRUE
                 ELSE PrintT(<<"REJECTED", TLCGet("stats").diameter, Len(Rec)>>) /\ FALSE
=============================================================================
