---------------------------- MODULE IdMathTrace ----------------------------
(* C19: every line of the trace is one call of the library's id arithmetic on harness-chosen     *)
(* inputs with the library's observed output; TLC recomputes the output with the IdMath          *)
(* operators and reports each disagreement as <<"VIOL", json>>.                                  *)
EXTENDS IdMath, Json, IOUtils, TLCExt
VARIABLE l
Rec == ndJsonDeserialize(IOEnv.TRACE)

Failed(e) ==
  CASE e.op = "distance" ->
         IF e.panic THEN {"C19_DistanceTotal"} ELSE
         (IF e.obs # Distance(e.a, e.b) THEN {"C19_Distance"} ELSE {})
         \cup (IF e.obs_rev # e.obs THEN {"C19_Symmetric"} ELSE {})
         \cup (IF (e.obs = 0) # (e.a = e.b) THEN {"C19_ZeroIffEqual"} ELSE {})
    [] e.op = "xorcmp" ->
         (IF e.obs # XorCmp(e.a, e.b, e.t) THEN {"C19_XorOrder"} ELSE {})
         \cup (IF e.da >= 0 /\ e.db >= 0 /\ e.da < e.db /\ e.obs # -1 THEN {"C19_DistanceConsistentWithXor"} ELSE {})
    [] e.op = "parse" ->
         (IF e.panic THEN {"C19_ParseTotal"} ELSE {})
         \cup (IF ~e.panic /\ e.ok # ParseOk(e.s) THEN {"C19_ParseAcceptsExactly40Hex"} ELSE {})
         \cup (IF ~e.panic /\ e.ok /\ ParseOk(e.s) /\ e.bytes # ParseBytes(e.s) THEN {"C19_ParseValue"} ELSE {})
         \cup (IF ~e.panic /\ e.ok /\ ~e.display_roundtrip THEN {"C19_DisplayRoundTrip"} ELSE {})
    [] e.op = "frombytes" ->
         (IF e.panic THEN {"C19_ParseTotal"} ELSE {})
         \cup (IF ~e.panic /\ e.ok # (e.len = 20) THEN {"C19_FromBytesSize"} ELSE {})
    [] e.op = "valid" ->
         IF e.obs # ValidForIp(e.id, e.ip) THEN {"C19_ValidForIp"} ELSE {}
    [] e.op = "fromip" ->
         (IF ~ValidForIp(e.id, e.ip) THEN {"C19_FromIpValid"} ELSE {})
         \cup (IF ~e.lib_valid THEN {"C19_FromIpValidByLibrary"} ELSE {})
    [] e.op = "refcrc" ->
         \* the harness' own bitwise reference (used for the exhaustive Rust sweep) against the TLA+ operator
         IF e.prefix # Bep42Prefix(e.ip, e.r) THEN {"HARNESS_ReferenceCrc"} ELSE {}
    [] OTHER -> {}

Init == l = 1
Next == /\ l <= Len(Rec)
        /\ LET f == Failed(Rec[l]) IN
           IF f # {} THEN PrintT(<<"VIOL", ToJson([line |-> l, b |-> l, failed |-> f])>>) ELSE TRUE
        /\ l' = l + 1
Spec == Init /\ [][Next]_l
TraceAccepted == IF TLCGet("stats").diameter - 1 = Len(Rec) THEN TRUE
                 ELSE PrintT(<<"REJECTED", TLCGet("stats").diameter, Len(Rec)>>) /\ FALSE
=============================================================================
