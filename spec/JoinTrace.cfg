SPECIFICATION Spec
CONSTANT K = 20
POSTCONDITION TraceAccepted
CHECK_DEADLOCK FALSE
