------------------------------- MODULE Tokens -------------------------------
(* core/server/tokens.rs + the lazy rotation in Server::handle_request, over a clock in         *)
(* half-minutes (Rotate = 10): a token issued under the current secret is accepted while the     *)
(* secret is current or previous; secrets rotate only while a request is being handled and only  *)
(* if more than Rotate has passed since the last rotation.  L1 (C15): a token is valid for at    *)
(* least Rotate after issue, and on a node that receives a request at least every Gap it is      *)
(* rejected once older than 2*Rotate + Gap (the presenting request itself triggers the rotation, *)
(* which is why the bound is tight).                                                             *)
EXTENDS Integers, TLC
CONSTANTS MaxT, Rotate, Gap
VARIABLE s
Init == s = [now |-> 0, cur |-> 0, lastUpd |-> 0, lastReq |-> 0, issuedAt |-> -1, issuedEp |-> -1]
Rot(st) == IF st.now - st.lastUpd > Rotate THEN [st EXCEPT !.cur = st.cur + 1, !.lastUpd = st.now] ELSE st
Req(st) == [Rot(st) EXCEPT !.lastReq = st.now]
\* would a put presenting the token now be accepted
Valid(st) == LET r == Rot(st) IN st.issuedEp \in {r.cur, r.cur - 1}
Tick == /\ s.now < MaxT /\ s.now + 1 - s.lastReq <= Gap
        /\ s' = [s EXCEPT !.now = s.now + 1]
Request == s' = Req(s)
Issue == /\ s.issuedAt = -1 /\ LET r == Req(s) IN s' = [r EXCEPT !.issuedAt = r.now, !.issuedEp = r.cur]
Next == Tick \/ Request \/ Issue
Spec == Init /\ [][Next]_s
Age == s.now - s.issuedAt
ValidAtLeast5 == (s.issuedAt # -1 /\ Age <= Rotate) => Valid(s)
ExpiresTight == (s.issuedAt # -1 /\ Age > 2 * Rotate + Gap) => ~Valid(s)
\* sanity (must be violated): without the gap term the bound is too strong
ExpiresTooStrong == (s.issuedAt # -1 /\ Age > 2 * Rotate) => ~Valid(s)
=============================================================================
