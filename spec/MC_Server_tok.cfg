SPECIFICATION Spec
CONSTANTS
  Rotate = 300000
  TsTolerance = 45000
  MaxV = 1000
  MaxSalt = 64
  CheckKeyTarget = TRUE
  Part = "tok"
  MaxSeq = 0
  MaxEpoch = 3
  Filter = "allow"
  MaxLen = 12
  CapSmall = 1
INVARIANT L1Holds
INVARIANT CapsInv
CHECK_DEADLOCK FALSE
