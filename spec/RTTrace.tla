------------------------------ MODULE RTTrace ------------------------------
(* Trace validation of the real RoutingTable / ClosestNodes (public API + H5 re-key hook, H1      *)
(* virtual clock) against RT.tla with real 160-bit ids (IdMath).  Nodes are listed once per       *)
(* behaviour (reset line) and referred to by index.  After every operation the harness logs the   *)
(* projection of the table (bucket, node, age); the C12 invariants are evaluated on the OBSERVED   *)
(* table, the step formulas on (observed pre-state, operation, observed post-state), C11 on every  *)
(* observed closest() answer and accumulator.                                                     *)
EXTENDS Integers, Sequences, FiniteSets, TLC, Json, IOUtils, TLCExt
CONSTANTS KK, StaleC, RefreshKnownC, RekeySortedC
IM == INSTANCE IdMath
TDist(a, b) == IM!Distance(a, b)
TXorLt(a, b, t) == IM!XorLess(a, b, t)
TPfx(id) == IM!First21(id)
VARIABLES s, l, U, mode, beh,
          heard      \* node index -> instant of the last add() of that node (when the harness "heard from it"), whatever the table kept
INSTANCE RT WITH K <- KK, Stale <- StaleC, RefreshKnown <- RefreshKnownC, RekeySorted <- RekeySortedC, DistOp <- TDist, XorLt <- TXorLt, Pfx <- TPfx

Rec == ndJsonDeserialize(IOEnv.TRACE)
vars == <<s, l, U, mode, beh, heard>>
Empty == [id |-> <<>>, b |-> <<>>, now |-> 0]
TraceInit == s = Empty /\ l = 1 /\ U = <<>> /\ mode = "skip" /\ beh = -1 /\ heard = <<>>

Ent(i, seen) == [id |-> U[i].id, ip |-> U[i].ip, port |-> U[i].port, sec |-> U[i].sec, seen |-> seen]
\* observed table state from a projection  <<d, node index, age>>*
RECURSIVE ObsB(_, _, _)
ObsB(proj, i, now) == IF i > Len(proj) THEN <<>>
                      ELSE LET rest == ObsB(proj, i + 1, now)
                               d == proj[i][1]
                               e == Ent(proj[i][2], now - proj[i][3])
                           IN (d :> (<<e>> \o (IF d \in DOMAIN rest THEN rest[d] ELSE <<>>))) @@ rest
Obs(tid, proj, now) == [id |-> tid, b |-> ObsB(proj, 1, now), now |-> now]
\* compare ignoring empty buckets
Norm(st) == [id |-> st.id, now |-> st.now, b |-> [d \in {x \in DOMAIN st.b : st.b[x] # <<>>} |-> st.b[d]]]

Structure(st) ==
     (IF C12_NoSelf(st) THEN {} ELSE {"C12_NoSelf"})
  \cup (IF C12_UniqueIds(st) THEN {} ELSE {"C12_UniqueIds"})
  \cup (IF C12_BucketMatchesDistance(st) THEN {} ELSE {"C12_BucketMatchesDistance"})
  \cup (IF C12_BucketSize(st) THEN {} ELSE {"C12_BucketSize"})
  \cup (IF C12_IpRule(st) THEN {} ELSE {"C12_IpRule"})

Report(failed, extra) == PrintT(<<"VIOL", ToJson([line |-> l, b |-> beh, failed |-> failed] @@ extra)>>)

Reset == /\ Rec[l].e = "reset"
         /\ U' = Rec[l].nodes /\ s' = [id |-> Rec[l].tid, b |-> <<>>, now |-> 0]
         /\ mode' = "ok" /\ beh' = Rec[l].b /\ l' = l + 1 /\ heard' = <<>>
Skip == /\ Rec[l].e = "op" /\ mode = "skip" /\ l' = l + 1 /\ UNCHANGED <<s, U, mode, beh, heard>>

\* operations that change the table
Mutating(ev) ==
  LET m == CASE ev.op = "add" -> Add(s, Ent(ev.n, s.now))
             [] ev.op = "remove" -> [st |-> Remove(s, U[ev.n].id), ret |-> TRUE]
             [] ev.op = "reset_id" -> [st |-> ResetId(s, ev.tid), ret |-> TRUE]
             [] ev.op = "advance" -> [st |-> Advance(s, ev.ms), ret |-> TRUE]
      o == Obs(m.st.id, ev.proj, m.st.now)
      \* size(), is_empty(), the public iterator nodes() and to_bootstrap() agree with the buckets: the iterator yields every
      \* member exactly once (whatever buckets emptied out in between), in bucket order
      members == {ev.proj[i][2] : i \in 1..Len(ev.proj)}
      sizeOk == /\ ev.size = Size(o) /\ ev.is_empty = (Size(o) = 0)
                /\ Len(ev.iter) = Size(o) /\ {ev.iter[i] : i \in 1..Len(ev.iter)} = members
                /\ ev.iter = [i \in 1..Len(ev.proj) |-> ev.proj[i][2]]
                /\ ev.to_bootstrap = Cardinality({i \in 1..Len(ev.proj) : ev.proj[i][3] <= StaleC})
      \* "adding never evicts a fresh node", judged by when the node was last HEARD FROM (the last add() of it in this history), not
      \* by the stamp the table kept for it: an entry that left the table although add() was called for it 15 minutes ago or less
      nowT == s.now
      before == {x.id : x \in All(s)}
      after == {x.id : x \in All(o)}
      freshEvicted == ev.op = "add" /\ \E n \in DOMAIN heard : n # ev.n /\ U[n].id # U[ev.n].id /\ U[n].id \in before /\ U[n].id \notin after
                                          /\ nowT - heard[n] <= StaleC
                                          \* (the entry in the table was that node: same address)
                                          /\ \E x \in All(s) : x.id = U[n].id /\ x.ip = U[n].ip /\ x.port = U[n].port
      failed == Structure(o)
                \cup (IF freshEvicted THEN {"C12_NeverEvictsFresh"} ELSE {})
                \cup (IF sizeOk THEN {} ELSE {"C12_SizeAgrees"})
                \cup (IF ev.op = "add" /\ ~C12_EvictOnlyStaleHead(s, Ent(ev.n, s.now), o) THEN {"C12_EvictOnlyStaleHead"} ELSE {})
                \cup (IF ev.op = "add" /\ ~C14_RefreshOnReAdd(s, Ent(ev.n, s.now), o) THEN {"C14_RefreshOnReAdd"} ELSE {})
      conforms == Norm(o) = Norm(m.st) /\ (ev.op # "add" \/ ev.ret = m.ret)
  \* after a drift the model continues from the OBSERVED table (resynchronised): the formulas that are read off the observations
  \* keep being evaluated for the rest of the behaviour, and so does the conformance of every later step
  \* ... and after a violation too, as long as the observed table is well-formed (the other formulas of the family - what
  \* closest() answers from such a table, say - are still judged on the rest of the behaviour)
  IN /\ IF failed # {} THEN Report(failed, [op |-> ev.op]) /\ mode' = (IF Structure(o) = {} THEN "ok" ELSE "skip")
        ELSE IF ~conforms THEN PrintT(<<"DRIFT", ToJson([line |-> l, b |-> beh, op |-> ev.op])>>) /\ mode' = "ok"
        ELSE mode' = "ok"
     /\ s' = IF (failed = {} /\ ~conforms) \/ (failed # {} /\ Structure(o) = {}) THEN o ELSE m.st
     \* the node of an add() that is in the table afterwards has been heard from now
     /\ heard' = IF ev.op = "add" /\ U[ev.n].id \in after THEN (ev.n :> nowT) @@ heard ELSE heard

\* closest(): answer as node indices
Closest(ev) ==
  LET ans == [i \in 1..Len(ev.ans) |-> Ent(ev.ans[i], 0)]
      t == ev.t
      prefix == C11_ClosestIsPrefix(s, ans, t)
      failed == (IF C11_Members(s, ans) THEN {} ELSE {"C11_Members"})
                \cup (IF C11_Sorted(ans, t) THEN {} ELSE {"C11_Sorted"})
                \cup (IF prefix THEN {} ELSE {"C11_ClosestIsPrefix"})
                \* "... and therefore in find_node, get_peers and get responses": a server holding this table answers each
                \* request kind for this target with exactly the table's closest() answer
                \cup (IF ev.served.find_node = ev.ans /\ ev.served.get_peers = ev.ans /\ ev.served.get = ev.ans THEN {} ELSE {"C11_ResponsesCarryClosest"})
                \* a find_node answer drawn from both tables (signed-peers table = a subset of the main table): at most K nodes, all
                \* distinct, all members, the signed table's closest first and then the main table's closest that are not listed yet
                \cup (LET sb == ev.served_both
                          rest == SelectSeq(ev.ans, LAMBDA x : \A j \in 1..Len(ev.signed_closest) : ev.signed_closest[j] # x)
                          want == SubSeq(ev.signed_closest \o rest, 1, IF Len(ev.signed_closest) + Len(rest) < KK THEN Len(ev.signed_closest) + Len(rest) ELSE KK)
                      IN (IF Len(sb) <= KK /\ Cardinality({sb[i] : i \in 1..Len(sb)}) = Len(sb) THEN {} ELSE {"C11_ResponseNodesDistinct"})
                         \cup (IF {sb[i] : i \in 1..Len(sb)} \subseteq {ev.ans[i] : i \in 1..Len(ev.ans)} \cup {ev.signed_closest[i] : i \in 1..Len(ev.signed_closest)} THEN {} ELSE {"C11_Members"})
                         \cup (IF Len(ev.ans) < KK /\ sb # want THEN {"C11_ResponsesCarryClosest"} ELSE {}))
      model == CodeClosest(s, t)
      conforms == [i \in 1..Len(model) |-> model[i].id] = [i \in 1..Len(ans) |-> ans[i].id]
  IN /\ IF failed # {} THEN Report(failed, [op |-> "closest", explained |-> OmissionExplained(s, ans, t), conforms_to_model |-> conforms])
        ELSE IF ~conforms THEN PrintT(<<"DRIFT", ToJson([line |-> l, b |-> beh, op |-> "closest"])>>) ELSE TRUE
     /\ UNCHANGED <<s, mode, heard>>

\* ClosestNodes accumulator: adds in the given order, observed order afterwards, take_until_secure result
Acc(ev) ==
  LET t == ev.t
      order == [i \in 1..Len(ev.order) |-> Ent(ev.order[i], 0)]
      model == CAddAll(<<>>, [i \in 1..Len(ev.adds) |-> Ent(ev.adds[i], 0)], t)
      take == [i \in 1..Len(ev.take) |-> Ent(ev.take[i], 0)]
      failed == (IF IsSortedBy(order, t) THEN {} ELSE {"C11_AccSorted"})
                \cup (IF C11_TakeIsPrefix(order, take) THEN {} ELSE {"C11_TakeIsPrefix"})
                \cup (IF \A i \in 1..Len(order) : ev.order[i] \in {ev.adds[j] : j \in 1..Len(ev.adds)} THEN {} ELSE {"C11_AccMembers"})
      conforms == [i \in 1..Len(model) |-> model[i].id] = [i \in 1..Len(order) |-> order[i].id]
  IN /\ IF failed # {} THEN Report(failed, [op |-> "acc"])
        ELSE IF ~conforms THEN PrintT(<<"DRIFT", ToJson([line |-> l, b |-> beh, op |-> "acc"])>>) ELSE TRUE
     /\ UNCHANGED <<s, mode, heard>>

Op == /\ Rec[l].e = "op" /\ mode = "ok"
      /\ LET ev == Rec[l] IN
         CASE ev.op \in {"add", "remove", "reset_id", "advance"} -> Mutating(ev)
           [] ev.op = "closest" -> Closest(ev)
           [] ev.op = "acc" -> Acc(ev)
           \* the library panicked inside one of the operations above (a panic is data)
           [] ev.op = "panic" -> Report({"C11_NoPanic", "C12_NoPanic"}, [op |-> "panic"]) /\ mode' = "skip" /\ UNCHANGED <<s, heard>>
      /\ l' = l + 1 /\ UNCHANGED <<U, beh>>

TraceNext == l <= Len(Rec) /\ (Reset \/ Skip \/ Op)
TraceSpec == TraceInit /\ [][TraceNext]_vars
TraceAccepted == IF TLCGet("stats").diameter - 1 = Len(Rec) THEN TRUE
                 ELSE PrintT(<<"REJECTED", TLCGet("stats").diameter, Len(Rec)>>) /\ FALSE
=============================================================================
