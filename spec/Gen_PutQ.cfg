SPECIFICATION Spec
CONSTANTS
  WideCounters = TRUE
  EarlyMajority = TRUE
  MaxN = 4
  Codes = {0, 203, 205, 301, 302}
INVARIANT Emit
CHECK_DEADLOCK FALSE
