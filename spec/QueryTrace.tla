------------------------------ MODULE QueryTrace ------------------------------
(* C06 and the leak half of C20 on the real node: one line per scenario run.                         *)
(*  ExactlyOne: every call issued got exactly one outcome (a put result / the end of its stream /     *)
(*              its node list) - none twice, none missing;                                           *)
(*  Bounded:    a call completes within (contacted + 2) * (Tmax + cadence), Tmax the largest request  *)
(*              timeout the node reported during the run, contacted the number of distinct addresses  *)
(*              it sent requests to while the call was pending;                                       *)
(*  NoLeak:     after the quiet period the node holds no lookup, put, waiting caller or unexpired     *)
(*              in-flight request.                                                                    *)
EXTENDS Integers, Sequences, FiniteSets, TLC, Json, IOUtils, TLCExt
VARIABLE l
Rec == ndJsonDeserialize(IOEnv.TRACE)
CallFailed(e, c) ==
     (IF ~c.started \/ ~c.done THEN {"C06_Terminates"} ELSE {})
  \cup (IF c.outcomes > 1 THEN {"C06_ExactlyOne"} ELSE {})
  \* a put / find_node / get_closest_nodes caller whose reply channel was dropped without an answer has NO outcome: the public
  \* API panics in the caller's thread ("Query was dropped before sending a response")
  \cup (IF c.result = "Dropped" THEN {"C06_CallAnswered"} ELSE {})
  \cup (IF c.done /\ c.dur_ms > (c.contacted + 2) * (e.tmax_ms + e.cadence_ms) THEN {"C06_Bounded"} ELSE {})
\* C20: the statistics of each routing table equal the aggregate over the currently cached lookups:
\* find_node lookups feed the DHT-size estimate only; get lookups feed all statistics of the table they used
CacheFailed(e) ==
     (IF e.panicked THEN {"C20_NoUnderflow"} ELSE {})
  \cup (IF e.cache_len <= 1000 /\ e.cache_len = e.n_findnode + e.n_get + e.n_signed THEN {} ELSE {"C20_CacheCap"})
  \cup (IF e.main.dse_count = e.n_findnode + e.n_get /\ e.main.dse_sum_ok THEN {} ELSE {"C20_StatsMirror_DhtSize"})
  \cup (IF e.main.resp_count = e.n_get /\ e.main.resp_sum_ok /\ e.main.subnets_sum = e.subnets_get THEN {} ELSE {"C20_StatsMirror_Responders"})
  \cup (IF e.signed.dse_count = e.n_signed /\ e.signed.resp_count = e.n_signed /\ e.signed.dse_sum_ok /\ e.signed.resp_sum_ok
           /\ e.signed.subnets_sum = e.subnets_signed THEN {} ELSE {"C20_StatsMirror_Signed"})
  \cup (IF e.main.dse_count >= 0 /\ e.main.resp_count >= 0 /\ e.signed.dse_count >= 0 /\ e.signed.resp_count >= 0 THEN {} ELSE {"C20_NoUnderflow"})
\* an application holds the iterator of a lookup without reading it and makes another call: the call returns, the node lives, and
\* the iterator then yields the values the storing peers sent (C06: every call gets its outcome; no call can starve another)
UnreadFailed(e) ==
     (IF e.returned /\ e.closest > 0 THEN {} ELSE {"C06_Terminates"})
  \cup (IF e.node_hung \/ e.panicked THEN {"C06_NodeAlive"} ELSE {})
  \cup (IF e.returned /\ e.items < 1 THEN {"C06_StreamComplete"} ELSE {})
\* a dozen lookups that nobody answers: no reply was slow, so the request timeout has not grown, and a lookup among the same
\* peers, answering again, takes no longer than before (+ one tick)
BurstsFailed(e) ==
     (IF e.tmax_ms > 500 THEN {"C06_TimeoutOnlyGrowsWithSlowReplies"} ELSE {})
  \cup (IF e.probe_after_ms > e.probe_before_ms + 250 THEN {"C06_SilentPeersDoNotSlowLaterCalls"} ELSE {})
  \cup (IF e.panicked THEN {"C06_NodeAlive"} ELSE {})
Failed(e) == IF e.e = "cache" THEN CacheFailed(e) ELSE IF e.e = "unread" THEN UnreadFailed(e) ELSE IF e.e = "bursts" THEN BurstsFailed(e) ELSE
     UNION {CallFailed(e, e.calls[i]) : i \in 1..Len(e.calls)}
  \cup (IF e.panicked \/ e.hung THEN {"C06_NodeAlive"} ELSE {})
  \* the request timeout (start 500 ms) adapts to observed round trips: without any reply slower than 500 ms it must not grow
  \cup (IF e.slow_replies = 0 /\ e.tmax_ms > 500 THEN {"C06_TimeoutOnlyGrowsWithSlowReplies"} ELSE {})
  \* the node died of an arithmetic overflow (the statistics counters are the node's only unchecked-looking arithmetic)
  \cup (IF e.arith_panic THEN {"C20_NoUnderflow"} ELSE {})
  \cup (IF e.leak THEN {"C20_NoLeak"} ELSE {})
  \cup (IF e.inflight_live_at_quiescence > 0 THEN {"C20_NoLiveInflight"} ELSE {})
Init == l = 1
Next == /\ l <= Len(Rec)
        /\ LET e == Rec[l] f == Failed(e) IN
           IF f # {} THEN PrintT(<<"VIOL", ToJson([line |-> l, b |-> e.b, failed |-> f, plan |-> IF e.e = "cache" THEN <<>> ELSE e.plan])>>) ELSE TRUE
        /\ l' = l + 1
Spec == Init /\ [][Next]_l
TraceAccepted == IF TLCGet("stats").diameter - 1 = Len(Rec) THEN TRUE
                 ELSE PrintT(<<"REJECTED", TLCGet("stats").diameter, Len(Rec)>>) /\ FALSE
=============================================================================
