SPECIFICATION Spec
CONSTANTS
  Peers = {p, q}
  MaxT = 40
  Reachable = TRUE
  RefreshLastSeen = TRUE
  PingRefresh = TRUE
  CompareThenAssign = TRUE
INVARIANT KeepsResponsive
INVARIANT DropsDead
INVARIANT Adaptive
INVARIANT NatStaysClient
CHECK_DEADLOCK FALSE
