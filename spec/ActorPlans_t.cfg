SPECIFICATION Spec
CONSTANTS
  MaxIdx = 11
  Triples = TRUE
INVARIANT Emit
CHECK_DEADLOCK FALSE
