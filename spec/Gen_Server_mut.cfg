SPECIFICATION GSpec
CONSTANTS
  Rotate = 300000
  TsTolerance = 45000
  MaxV = 1000
  MaxSalt = 64
  CheckKeyTarget = TRUE
  Part = "mut"
  MaxSeq = 2
  MaxEpoch = 0
  Filter = "allow"
  MaxLen = 12
  CapSmall = 2
INVARIANT Emit
VIEW GView
CHECK_DEADLOCK FALSE
