-------------------------------- MODULE Query --------------------------------
(* One client node: actor.rs run/tick, core.rs, iterative_query.rs, put_query.rs and the in-flight   *)
(* table of socket.rs, for one target; peers are the environment (answer / lose / age).  The tick is *)
(* a chain of state functions in the order of Actor::tick.  L1: C06 (every call gets exactly one     *)
(* outcome, no hang) and the leak half of C20.                                                       *)
EXTENDS Integers, Sequences, FiniteSets, TLC
CONSTANTS Peers, K, Calls, OpOf, Dist, Knows, Boot,
          FixTokenFilter,   \* cached nodes are usable for a put only if they carry tokens (deviation #4a repaired)
          FixEmptyStart     \* a put that could not address any node fails instead of waiting forever (#4b repaired)
VARIABLE s
MaxAge == 2
TimeoutIn == [dir |-> "timeout", tid |-> -1, peer |-> "none", kind |-> "none"]

Closest(S) == {x \in S : Cardinality({y \in S : Dist[y] < Dist[x]}) < K}
Live(st, tids) == \E i \in st.infl : i.tid \in tids /\ i.age < MaxAge

\* ctok: the candidates that carry a token - a lookup is seeded with the cached nodes of an earlier one, tokens and all; a
\* candidate learned from the routing table or from an answer has none (ClosestNodes::add keeps the first node of an id)
NoQ == [on |-> FALSE, kind |-> "fn", cand |-> {}, vis |-> {}, tids |-> {}, resp |-> {}, ctok |-> {}]
NoP == [on |-> FALSE, started |-> FALSE, tids |-> {}, acks |-> 0, errs |-> 0]
NoC == [on |-> FALSE, kind |-> "fn", nodes |-> {}, tok |-> {}]     \* tok: the cached nodes that carry a token

\* rt: the peers in the node's routing table (the bootstrap-time content, plus every peer whose answer was accepted
\* without yielding a value: core/handle_response.rs adds the responder at the end, value answers return before that)
Init == s = [tid |-> 0, infl |-> {}, q |-> NoQ, p |-> NoP, cache |-> NoC,
             gs |-> {}, ps |-> {}, mbox |-> <<>>, called |-> {},
             done |-> [c \in Calls |-> "pending"], outcomes |-> [c \in Calls |-> 0], net |-> {}, rt |-> Boot, cap |-> 0]

RECURSIVE SendAll(_, _, _)
SendAll(st, D, kind) ==
  IF D = {} THEN [st |-> st, tids |-> {}]
  ELSE LET d == CHOOSE x \in D : \A y \in D : Dist[x] <= Dist[y]   \* closest first (visit_closest / PutQuery::start order)
           st1 == [st EXCEPT !.tid = st.tid + 1,
                             !.infl = st.infl \cup {[tid |-> st.tid, to |-> d, age |-> 0]},
                             \* Vec::push: a full vector doubles (first allocation: 4)
                             !.cap = IF Cardinality(st.infl) = st.cap THEN (IF st.cap = 0 THEN 4 ELSE 2 * st.cap) ELSE st.cap,
                             !.net = st.net \cup {[dir |-> "req", tid |-> st.tid, peer |-> d, kind |-> kind]}]
           r == SendAll(st1, D \ {d}, kind)
       IN [st |-> r.st, tids |-> r.tids \cup {st.tid}]

\* core.rs get_cached_closest_nodes
\* core.rs get_cached_closest_nodes: usable when some cached node carries a (fresh) token.  That is every responder of a
\* get-kind lookup, and of a find_node lookup the candidates it inherited from a usable cache entry (not already in the table)
CacheUsable(st) == st.cache.on /\ st.cache.nodes # {} /\ (FixTokenFilter => st.cache.tok # {})

\* Actor::get: piggy-back on the active query (whatever its kind) or create one
DoGet(st, kind) ==
  IF st.q.on THEN st
  ELSE LET cand == st.rt \cup (IF CacheUsable(st) THEN st.cache.nodes ELSE {})
           r == SendAll(st, Closest(cand), kind)
       IN [r.st EXCEPT !.q = [on |-> TRUE, kind |-> kind, cand |-> cand, vis |-> Closest(cand),
                              tids |-> r.tids, resp |-> {},
                              ctok |-> IF CacheUsable(st) THEN st.cache.tok \ st.rt ELSE {}]]

\* PutQuery::start: only token bearers are written to; -> [st, sent]
StartPut(st, nodes, tok) ==
  LET D == nodes \cap tok
      r == SendAll(st, D, "store")
  IN [st |-> [r.st EXCEPT !.p.tids = r.tids, !.p.started = (r.tids # {})], sent |-> r.tids # {}]

Finish(st, cs, out) == [st EXCEPT !.done = [c \in Calls |-> IF c \in cs THEN out ELSE st.done[c]],
                                  !.outcomes = [c \in Calls |-> IF c \in cs THEN st.outcomes[c] + 1 ELSE st.outcomes[c]]]

HandleApi(st) ==
  IF st.mbox = <<>> THEN st
  ELSE LET c == Head(st.mbox) op == OpOf[c]
           st0 == [st EXCEPT !.mbox = Tail(st.mbox)]
       IN IF op \in {"fn", "get"}
          THEN [DoGet(st0, op) EXCEPT !.gs = st0.gs \cup {c}]
          ELSE LET st1 == [st0 EXCEPT !.p = [NoP EXCEPT !.on = TRUE], !.ps = st0.ps \cup {c}]
               IN IF CacheUsable(st0)
                  THEN LET r == StartPut(st1, st0.cache.nodes, st0.cache.tok)
                       IN IF FixEmptyStart /\ ~r.sent
                          THEN Finish([st0 EXCEPT !.p = st0.p], {c}, "err")     \* Actor::put returns Err: caller answered at once
                          ELSE r.st
                  ELSE DoGet(st1, "get")

\* socket.rs InflightRequests::cleanup, run at the start of every recv_from: only when the vector is full are the expired
\* requests (a prefix: requests are sorted by send time) dropped; until then a late reply to an expired request is still accepted
Cleanup(st) == IF st.cap > 0 /\ Cardinality(st.infl) >= st.cap THEN [st EXCEPT !.infl = {i \in st.infl : i.age < MaxAge}] ELSE st

Tick(stIn, input) ==
  LET st0 == Cleanup(stIn)
      \* socket.rs is_expected_response: the request is still in the table and was sent to the sender's address; it is consumed
      \* (its age feeds the round-trip estimate), but only a reply to an UNEXPIRED request is handed to the core (C09: an expired
      \* transaction id has no effect).  Expired entries otherwise stay until Cleanup.
      hit == input.dir # "timeout" /\ \E i \in st0.infl : i.tid = input.tid /\ i.to = input.peer
      matched == input.dir # "timeout" /\ \E i \in st0.infl : i.tid = input.tid /\ i.to = input.peer /\ i.age < MaxAge
      st1 == IF hit THEN [st0 EXCEPT !.infl = {i \in st0.infl : i.tid # input.tid}] ELSE st0
      isResp == input.kind # "e"
      st2 == IF ~matched THEN st1
             ELSE IF st1.p.on /\ input.tid \in st1.p.tids
                  THEN IF input.kind = "ack" THEN [st1 EXCEPT !.p.acks = st1.p.acks + 1]
                       ELSE IF input.kind = "e" THEN [st1 EXCEPT !.p.errs = st1.p.errs + 1]
                       ELSE st1                                   \* any other answer to a write request is ignored
             ELSE IF st1.q.on /\ input.tid \in st1.q.tids
                  THEN [st1 EXCEPT !.q.cand = IF isResp THEN st1.q.cand \cup Knows[input.peer] ELSE st1.q.cand,
                                   !.q.resp = IF input.kind \in {"tok", "val"} THEN st1.q.resp \cup {input.peer} ELSE st1.q.resp,
                                   !.rt = IF input.kind \in {"nodes", "tok"} THEN st1.rt \cup {input.peer} ELSE st1.rt]
             ELSE IF isResp THEN [st1 EXCEPT !.rt = st1.rt \cup {input.peer}]   \* an accepted answer that belongs to no query
             ELSE st1
      putDone == st2.p.on /\ st2.p.started /\ ~Live(st2, st2.p.tids)
      putRes == IF st2.p.acks > 0 THEN "ok" ELSE "err"
      toVisit == IF st2.q.on THEN Closest(st2.q.cand) \ st2.q.vis ELSE {}
      r3 == SendAll(st2, toVisit, st2.q.kind)
      st3 == IF st2.q.on THEN [r3.st EXCEPT !.q.vis = st2.q.vis \cup toVisit, !.q.tids = st2.q.tids \cup r3.tids] ELSE st2
      qDone == st3.q.on /\ ~Live(st3, st3.q.tids)
      closest == IF st3.q.kind = "fn" THEN Closest(st3.q.cand) ELSE st3.q.resp
      ctok == IF st3.q.kind = "fn" THEN closest \cap st3.q.ctok ELSE closest
      r4 == IF qDone /\ st3.p.on /\ ~st3.p.started
            THEN IF closest = {} THEN [st |-> st3, sent |-> FALSE, fail |-> TRUE]
                 ELSE LET r == StartPut(st3, closest, ctok)
                      IN [st |-> r.st, sent |-> r.sent, fail |-> (FixEmptyStart /\ ~r.sent)]
            ELSE [st |-> st3, sent |-> FALSE, fail |-> FALSE]
      st4 == r4.st
      putEnd == putDone \/ r4.fail
      putOut == IF r4.fail THEN "err" ELSE putRes
      st5 == IF qDone THEN Finish([st4 EXCEPT !.q = NoQ,
                                              !.cache = IF st4.q.cand = {} THEN st4.cache
                                                        ELSE [on |-> TRUE, kind |-> st4.q.kind, nodes |-> closest, tok |-> ctok],
                                              !.gs = {}], st4.gs, "end")
             ELSE st4
      st6 == IF putEnd THEN Finish([st5 EXCEPT !.p = NoP, !.ps = {}], st5.ps, putOut) ELSE st5
  IN st6

LoopIter(input) == s' = Tick(HandleApi(s), input)
ApiCall(c) == /\ c \notin s.called
              /\ s' = [s EXCEPT !.mbox = Append(s.mbox, c), !.called = s.called \cup {c}]
Idle == LoopIter(TimeoutIn)
Deliver(m) == /\ m.dir = "resp"
              /\ s' = [Tick(HandleApi(s), m) EXCEPT !.net = @ \ {m}]
PeerAnswer(m) == /\ m.dir = "req"
                 /\ \E k \in (IF m.kind = "store" THEN {"ack", "e"} ELSE IF m.kind = "get" THEN {"tok", "val"} ELSE {"nodes"}) :
                      s' = [s EXCEPT !.net = (s.net \ {m}) \cup {[dir |-> "resp", tid |-> m.tid, peer |-> m.peer, kind |-> k]}]
Lose(m) == s' = [s EXCEPT !.net = s.net \ {m}]
Age == /\ \E i \in s.infl : i.age < MaxAge
       /\ s' = [s EXCEPT !.infl = {[i EXCEPT !.age = IF i.age < MaxAge THEN i.age + 1 ELSE i.age] : i \in s.infl}]
Next == \/ \E c \in Calls : ApiCall(c)
        \/ Idle
        \/ \E m \in s.net : Deliver(m) \/ PeerAnswer(m) \/ Lose(m)
        \/ Age
Spec == Init /\ [][Next]_s /\ WF_s(Idle) /\ WF_s(Age)

\* ------------------------------ L1 ------------------------------
Quiet(st) == st.net = {} /\ st.mbox = <<>> /\ \A i \in st.infl : i.age = MaxAge
\* C06: no quiescent state in which a call is pending and an idle tick changes nothing
C06_NotStuck == ~( Quiet(s) /\ (\E c \in s.called : s.done[c] = "pending") /\ Tick(HandleApi(s), TimeoutIn) = s )
\* C06: at most one outcome per call
C06_ExactlyOne == \A c \in Calls : s.outcomes[c] <= 1
\* C20: nothing left behind at quiescence once an idle tick has run
C20_NoLeak == (Quiet(s) /\ Tick(HandleApi(s), TimeoutIn) = s) => (~s.q.on /\ ~s.p.on /\ s.gs = {} /\ s.ps = {})
\* C07 (design level): between ticks every one of the K closest known candidates has been queried, and a lookup
\* only completes when none of its requests is live - so at completion the K closest known entries were all queried
C07_ClosureInv == s.q.on => Closest(s.q.cand) \subseteq s.q.vis
C07_NoRequeryInv == \A i, j \in s.infl : (i.tid # j.tid /\ i.tid \in s.q.tids /\ j.tid \in s.q.tids) => i.to # j.to
\* C06 liveness
C06_Terminates == \A c \in Calls : (c \in s.called) ~> (s.done[c] # "pending")
=============================================================================
