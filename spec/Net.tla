-------------------------------- MODULE Net --------------------------------
(* Prototype "Net-atomic": knowledge dynamics of whole networks with lookups as atomic
   closures (message interleavings are the business of the Query module).
   main = main routing table, sp = signed-peers table (core.rs, handle_request.rs,
   handle_response.rs, server.rs find_node/get responses).                          *)
EXTENDS Integers, FiniteSets, Bitwise, TLC
CONSTANTS N,        \* node ids (small naturals, also their DHT ids)
          First,    \* the bootstrap-less first node
          K, Target, WithRefresh
VARIABLE s  \* [up, joined, main, sp, store : functions on N ; ackers : SUBSET N ; putDone : BOOLEAN]

D(a) == a ^^ Target
ClosestK(S) == {x \in S : Cardinality({y \in S : D(y) < D(x)}) < K}
ClosestTo(S, t) == {x \in S : Cardinality({y \in S : (y ^^ t) < (x ^^ t)}) < K}

\* what node v answers to a request of the given kind about target t
Resp(st, v, kind, t) ==
  IF kind = "fn"
  THEN LET a == ClosestTo(st.sp[v], t) IN
       IF Cardinality(a) >= K THEN a
       ELSE a \cup {x \in ClosestTo(st.main[v], t) : Cardinality({y \in ClosestTo(st.main[v], t) : (y ^^ t) < (x ^^ t)}) < K - Cardinality(a)}
  ELSE ClosestTo(st.main[v], t)

RECURSIVE Explore(_, _, _, _, _, _)
Explore(st, cand, visited, kind, t, self) ==
  LET tv == ClosestTo(cand, t) \ visited IN
  IF tv = {} THEN [cand |-> cand, visited |-> visited]
  ELSE LET new == UNION {Resp(st, v, kind, t) : v \in {x \in tv : st.up[x]}} IN
       Explore(st, cand \cup (new \ {self}), visited \cup tv, kind, t, self)

Boot(n) == IF n = First THEN {} ELSE {First}
Seeds(st, n, kind) ==
  LET c == IF kind = "fn" THEN st.main[n] \cup st.sp[n] ELSE st.main[n] IN
  IF Cardinality(c) = 0 \/ Cardinality(c) < Cardinality(Boot(n)) THEN c \cup Boot(n) ELSE c

\* the set of live nodes a lookup by n queries (= responders)
Responders(st, n, kind, t) == {v \in Explore(st, Seeds(st, n, kind), {}, kind, t, n).visited : st.up[v]}

\* side effects of a lookup: responders enter n's main table; for find_node(self) from a server,
\* every queried live node records n in its signed table (and main table if it has no bootstrap list)
AfterLookup(st, n, kind, t) ==
  LET R == Responders(st, n, kind, t) IN
  [st EXCEPT !.main = [m \in N |-> IF m = n THEN st.main[n] \cup R
                                   ELSE IF kind = "fn" /\ t = n /\ m \in R /\ m = First THEN st.main[m] \cup {n}
                                   ELSE st.main[m]],
             !.sp = [m \in N |-> IF m = n THEN st.sp[n] \cup R
                                 ELSE IF kind = "fn" /\ t = n /\ m \in R THEN st.sp[m] \cup {n} ELSE st.sp[m]]]

Init == s = [up |-> [n \in N |-> FALSE], joined |-> [n \in N |-> FALSE],
             main |-> [n \in N |-> {}], sp |-> [n \in N |-> {}],
             store |-> [n \in N |-> FALSE], ackers |-> {}, putDone |-> FALSE]

Join(n) == /\ ~s.joined[n] /\ (n = First \/ (s.joined[First] /\ s.up[First]))
           /\ LET st == [s EXCEPT !.up[n] = TRUE, !.joined[n] = TRUE] IN
              s' = IF n = First THEN st ELSE AfterLookup(st, n, "fn", n)
Refresh(n) == /\ WithRefresh /\ s.up[n] /\ s' = AfterLookup(s, n, "fn", n)
Crash(n) == /\ s.up[n] /\ s' = [s EXCEPT !.up[n] = FALSE]
Put(w) == /\ s.up[w] /\ ~s.putDone
          /\ LET R == Responders(s, w, "get", Target) st == AfterLookup(s, w, "get", Target) IN
             /\ R # {}
             /\ s' = [st EXCEPT !.store = [m \in N |-> m \in R], !.ackers = R, !.putDone = TRUE]
Next == \E n \in N : Join(n) \/ Refresh(n) \/ Crash(n) \/ Put(n)
Spec == Init /\ [][Next]_s

\* ------------------------------ L1 ------------------------------
GetFinds(st, r) == \E v \in Responders(st, r, "get", Target) : st.store[v]
\* C01 as stated: an acker other than the reader is alive and the reader knows a live node
Found == \A r \in N : (s.putDone /\ s.up[r] /\ (\E a \in s.ackers \ {r} : s.up[a]) /\ (\E m \in s.main[r] : s.up[m]))
                        => GetFinds(s, r)
\* C13: knows-graph (main + signed tables) of live nodes strongly connected once everybody joined
Knows(st, a) == {b \in st.main[a] \cup st.sp[a] : st.up[b]}
RECURSIVE Reach(_, _, _)
Reach(st, S, n) == IF n = 0 THEN S ELSE Reach(st, S \cup UNION {Knows(st, x) : x \in S}, n - 1)
Connected == (\A n \in N : s.joined[n]) =>
             \A a, b \in {n \in N : s.up[n]} : b \in Reach(s, {a}, Cardinality(N))
=============================================================================
