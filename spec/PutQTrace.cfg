SPECIFICATION Spec
CONSTANTS
  WideCounters = TRUE
  EarlyMajority = TRUE
POSTCONDITION TraceAccepted
CHECK_DEADLOCK FALSE
