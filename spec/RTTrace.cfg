SPECIFICATION TraceSpec
CONSTANTS
  KK = 20
  StaleC = 900000
  RefreshKnownC = TRUE
  RekeySortedC = TRUE
POSTCONDITION TraceAccepted
CHECK_DEADLOCK FALSE
