SPECIFICATION TraceSpec
CONSTANTS
  KK = 20
  StaleC = 900000
  RefreshKnownC = TRUE
POSTCONDITION TraceAccepted
CHECK_DEADLOCK FALSE
