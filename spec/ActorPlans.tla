------------------------------ MODULE ActorPlans ------------------------------
(* Plans for the tick-level conformance of the real Actor against Actor.tla (ActorTickTrace.tla): one to three   *)
(* API calls out of a universe of mutable puts on target A that stand in every relation of the C17 table to each *)
(* other (identical, newer without cas, newer with matching cas, older, cas mismatch, older with matching cas),  *)
(* gets and find_node on A, immutable puts / gets / find_node on a second target B; every gap between calls      *)
(* (same instant, during the first round trips, after the lookup, later); who holds which item; how the storing  *)
(* peers answer the writes (acks, 301 / 302 from one / a majority / all, 203, silence); no fault or one fault on   *)
(* the i-th reply.  `long` plans run for 21 or 36 virtual minutes at a coarse tick cadence with peers that stop   *)
(* answering, so that ping rounds, stale eviction, refresh lookups and the adaptive switch are stepped too.      *)
EXTENDS Integers, Sequences, FiniteSets, TLC, Json
CONSTANTS MaxIdx, Triples
VARIABLE x
Firsts == {"putA1", "getA1", "fnA", "putB", "getB", "fnB"}
Pairs == {<<"putA1", c>> : c \in {"putA1b", "putA2", "putA2c", "putA0", "putA2x", "putA0c", "getA1", "fnA", "putB", "getB"}}
         \cup {<<"getA1", "putA1">>, <<"getA1", "getA2">>, <<"fnA", "putA1">>, <<"fnA", "getA1">>, <<"putB", "putB2">>,
               <<"putB", "getB">>, <<"getB", "putB">>, <<"fnB", "putB">>, <<"getA1", "getB">>, <<"getB", "getA1">>, <<"fnA", "fnB">>}
Trips == {<<"putA1", "putA2c", "getA1">>, <<"putA1", "getA1", "putA2c">>, <<"putA1", "putA1b", "getA2">>, <<"putA1", "putB", "getA1">>,
          <<"getA1", "putA1", "getA2">>, <<"putA1", "putA2c", "putA2x">>, <<"putB", "getB", "putB2">>, <<"putA1", "putA0c", "getA1">>,
          <<"putA1", "putA2", "putA2c">>, <<"fnA", "putA1", "getA1">>}
CallSeqs == {<<c>> : c \in Firsts} \cup Pairs \cup (IF Triples THEN Trips ELSE {})
Gaps == {0, 30, 400, 2500}
GapSeqs(n) == IF n = 1 THEN {<<>>} ELSE IF n = 2 THEN {<<g>> : g \in Gaps} ELSE {<<g, h>> : g \in Gaps, h \in Gaps}
\* who holds what: holdA = 0 nobody, 1: p1 holds item 1 (seq 1), 2: p2 holds item 2 (seq 2); holdB: p4 holds the immutable value
Holds == [a : {0, 1, 2}, b : BOOLEAN]
\* how the storing peers answer writes
Stores == {"ack", "e301_p1", "maj301", "all302", "all203", "drop_p1", "mixed", "ack1_301rest"}
NoFault == [kind |-> "none", i |-> 0]
\* late2: the i-th reply arrives 620 ms after its request and the next one 1250 ms after its own (both after expiry)
Faults == [kind : {"drop", "dup", "late", "late2", "err"}, i : 0..MaxIdx]
\* faults and write-answer patterns are not crossed
StoreFault == {<<st, NoFault>> : st \in Stores} \cup {<<"ack", f>> : f \in Faults}
ShortOf(q) == {[calls |-> q, gaps |-> g, hold |-> h, store |-> sf[1], fault |-> sf[2], long |-> 0] :
                 g \in GapSeqs(Len(q)), h \in Holds, sf \in StoreFault}
Short == UNION {ShortOf(q) : q \in CallSeqs}
\* a peer that never answers: the lookups of calls made together end by TIMEOUT, in the same tick (several lookups finish,
\* several puts start, several callers are released in one tick)
Together == {<<"putA1", "putB">>, <<"putB", "putA1">>, <<"getA1", "putB">>, <<"putA1", "getB">>, <<"putA1", "putB", "getA1">>,
             <<"putB", "putA1", "fnA">>, <<"fnA", "fnB">>, <<"putA1", "putA1b", "putB">>}
ShortSilent == {[calls |-> q, gaps |-> g, hold |-> [a |-> 0, b |-> FALSE], store |-> st, fault |-> NoFault, long |-> 0, silent |-> z] :
                  q \in Together, g \in {<<0>>, <<30>>, <<0, 0>>, <<0, 30>>, <<30, 0>>}, st \in {"ack", "e301_p1", "drop_p1"},
                  z \in {{"p1"}, {"p2"}, {"p3"}, {"p1", "p3"}}}
Valid(p) == Len(p.gaps) = Len(p.calls) - 1
\* long plans: silent = the peers that stop answering at the start; calls are made at minute 2 (gap = later calls)
Long == {[calls |-> q, gaps |-> g, hold |-> [a |-> 0, b |-> FALSE], store |-> "ack", fault |-> NoFault, long |-> m, silent |-> z] :
            q \in {<<"getA1">>, <<"putA1">>, <<"putB", "getB">>, <<"fnA">>}, g \in {<<>>, <<400>>}, m \in {21, 36},
            z \in {{}, {"p4"}, {"p1", "p2"}, {"p1", "p2", "p3", "p4"}}}
LValid(p) == Len(p.gaps) = Len(p.calls) - 1
\* a second call on the same target just before / well after the tokens of the cached lookup have gone stale (5 minutes):
\* republish of an item, put after a get, second immutable put
LongRepub == {[calls |-> q, gaps |-> g, hold |-> [a |-> 0, b |-> FALSE], store |-> "ack", fault |-> NoFault, long |-> 21, silent |-> {}] :
                q \in {<<"putA1", "putA1b">>, <<"getA1", "putA1">>, <<"putB", "putB2">>, <<"putA1", "getA1">>, <<"putA1", "putA2">>},
                g \in {<<280000>>, <<330000>>, <<700000>>}}
\* puts on both targets whose writes are answered DIFFERENTLY per target (A refused with 203 and B acknowledged, or the other
\* way round): a reply credited to the wrong put changes a result
ShortCross == {[calls |-> q, gaps |-> g, hold |-> [a |-> 0, b |-> FALSE], store |-> st, fault |-> NoFault, long |-> 0, silent |-> z] :
                 q \in {<<"putA1", "putB">>, <<"putB", "putA1">>, <<"putA1", "putB", "getA1">>, <<"putB", "putA1", "putB2">>, <<"putA1", "putA1b", "putB">>},
                 g \in {<<0>>, <<30>>, <<400>>, <<0, 0>>, <<0, 30>>, <<30, 0>>, <<400, 0>>},
                 st \in {"errA_ackB", "ackA_errB", "e301A_ackB"}, z \in {{}, {"p2"}}}
\* every peer also lists a node at port 0 (nothing can be sent there): a candidate that is "visited" and never answers, while
\* calls on both targets share the transaction-id counter
ShortGhost == {[calls |-> q, gaps |-> g, hold |-> [a |-> 0, b |-> FALSE], store |-> st, fault |-> NoFault, long |-> 0, silent |-> {}, ghost |-> TRUE] :
                 q \in Together \cup {<<"getA1">>, <<"putB">>, <<"getA1", "getB">>, <<"putA1", "putA2c">>},
                 g \in {<<>>, <<0>>, <<30>>, <<400>>, <<0, 0>>, <<0, 30>>, <<30, 0>>}, st \in {"ack", "errA_ackB"}}
\* a reader joins a lookup that has ALREADY heard from the holder (the four peers answer 30, 60, 90 and 120 ms after the call: the
\* reader arrives between two answers) - the lookup of its own put on the key, or of an earlier get
ShortJoin == {[calls |-> q, gaps |-> g, hold |-> [a |-> h, b |-> FALSE], store |-> "ack", fault |-> NoFault, long |-> 0, join |-> TRUE] :
                q \in {<<"putA1", "getA1">>, <<"putA2", "getA1">>, <<"getA1", "getA2">>, <<"putA1", "getA1", "getA2">>, <<"putA2x", "getA1">>},
                g \in {<<45>>, <<75>>, <<100>>, <<105>>, <<45, 60>>, <<100, 10>>}, h \in {1, 2}}
\* a caller that stops listening: the get's receiver is dropped right after the call (get_immutable has its value, an iterator is
\* not read to the end) while a put on the same key rides the same lookup, or another reader does
ShortAbandon == {[calls |-> q, gaps |-> g, hold |-> [a |-> h, b |-> FALSE], store |-> "ack", fault |-> NoFault, long |-> 0, abandon |-> {"getA1"}] :
                   q \in {<<"putA1", "getA1">>, <<"getA1", "putA1">>, <<"getA1", "getA2">>, <<"getA1", "putA1", "getA2">>, <<"putA2", "getA1">>},
                   g \in {<<0>>, <<30>>, <<45>>, <<75>>, <<0, 30>>, <<30, 45>>}, h \in {0, 1, 2}}
\* a WRITER that stops listening: the receiver of the first put is dropped right after the call (a put future that was cancelled or
\* timed out on the caller's side) - the put itself is still in flight, in its lookup (gaps 0 .. 100) or held in its store phase by a
\* peer that never answers the write (drop_p1, gap 400) - and a second put on the key arrives: every row of the conflict table
ShortAbandonPut == {[calls |-> q, gaps |-> g, hold |-> [a |-> h, b |-> FALSE], store |-> st, fault |-> NoFault, long |-> 0, abandon |-> {"putA1"}] :
                   q \in {<<"putA1", c>> : c \in {"putA1b", "putA2", "putA2c", "putA0", "putA2x", "putA0c", "getA1"}} \cup {<<"putA1", "putA2", "getA1">>},
                   g \in {<<0>>, <<30>>, <<100>>, <<400>>, <<30, 30>>, <<400, 30>>}, h \in {0, 1}, st \in {"ack", "drop_p1"}}
\* a slow link to the storing peers: every write is acknowledged 560 / 800 ms after it was sent - later than the initial request timeout
\* (500 ms), so the acknowledgements count only if the ADAPTIVE timeout has grown by then: it grows when a late reply to an earlier
\* request (the i-th reply of the plan, 900 ms late; or two in a row, 620 and 1250 ms) is read while the put is in flight
ShortSlowStore == {[calls |-> q, gaps |-> g, hold |-> [a |-> 0, b |-> FALSE], store |-> st, fault |-> f, long |-> 0, slow |-> TRUE] :
                   q \in {<<"putA1">>, <<"putB">>, <<"putA1", "getA1">>, <<"putB", "putA1">>, <<"putA1", "putA2c">>},
                   g \in {<<>>, <<30>>, <<400>>}, st \in {"slow560", "slow800"},
                   f \in {NoFault} \cup [kind : {"late", "late2"}, i : 0..MaxIdx]}
Init == x = 0
Next == UNCHANGED x
Spec == Init /\ [][Next]_x
Emit == PrintT(<<"GEN", ToJson({p \in Short : Valid(p)})>>) /\ PrintT(<<"GEN", ToJson({p \in Long : LValid(p)})>>)
        /\ PrintT(<<"GEN", ToJson({p \in ShortSilent : Valid(p)})>>)
        /\ PrintT(<<"GEN", ToJson({p \in ShortCross : Valid(p)})>>)
        /\ PrintT(<<"GEN", ToJson({p \in LongRepub : LValid(p)})>>)
        /\ PrintT(<<"GEN", ToJson({p \in ShortGhost : Valid(p)})>>)
        /\ PrintT(<<"GEN", ToJson({p \in ShortJoin : Valid(p)})>>)
        /\ PrintT(<<"GEN", ToJson({p \in ShortAbandon : Valid(p)})>>)
        /\ PrintT(<<"GEN", ToJson({p \in ShortAbandonPut : Valid(p)})>>)
        /\ PrintT(<<"GEN", ToJson({p \in ShortSlowStore : Valid(p)})>>)
=============================================================================
