SPECIFICATION Spec
CONSTANT B = 16
INVARIANT Laws
INVARIANT Vectors
CHECK_DEADLOCK FALSE
