------------------------------- MODULE Maint -------------------------------
(* Prototype: actor.rs periodic_node_maintaenance, core.rs ping round / address votes,
   handle_request.rs self-ping, handle_response.rs re-add of responders; time in minutes. *)
EXTENDS Integers, FiniteSets, FiniteSetsExt, TLC
CONSTANTS Peers, MaxT, Reachable,
          RefreshLastSeen,   \* FALSE = today's RoutingTable::add (no refresh of a known node)
          PingRefresh,       \* FALSE = today's handle_response (ping replies ignored)
          CompareThenAssign  \* FALSE = today's update_address_votes (assign, then compare)
VARIABLE s
Absent == -1
Init == s = [now |-> 0, seen |-> [p \in Peers |-> 0], up |-> [p \in Peers |-> TRUE],
             downSince |-> [p \in Peers |-> Absent], lastAns |-> [p \in Peers |-> 0],
             lastPing |-> 0, lastRefresh |-> 0, fw |-> TRUE, server |-> FALSE, pub |-> "none"]
InTable(st, p) == st.seen[p] # Absent
AddResp(st, p) == IF InTable(st, p) THEN (IF RefreshLastSeen THEN [st EXCEPT !.seen[p] = st.now] ELSE st)
                  ELSE [st EXCEPT !.seen[p] = st.now]
\* a find_node(self) lookup: every live peer answers, is (re-)added and votes for our address
Lookup(st) ==
  LET live == {p \in Peers : st.up[p]}
      st1 == FoldSet(LAMBDA p, a : [AddResp(a, p) EXCEPT !.lastAns[p] = a.now], st, live)
  IN IF live = {} THEN st1
     ELSE IF CompareThenAssign
          THEN IF st1.pub # "right" THEN [st1 EXCEPT !.pub = "right", !.fw = ~Reachable] ELSE st1   \* self-ping sent, arrives iff reachable
          ELSE [st1 EXCEPT !.pub = "right"]                                                          \* assigned first: never differs, no ping
PingOne(st, p) ==
  IF ~InTable(st, p) THEN st
  ELSE IF st.now - st.seen[p] > 15 THEN [st EXCEPT !.seen[p] = Absent]
  ELSE IF st.up[p] THEN [(IF PingRefresh THEN [st EXCEPT !.seen[p] = st.now] ELSE st) EXCEPT !.lastAns[p] = st.now]
  ELSE st
Tick(st0) ==
  LET st1 == IF \A p \in Peers : ~InTable(st0, p) THEN Lookup(st0) ELSE st0
      st2 == IF st1.now - st1.lastRefresh > 15
             THEN Lookup([st1 EXCEPT !.lastRefresh = st1.now, !.server = st1.server \/ ~st1.fw])
             ELSE st1
      st3 == IF st2.now - st2.lastPing > 5
             THEN FoldSet(LAMBDA p, a : PingOne(a, p), [st2 EXCEPT !.lastPing = st2.now], Peers)
             ELSE st2
  IN st3
Advance == /\ s.now < MaxT /\ s' = Tick([s EXCEPT !.now = s.now + 1])
Crash(p) == /\ s.up[p] /\ s' = [s EXCEPT !.up[p] = FALSE, !.downSince[p] = s.now]
Next == Advance \/ \E p \in Peers : Crash(p)
Spec == Init /\ [][Next]_s
\* ------------------------------ L1 ------------------------------
\* C14: a peer that answered within the last 15 minutes is in the table
KeepsResponsive == \A p \in Peers : (s.up[p] /\ s.now - s.lastAns[p] <= 15) => InTable(s, p)
\* C14: a peer silent for more than 20 (+1 tick) minutes is gone
DropsDead == \A p \in Peers : (~s.up[p] /\ s.now - s.downSince[p] > 21) => ~InTable(s, p)
\* C18: a reachable adaptive node is in server mode after the second refresh at the latest
Adaptive == (Reachable /\ s.now >= 33 /\ \E p \in Peers : s.up[p]) => s.server
NatStaysClient == ~Reachable => ~s.server
=============================================================================
