------------------------------ MODULE Adaptive ------------------------------
(* Adaptive mode (C18): how a node learns, confirms and loses its public address.                                   *)
(*   core.rs  cleanup_done_queries / update_address_votes_from_iterative_query : every finished lookup carries the  *)
(*            address most of its responders reported; if it differs from the recorded one it is recorded, the node *)
(*            is firewalled again and the address is to be pinged                                                    *)
(*   actor.rs tick : ONE ping per tick, to the address cleanup_done_queries returned                                *)
(*   handle_request.rs does_verify_our_new_public_address_with_self_ping : a ping FROM the recorded address clears   *)
(*            `firewalled`                                                                                           *)
(*   actor.rs periodic_node_maintaenance : at the 15-minute refresh a node that is not firewalled becomes a server   *)
(* Several lookups can finish in one tick (their last requests expire together); they are folded in an arbitrary    *)
(* order (HashMap).  KeepSome = FALSE is the code before fix ae20b83: the result of every finished lookup overwrote  *)
(* the address to ping, so only the LAST lookup of a tick counted - and only the FIRST sees the address as new.      *)
EXTENDS Integers, Sequences, FiniteSets, TLC
CONSTANTS Lookups,     \* lookup identifiers
          KeepSome,    \* TRUE: any lookup of the tick that saw a new address gets it pinged (fixed code)
          MaxVotes     \* bound on the number of times the environment changes the reported address
VARIABLES pub,         \* recorded public address: "none", "A" (the node's real, reachable address) or "B" (another one)
          fw,          \* firewalled flag
          server,      \* server mode
          vote,        \* the address the peers report at the moment
          active,      \* lookup -> the address its responders reported (fixed when the lookup starts)
          pings,       \* address -> number of self-pings in flight
          nvotes
vars == <<pub, fw, server, vote, active, pings, nvotes>>

Reachable(a) == a = "A"
Init == /\ pub = "none" /\ fw = TRUE /\ server = FALSE /\ vote = "A" /\ active = <<>> /\ pings = [a \in {"A", "B"} |-> 0] /\ nvotes = 0

\* fold of the lookups that finish in one tick; vs = the addresses they carry, in the order they are folded: [pub, fw, ping]
RECURSIVE Fold(_, _)
Fold(st, vs) ==
  IF vs = <<>> THEN st
  ELSE LET v == Head(vs)
           new == st.pub # v
           st1 == IF new THEN [st EXCEPT !.pub = v, !.fw = TRUE] ELSE st
           res == IF new THEN v ELSE "none"
           st2 == [st1 EXCEPT !.ping = IF KeepSome THEN (IF res # "none" THEN res ELSE st1.ping) ELSE res]
       IN Fold(st2, Tail(vs))

Perms(S) == {f \in [1..Cardinality(S) -> S] : \A i, j \in 1..Cardinality(S) : i # j => f[i] # f[j]}

\* the application (or the node itself: bootstrap, refresh) starts lookups; their responders report `vote`
Start(S) == /\ S # {} /\ S \cap DOMAIN active = {}
            /\ active' = [q \in DOMAIN active \cup S |-> IF q \in S THEN vote ELSE active[q]]
            /\ UNCHANGED <<pub, fw, server, vote, pings, nvotes>>
\* a tick in which the lookups S are found done, folded in some order
Finish(S) == /\ S # {} /\ S \subseteq DOMAIN active
             /\ \E ord \in Perms(S) :
                  LET r == Fold([pub |-> pub, fw |-> fw, ping |-> "none"], [i \in 1..Len(ord) |-> active[ord[i]]]) IN
                  /\ pub' = r.pub /\ fw' = r.fw
                  /\ pings' = IF r.ping # "none" THEN [pings EXCEPT ![r.ping] = @ + 1] ELSE pings
             /\ active' = [q \in DOMAIN active \ S |-> active[q]]
             /\ UNCHANGED <<server, vote, nvotes>>
\* the ping comes back (the address is the node's own and reachable) ...
PingBack(a) == /\ pings[a] > 0 /\ Reachable(a)
               /\ pings' = [pings EXCEPT ![a] = @ - 1]
               /\ fw' = IF pub = a THEN FALSE ELSE fw
               /\ UNCHANGED <<pub, server, vote, active, nvotes>>
\* ... or goes nowhere
PingLost(a) == /\ pings[a] > 0 /\ ~Reachable(a)
               /\ pings' = [pings EXCEPT ![a] = @ - 1]
               /\ UNCHANGED <<pub, fw, server, vote, active, nvotes>>
\* the 15-minute refresh
Refresh == /\ server' = (server \/ ~fw)
           /\ UNCHANGED <<pub, fw, vote, active, pings, nvotes>>
\* the environment: NAT rebinding, a move to another network, lying peers
Revote(a) == /\ a # vote /\ nvotes < MaxVotes
             /\ vote' = a /\ nvotes' = nvotes + 1
             /\ UNCHANGED <<pub, fw, server, active, pings>>

Next == \/ \E S \in SUBSET Lookups : Start(S) \/ Finish(S)
        \/ \E a \in {"A", "B"} : PingBack(a) \/ PingLost(a) \/ Revote(a)
        \/ Refresh
Spec == Init /\ [][Next]_vars

\* ------------------------------ L1 (C18) ------------------------------
TypeOK == /\ pub \in {"none", "A", "B"} /\ fw \in BOOLEAN /\ server \in BOOLEAN /\ vote \in {"A", "B"}
          /\ DOMAIN active \subseteq Lookups /\ pings \in [{"A", "B"} -> Nat]
\* the flag is only ever cleared for an address the node is reachable at
C18_ClearedOnlyIfReachable == ~fw => (pub # "none" /\ Reachable(pub))
\* "a node whose reported address is not reachable stays a client": a node that was never reachable never serves
\* (history-free form: a server was not firewalled at some refresh; with B recorded the flag is set - see above)
C18_RecordedUnreachableIsFirewalled == (pub # "none" /\ ~Reachable(pub)) => fw
\* "a reachable node confirms its address": it cannot settle - nothing in flight, the peers report the address it is
\* reachable at, that address is recorded - and still be firewalled
Quiet == DOMAIN active = {} /\ \A a \in {"A", "B"} : pings[a] = 0
C18_ConfirmsWhenReachable == ~(Quiet /\ vote = "A" /\ pub = "A" /\ fw)
\* every change of the recorded address is followed by a ping to it (action property)
C18_NewAddressIsPinged == [][pub' # pub => pings'[pub'] = pings[pub'] + 1]_vars
=============================================================================
