SPECIFICATION Spec
CONSTANTS
  p1 = p1
  p2 = p2
  p3 = p3
  c1 = c1
  c2 = c2
  c3 = c3
  Peers <- MCPeers
  K = 2
  Calls <- Calls2
  OpOf <- OpGetPut
  Dist <- MCDist
  Knows <- MCKnows
  Boot <- MCBoot
  FixTokenFilter = TRUE
  FixEmptyStart = TRUE
INVARIANT C07_ClosureInv
INVARIANT C07_NoRequeryInv
INVARIANT C06_NotStuck
INVARIANT C06_ExactlyOne
INVARIANT C20_NoLeak

CHECK_DEADLOCK FALSE
