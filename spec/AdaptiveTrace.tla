---------------------------- MODULE AdaptiveTrace ----------------------------
(* Conformance of the real Actor's address confirmation (C18) with Adaptive.tla.  The harness drives an adaptive node on *)
(* a public address through a TLC-enumerated plan (AdaptivePlans.tla): lookups started alone or together (a silent peer  *)
(* makes lookups started at one instant finish in ONE tick), the address its peers report switched between the node's   *)
(* own (A) and a foreign, unreachable one (B), pauses, refreshes.  One line per API call / environment change / tick in   *)
(* which something happened: lookups that appeared (the node's own included: bootstrap, refresh, re-population after the *)
(* node took its BEP42 id), lookups that ended, self-pings sent (by address), a self-ping arriving, a refresh, and the     *)
(* recorded address / firewalled / server flags afterwards.  The model takes the same step in the order of Actor::tick    *)
(* (refresh, new lookups, ping in, finished lookups folded in SOME order); L1 formulas are read off the observations.     *)
EXTENDS Integers, Sequences, FiniteSets, TLC, Json, IOUtils, TLCExt
VARIABLES pub, fw, server, vote, active, pings, nvotes, l, mode, beh
Rec == ndJsonDeserialize(IOEnv.TRACE)
AllIds == {"q" \o ToString(i) : i \in 1..400}
A == INSTANCE Adaptive WITH Lookups <- AllIds, KeepSome <- TRUE, MaxVotes <- 1000000
avars == <<pub, fw, server, vote, active, pings, nvotes>>
tvars == <<pub, fw, server, vote, active, pings, nvotes, l, mode, beh>>
SeqSet(q) == {q[i] : i \in 1..Len(q)}

TInit == A!Init /\ l = 1 /\ mode = "skip" /\ beh = -1

\* ------------------------------ L1, read off the observations ------------------------------
L1(e, prev) ==
     \* the flag is only cleared for the address the node is reachable at
     (IF ~e.fw /\ e.pub # "A" THEN {"C18_ClearedOnlyIfReachable"} ELSE {})
     \* a newly recorded address is pinged in the same tick
  \cup (IF e.pub # prev.pub /\ e.pub \in {"A", "B"} /\ e.pub \notin SeqSet(e.pinged) THEN {"C18_NewAddressIsPinged"} ELSE {})
     \* the node starts serving only at a refresh that finds it confirmed
  \cup (IF e.server /\ ~prev.server /\ prev.fw THEN {"C18_ServerOnlyWhenConfirmed"} ELSE {})
     \* at the end of a plan (everything settled): reported = recorded = reachable address  =>  confirmed
  \cup (IF e.last /\ e.vote = "A" /\ e.pub = "A" /\ e.active = 0 /\ e.fw THEN {"C18_ConfirmsWhenReachable"} ELSE {})
     \* ... and when nobody ever reported anything but the reachable address (however few of the responders report one at all), it
     \* IS recorded and confirmed by the end: the bootstrap lookup alone has finished with such reports
  \cup (IF e.last /\ e.active = 0 /\ (\A i \in 1..Len(e.plan) : e.plan[i] # "voteB") /\ (e.pub # "A" \/ e.fw)
        THEN {"C18_ConfirmsWhenReachable"} ELSE {})
     \* ... and a node that was told an unreachable address stays a firewalled client
  \cup (IF e.pub = "B" /\ ~e.fw THEN {"C18_UnreachableStaysFirewalled"} ELSE {})
  \cup (IF e.panicked THEN {"C18_NoPanic"} ELSE {})

Report(kind, e, failed) == PrintT(<<kind, ToJson([line |-> l, b |-> beh, failed |-> failed, e |-> e.e, plan |-> e.plan])>>)

Reset == /\ Rec[l].e = "reset"
         /\ pub' = "none" /\ fw' = TRUE /\ server' = FALSE /\ vote' = "A" /\ active' = <<>>
         /\ pings' = [a \in {"A", "B"} |-> 0] /\ nvotes' = 0
         /\ beh' = Rec[l].b /\ mode' = "ok" /\ l' = l + 1

\* the model's version of one line; Fold order: some permutation of the finished lookups
Prev == [pub |-> pub, fw |-> fw, server |-> server]
Step(e) ==
  LET \* refresh first (periodic_node_maintaenance), with the flag as it was
      server1 == IF e.refreshed THEN (server \/ ~fw) ELSE server
      vote1 == IF e.e = "env" THEN e.a ELSE vote
      started == SeqSet(e.started)
      active1 == [q \in DOMAIN active \cup started |-> IF q \in started /\ q \notin DOMAIN active THEN vote1 ELSE active[q]]
      \* a ping arrives from the node's own address
      back == e.selfin /\ pings["A"] > 0
      fw1 == IF back /\ pub = "A" THEN FALSE ELSE fw
      pings1 == IF back THEN [pings EXCEPT !["A"] = @ - 1] ELSE pings
      fin == SeqSet(e.finished) \cap DOMAIN active1
      Res(vs) == A!Fold([pub |-> pub, fw |-> fw1, ping |-> "none"], vs)
      Ok(r) == /\ r.pub = e.pub /\ r.fw = e.fw /\ server1 = e.server
               /\ (IF r.ping = "none" THEN <<>> ELSE <<r.ping>>) = e.pinged
               /\ (e.selfin => pings["A"] > 0)
      \* the order in which the finished lookups are folded is not observable; only the order of the ADDRESSES they carry
      \* matters: every arrangement of the right number of A's and B's
      n == Cardinality(fin)
      nA == Cardinality({q \in fin : active1[q] = "A"})
      cands == IF fin = {} THEN {<<>>}
               ELSE {f \in [1..n -> {"A", "B"}] : Cardinality({i \in 1..n : f[i] = "A"}) = nA}
      good == {ord \in cands : Ok(Res(ord))}
      ord == IF good # {} THEN CHOOSE o \in good : TRUE ELSE CHOOSE o \in cands : TRUE
      r == Res(ord)
  IN [ok |-> good # {}, pub |-> r.pub, fw |-> r.fw, server |-> server1, vote |-> vote1,
      active |-> [q \in DOMAIN active1 \ fin |-> active1[q]],
      pings |-> IF r.ping = "none" THEN pings1 ELSE [pings1 EXCEPT ![r.ping] = @ + 1]]

Line == /\ Rec[l].e \in {"api", "env", "tick"} /\ mode = "ok"
        /\ LET e == Rec[l] f == L1(e, Prev) m == Step(e) IN
           /\ IF f # {} THEN Report("VIOL", e, f) /\ mode' = "done"
              ELSE IF ~m.ok THEN Report("DRIFT", e, {}) /\ mode' = "skip"
              ELSE mode' = "ok"
           \* the model continues from what it computed when it conforms, otherwise from the observation
           /\ pub' = IF m.ok THEN m.pub ELSE e.pub
           /\ fw' = IF m.ok THEN m.fw ELSE e.fw
           /\ server' = IF m.ok THEN m.server ELSE e.server
           /\ vote' = m.vote /\ active' = m.active /\ pings' = m.pings /\ nvotes' = nvotes
        /\ l' = l + 1 /\ UNCHANGED beh
\* after a drift the formulas that need no model are still evaluated (against the previous observation)
Skip == /\ Rec[l].e \in {"api", "env", "tick"} /\ mode \in {"skip", "done"}
        /\ LET e == Rec[l] f == L1(e, Prev) IN
           /\ IF mode = "skip" /\ f # {} THEN Report("VIOL", e, f) /\ mode' = "done" ELSE mode' = mode
           /\ pub' = e.pub /\ fw' = e.fw /\ server' = e.server
        /\ l' = l + 1 /\ UNCHANGED <<vote, active, pings, nvotes, beh>>

TraceNext == l <= Len(Rec) /\ (Reset \/ Line \/ Skip)
TraceSpec == TInit /\ [][TraceNext]_tvars
TraceAccepted == IF TLCGet("stats").diameter - 1 = Len(Rec) THEN TRUE
                 ELSE PrintT(<<"REJECTED", TLCGet("stats").diameter, Len(Rec)>>) /\ FALSE
=============================================================================
