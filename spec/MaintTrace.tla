------------------------------ MODULE MaintTrace ------------------------------
(* C14 on real networks over virtual hours.  State: when each peer last answered a (lookup or ping)   *)
(* request of each node, when peers crashed / (re)started, when each node last started a refresh      *)
(* lookup.  At every 5-minute maintenance boundary the recorded routing tables (main + signed, mapped  *)
(* to node incarnations) are judged:                                                                  *)
(*  KeepsResponsive : a live peer that answered n within the last 15 minutes is in n's tables;         *)
(*  DropsDead       : a peer silent (crashed) for more than 20 min + one ping period + slack is gone;  *)
(*  Relearns        : a restarted peer is known under its new id within 20 min - by every live node in     *)
(*                    networks of up to 20 servers, by at least one other live node in larger ones;      *)
(*  RefreshEvery15  : every node with a bootstrap list starts a find_node(own id) lookup at least every  *)
(*                    15 min (+ slack); the bootstrap-less first node never does (populate is a no-op);  *)
(*  NeverStaysEmpty : no live node with a live bootstrap node has an empty main table.                 *)
EXTENDS Integers, Sequences, FiniteSets, TLC, Json, IOUtils, TLCExt
VARIABLES l, lastAns, down, started, lastRefresh, beh, first, exempt, nserv, prevT
Rec == ndJsonDeserialize(IOEnv.TRACE)
vars == <<l, lastAns, down, started, lastRefresh, beh, first, exempt, nserv, prevT>>
Min == 60000
TInit == l = 1 /\ lastAns = <<>> /\ down = <<>> /\ started = <<>> /\ lastRefresh = <<>> /\ beh = -1 /\ first = 0 /\ exempt = {} /\ nserv = 0 /\ prevT = <<>>
SeqSet(q) == {q[i] : i \in 1..Len(q)}
Get(f, k, d) == IF k \in DOMAIN f THEN f[k] ELSE d

Boundary(e) ==
  LET t == e.t
      alive == SeqSet(e.alive)
      tblOf == [n \in {e.tables[i][1] : i \in 1..Len(e.tables)} |-> CHOOSE x \in SeqSet(e.tables) : x[1] = n]
      TableOf(n) == IF n \in DOMAIN tblOf THEN SeqSet(tblOf[n][2]) ELSE {}
      MainSize(n) == IF n \in DOMAIN tblOf THEN tblOf[n][3] ELSE 0
      lr == [n \in DOMAIN lastRefresh \cup {e.refreshes[i][1] : i \in 1..Len(e.refreshes)} |->
               IF \E i \in 1..Len(e.refreshes) : e.refreshes[i][1] = n
               THEN (CHOOSE x \in SeqSet(e.refreshes) : x[1] = n)[2] ELSE lastRefresh[n]]
      \* e.answers: every pair <<n, p, age_s, exempt>> whose last answer (lookup or ping response of p to n) is at most 15 minutes old
      bad == {i \in 1..Len(e.answers) : LET a == e.answers[i] IN
                a[1] \in alive /\ a[2] \in alive /\ a[1] # a[2] /\ ~a[4] /\ a[2] \notin TableOf(a[1])}
      \* "is STILL in its routing table": a peer that was in one of n's two tables at the previous boundary and has answered n
      \* within the last 15 minutes is still in THAT table (a responsive entry is never stale, and only stale entries are
      \* replaced or removed) - unless n took a new id in between (every node is re-bucketed and a merged bucket can overflow)
      \* or one of the two was (re)started in between.  prevT: n -> [main, signed, id, t] of the previous boundary
      Answered(n, p) == \E i \in 1..Len(e.answers) : e.answers[i][1] = n /\ e.answers[i][2] = p
      Fresh(x, since) == Get(started, x, 0) < since
      dropped == {<<n, p, X>> \in (DOMAIN prevT \cap DOMAIN tblOf) \X alive \X {"main", "signed"} :
                    /\ n \in alive /\ n # p /\ prevT[n].id = tblOf[n][7] /\ Fresh(n, prevT[n].t) /\ Fresh(p, prevT[n].t)
                    /\ p \in (IF X = "main" THEN prevT[n].main ELSE prevT[n].signed)
                    /\ Answered(n, p)
                    /\ p \notin SeqSet(IF X = "main" THEN tblOf[n][5] ELSE tblOf[n][6])}
      keeps == bad = {} /\ dropped = {}
      drops == \A p \in DOMAIN down : \A n \in alive : (t - down[p] > 26 * Min) => p \notin TableOf(n)
      \* up to K servers every live node must know the restarted peer; in larger networks (full buckets, lookups that reach
      \* only the closest nodes) at least one other live node must
      relearn == \A p \in DOMAIN started : (p \in alive /\ t - started[p] > 20 * Min) =>
                   \* (every live node counts, the adaptive client too: after 15 minutes it is a server, it is listed in answers and
                   \* takes one of the 20 places of a lookup's candidate window)
                   IF nserv <= 20 /\ Cardinality(alive) <= 20 THEN \A n \in alive \ {p} : (Get(started, n, 0) < t - 20 * Min) => p \in TableOf(n)
                   \* (somebody must be there to know it: a node other than p that has itself been up for those 20 minutes)
                   ELSE ({n \in alive \ {p} : Get(started, n, 0) < t - 20 * Min} = {}) \/ \E n \in alive \ {p} : p \in TableOf(n)
      refresh == \A n \in alive \ {first} : (t - Get(started, n, 0) > 17 * Min) => (n \in DOMAIN lr /\ t - lr[n] <= 16 * Min)
      nonempty == \A n \in alive \ {first} : (first \in alive /\ t - Get(started, n, 0) > 1 * Min) => MainSize(n) > 0
      failed == (IF keeps THEN {} ELSE {"C14_KeepsResponsive"}) \cup (IF drops THEN {} ELSE {"C14_DropsDead"})
                \cup (IF relearn THEN {} ELSE {"C14_Relearns"}) \cup (IF refresh THEN {} ELSE {"C14_RefreshEvery15"})
                \cup (IF nonempty THEN {} ELSE {"C14_NeverStaysEmpty"}) \cup (IF e.panicked THEN {"C14_NoPanic"} ELSE {})
  IN /\ IF failed # {} THEN PrintT(<<"VIOL", ToJson([line |-> l, b |-> beh, failed |-> failed, t_min |-> t \div Min,
                                     missing |-> {e.answers[i] : i \in bad}, dropped |-> dropped])>>) ELSE TRUE
     /\ prevT' = [n \in DOMAIN tblOf |-> [main |-> SeqSet(tblOf[n][5]), signed |-> SeqSet(tblOf[n][6]), id |-> tblOf[n][7], t |-> t]]
     /\ lastRefresh' = lr /\ UNCHANGED <<lastAns, exempt, down, started, beh, first, nserv>>

Step ==
  LET e == Rec[l] IN
  CASE e.e = "reset" -> lastAns' = <<>> /\ down' = <<>> /\ started' = <<>> /\ lastRefresh' = <<>> /\ beh' = e.b /\ first' = e.first /\ exempt' = {} /\ nserv' = e.servers /\ prevT' = <<>>
    [] e.e = "crash" -> down' = (e.p :> e.t) @@ down /\ UNCHANGED <<lastAns, started, lastRefresh, beh, first, exempt, nserv, prevT>>
    [] e.e = "start" -> started' = (e.p :> e.t) @@ started /\ UNCHANGED <<lastAns, down, lastRefresh, beh, first, exempt, nserv, prevT>>
    [] e.e = "boundary" -> Boundary(e)
    \* one watched node among scripted peers: who is in which of its tables, who has answered it within the last 15 minutes
    [] e.e = "tablewatch" ->
         LET now == [main |-> SeqSet(e.main), signed |-> SeqSet(e.signed), id |-> e.id, t |-> e.t]
             dropped == IF 0 \in DOMAIN prevT /\ prevT[0].id = e.id
                        THEN {<<p, X>> \in SeqSet(e.answered) \X {"main", "signed"} :
                                 p \in (IF X = "main" THEN prevT[0].main ELSE prevT[0].signed)
                                 /\ p \notin (IF X = "main" THEN now.main ELSE now.signed)}
                        ELSE {}
             \* all peers of the scenario share one bucket and have addresses of their own: "capacity and IP limits permitting" = the
             \* bucket of that table has room.  A peer that answered within the last 15 minutes is in the main table, and - if it
             \* supports signed announcements - in the signed-peers table, wherever there is room for it
             absent == {<<p, "main">> : p \in {x \in SeqSet(e.answered) : x \notin now.main /\ Cardinality(now.main) < e.bucket_capacity}}
                       \cup {<<p, "signed">> : p \in {x \in SeqSet(e.answered) \cap SeqSet(e.capable) : x \notin now.signed /\ Cardinality(now.signed) < e.bucket_capacity}}
             \* a bootstrap node has been reachable for two minutes and the main table is empty
             failed == (IF dropped = {} /\ absent = {} THEN {} ELSE {"C14_KeepsResponsive"}) \cup (IF e.panicked THEN {"C14_NoPanic"} ELSE {})
                       \cup (IF e.boot_alive_ms > 2 * Min /\ now.main = {} THEN {"C14_NeverStaysEmpty"} ELSE {})
         IN /\ IF failed # {} THEN PrintT(<<"VIOL", ToJson([line |-> l, b |-> beh, failed |-> failed, t_min |-> e.t \div Min, missing |-> absent, dropped |-> dropped])>>) ELSE TRUE
            /\ prevT' = (0 :> now)
            /\ UNCHANGED <<lastAns, down, started, lastRefresh, beh, first, exempt, nserv>>
TNext == l <= Len(Rec) /\ Step /\ l' = l + 1
TSpec == TInit /\ [][TNext]_vars
TraceAccepted == IF TLCGet("stats").diameter - 1 = Len(Rec) THEN TRUE
                 ELSE PrintT(<<"REJECTED", TLCGet("stats").diameter, Len(Rec)>>) /\ FALSE
=============================================================================
