------------------------------- MODULE MC_Query -------------------------------
EXTENDS Query
CONSTANTS p1, p2, p3, c1, c2, c3
MCPeers == {p1, p2, p3}
MCDist == (p1 :> 1) @@ (p2 :> 2) @@ (p3 :> 3)
MCKnows == (p1 :> {p1, p2}) @@ (p2 :> {p1, p3}) @@ (p3 :> {p1, p2, p3})
MCBoot == {p3}
Calls2 == {c1, c2}
OpFnPut == (c1 :> "fn") @@ (c2 :> "put")
OpGetPut == (c1 :> "get") @@ (c2 :> "put")
OpPutPut == (c1 :> "put") @@ (c2 :> "put")
Calls3 == {c1, c2, c3}
Op3 == (c1 :> "fn") @@ (c2 :> "put") @@ (c3 :> "get")
=============================================================================
