-------------------------------- MODULE Actor --------------------------------
(* The whole client-side node: actor.rs (run arms, put, get, tick, periodic_node_maintaenance), core.rs      *)
(* (conflict rules, lookup cache, address votes, ping / stale rounds), iterative_query.rs, put_query.rs,     *)
(* handle_response.rs and the in-flight table of socket.rs - for SEVERAL targets at once (one of them the   *)
(* node's own id: the refresh lookup), mutable items with seq / cas, value streams to parked readers, error  *)
(* tallies per code, and the maintenance timers on a millisecond clock.  It generalises Query.tla (one       *)
(* target, no time) and PutQ.tla (one store phase) into one step function, in the order of Actor::tick:      *)
(*    maintenance -> read one datagram -> put checks -> visits -> lookup checks -> put starts -> cleanup.   *)
(* Peers are the environment.  Everything is a function of (state, input, now) so that the real Actor can   *)
(* be stepped alongside (ActorTickTrace.tla) and TLC can explore it exhaustively (MC_Actor.tla).            *)
EXTENDS Integers, Sequences, FiniteSets, TLC
CONSTANTS Peers, Targets, Self,     \* Self \in Targets: the node's own id as lookup target (populate / refresh)
          K, Calls, OpOf, TargetOf, ItemOf,   \* ItemOf[c] = [kind |-> "imm" | "mut", sig, seq, cas]  (cas = -1: none)
          Dist, Knows, Boot,        \* Dist[t][p]; Knows[p][t] = peers listed by p for target t; Boot = bootstrap peers
          Timeout,                  \* request timeout (ms) used by the design-level actions (traces bring their own expiry)
          Dev                       \* set of named deviations (negative controls of the invariants); {} = the code as it is
VARIABLE s

PQ == INSTANCE PutQ WITH WideCounters <- TRUE, EarlyMajority <- TRUE

Refresh == 900000   \* REFRESH_TABLE_INTERVAL
PingEvery == 300000 \* PING_TABLE_INTERVAL
Stale == 900000     \* STALE_TIME
PingBackoff == 10000
TokenValid == 300000

NoIn == [dir |-> "timeout", tid |-> -1, peer |-> "none", kind |-> "none", val |-> 0, code |-> 0]
NoItem == [kind |-> "none", sig |-> 0, seq |-> 0, cas |-> -1]

\* ctok: candidate -> time its token was issued, for the candidates that carry one (a lookup is seeded with the cached nodes of
\* an earlier one, tokens and all; ClosestNodes::add keeps the first node of an id, so a table member shadows its cached copy)
NoQ == [on |-> FALSE, kind |-> "fn", cand |-> {}, vis |-> {}, tids |-> {}, resp |-> {}, seen |-> <<>>, vals |-> <<>>, ctok |-> <<>>]
NoP == [on |-> FALSE, item |-> NoItem, tids |-> {}, acks |-> 0, errs |-> <<>>]
NoC == [on |-> FALSE, kind |-> "fn", nodes |-> {}, seen |-> <<>>]     \* seen: token-bearing cached node -> time of issue

Init0 == [tid |-> 0, infl |-> {}, cap |-> 0,
          q |-> [t \in Targets |-> NoQ], p |-> [t \in Targets |-> NoP], cache |-> [t \in Targets |-> NoC],
          gs |-> [t \in Targets |-> {}], ps |-> [t \in Targets |-> {}],
          got |-> [c \in Calls |-> <<>>], done |-> [c \in Calls |-> "pending"], outcomes |-> [c \in Calls |-> 0],
          called |-> {}, mbox |-> <<>>, net |-> {},
          rt |-> <<>>,                 \* function: peer -> last_seen (ms); DOMAIN = members of the main routing table
          lastRefresh |-> 0, lastPing |-> 0, server |-> FALSE, firewalled |-> TRUE,
          ghost |-> {}]                \* peers that every answer lists in addition (scenario switch: an unreachable node, port 0)

Dom(f) == DOMAIN f
Put1(f, k, v) == [x \in Dom(f) \cup {k} |-> IF x = k THEN v ELSE f[x]]
Drop(f, S) == [x \in Dom(f) \ S |-> f[x]]

Closest(t, S) == {x \in S : Cardinality({y \in S : Dist[t][y] < Dist[t][x]}) < K}
Expired(i, expired) == i.tid \in expired
Live(st, tids, expired) == \E i \in st.infl : i.tid \in tids /\ ~Expired(i, expired)

\* socket.request for every destination, closest to the target first (visit_closest / PutQuery::start order)
RECURSIVE SendAll(_, _, _, _, _)
SendAll(st, t, D, kind, now) ==
  IF D = {} THEN [st |-> st, tids |-> {}]
  ELSE LET d == CHOOSE x \in D : \A y \in D : Dist[t][x] <= Dist[t][y]
           st1 == [st EXCEPT !.tid = st.tid + 1,
                             !.infl = st.infl \cup {[tid |-> st.tid, to |-> d, at |-> now]},
                             !.cap = IF Cardinality(st.infl) = st.cap THEN (IF st.cap = 0 THEN 4 ELSE 2 * st.cap) ELSE st.cap,
                             !.net = st.net \cup {[dir |-> "req", tid |-> st.tid, peer |-> d, kind |-> kind, t |-> t]}]
           r == SendAll(st1, t, D \ {d}, kind, now)
       IN [st |-> r.st, tids |-> r.tids \cup {st.tid}]

\* core.rs get_cached_closest_nodes: a cached lookup is usable when one of its nodes carries a token not older than 5 min
\* (every responder of a get-kind lookup; of a find_node lookup the candidates inherited from a usable cache entry)
CacheUsable(st, t, now) ==
  st.cache[t].on /\ \E n \in DOMAIN st.cache[t].seen : now - st.cache[t].seen[n] <= TokenValid

\* Actor::get: ride the active lookup of the target (whatever its kind) or create one.
\* create_iterative_query: candidates = routing table + usable cache; the bootstrap addresses are visited as well
\* when there are fewer candidates than bootstrap addresses
DoGet(st, t, kind, now) ==
  IF st.q[t].on THEN st
  ELSE LET cand == Dom(st.rt) \cup (IF CacheUsable(st, t, now) THEN st.cache[t].nodes ELSE {})
           first == Closest(t, cand) \cup (IF Cardinality(cand) < Cardinality(Boot) THEN Boot ELSE {})
           r == SendAll(st, t, first, kind, now)
           inh == IF CacheUsable(st, t, now) THEN DOMAIN st.cache[t].seen \ DOMAIN st.rt ELSE {}
       IN [r.st EXCEPT !.q[t] = [NoQ EXCEPT !.on = TRUE, !.kind = kind, !.cand = cand, !.vis = first, !.tids = r.tids,
                                            !.ctok = [n \in inh |-> st.cache[t].seen[n]]]]

Populate(st, now) == IF Boot = {} THEN st ELSE DoGet(st, Self, "fn", now)

Finish(st, cs, out) == [st EXCEPT !.done = [c \in Calls |-> IF c \in cs THEN out ELSE st.done[c]],
                                  !.outcomes = [c \in Calls |-> IF c \in cs THEN st.outcomes[c] + 1 ELSE st.outcomes[c]]]

\* PutQuery::start on the given nodes (the caller passes the token bearers only)
StartPut(st, t, nodes, now) ==
  LET r == SendAll(st, t, nodes, "store", now)
  IN [st |-> [r.st EXCEPT !.p[t].tids = r.tids], sent |-> r.tids # {}]

\* one iteration of the run loop's message arm
HandleApi(st, now) ==
  IF st.mbox = <<>> THEN st
  ELSE LET c == Head(st.mbox) op == OpOf[c] t == TargetOf[c]
           st0 == [st EXCEPT !.mbox = Tail(st.mbox)]
       IN IF op \in {"fn", "get"}
          THEN \* Actor::get: the item of an outgoing mutable put first, then what the active lookup has seen so far
               LET own == IF op = "get" /\ st0.p[t].on /\ st0.p[t].item.kind = "mut" THEN <<st0.p[t].item.sig>> ELSE <<>>
                   sofar == IF op = "get" /\ st0.q[t].on THEN st0.q[t].vals ELSE <<>>
                   st1 == DoGet(st0, t, op, now)
               IN [st1 EXCEPT !.gs[t] = @ \cup {c}, !.got[c] = own \o sofar]
          ELSE \* Actor::put
               LET it == ItemOf[c]
                   cur == st0.p[t]
                   rule == IF it.kind = "mut" /\ cur.on /\ cur.item.kind = "mut" THEN PQ!LocalRule(cur.item, it) ELSE "go"
                   \* negative control "cas_before_seq": the cas branch (which removes the in-flight put) runs before the seq test
                   devRemove == "cas_before_seq" \in Dev /\ it.kind = "mut" /\ cur.on /\ cur.item.kind = "mut" /\ it.sig # cur.item.sig
                                /\ it.cas = cur.item.seq /\ it.seq < cur.item.seq
               IN IF rule # "go" THEN Finish(IF devRemove THEN [st0 EXCEPT !.p[t] = NoP] ELSE st0, {c}, rule)
                  ELSE LET fresh == [NoP EXCEPT !.on = TRUE, !.item = it]
                           stp == [st0 EXCEPT !.p[t] = fresh]
                       IN IF CacheUsable(st0, t, now)
                          THEN LET r == StartPut(stp, t, DOMAIN st0.cache[t].seen, now)
                               IN IF ~r.sent
                                  THEN \* Actor::put returns Err before inserting; a superseded put is already gone
                                       Finish([st0 EXCEPT !.p[t] = IF rule = "go" /\ cur.on /\ it.kind = "mut" /\ cur.item.kind = "mut"
                                                                                /\ it.sig # cur.item.sig THEN NoP ELSE cur], {c}, "NoClosestNodes")
                                  ELSE [r.st EXCEPT !.ps[t] = @ \cup {c}]
                          ELSE [DoGet(stp, t, "get", now) EXCEPT !.ps[t] = @ \cup {c}]

\* socket.rs InflightRequests::cleanup (start of every recv_from): only a full vector drops its expired prefix
Cleanup(st, expired) ==
  IF st.cap > 0 /\ Cardinality(st.infl) >= st.cap THEN [st EXCEPT !.infl = {i \in st.infl : ~Expired(i, expired)}] ELSE st

\* actor.rs periodic_node_maintaenance
Maintain(st, now) ==
  LET st1 == IF Dom(st.rt) = {} THEN Populate(st, now) ELSE st
      st2 == IF now - st1.lastRefresh > Refresh
             THEN Populate([st1 EXCEPT !.lastRefresh = now,
                                       !.server = st1.server \/ ~st1.firewalled], now)
             ELSE st1
  IN IF now - st2.lastPing > PingEvery
     THEN LET stale == {n \in Dom(st2.rt) : now - st2.rt[n] > Stale}
              ping == {n \in Dom(st2.rt) \ stale : now - st2.rt[n] > PingBackoff}
              st3 == [st2 EXCEPT !.lastPing = now, !.rt = Drop(st2.rt, stale)]
          IN SendAll(st3, Self, ping, "ping", now).st
     ELSE st2

\* PutQuery::check on the state after the datagram was handled: [end, out]
PutCheck(st, t, expired) ==
  LET p == st.p[t]
      top == IF p.errs = <<>> THEN 0 ELSE p.errs[1][2]
      cnt == IF p.errs = <<>> THEN 0 ELSE p.errs[1][1]
      mut == p.item.kind = "mut"
      errName == IF top \in {301, 302} THEN PQ!Name(p.item.kind, top) ELSE "Timeout"
  IN IF ~p.on \/ p.tids = {} THEN [end |-> FALSE, out |-> "none"]
     ELSE IF ~Live(st, p.tids, expired)
          THEN [end |-> TRUE, out |-> IF p.acks > 0 THEN "ok" ELSE errName]
          ELSE IF mut /\ top \in {301, 302} /\ cnt >= (Cardinality(p.tids) \div 2) + 1
               THEN [end |-> TRUE, out |-> errName]
               ELSE [end |-> FALSE, out |-> "none"]

\* visit_closest of every active lookup, then check_done / start_put_queries / cleanup, the targets in HashMap order `ord`
RECURSIVE VisitAll(_, _, _)
VisitAll(st, ord, now) ==
  IF ord = <<>> THEN st
  ELSE LET t == Head(ord)
       IN IF ~st.q[t].on THEN VisitAll(st, Tail(ord), now)
          ELSE LET toVisit == Closest(t, st.q[t].cand) \ st.q[t].vis
                   r == SendAll(st, t, toVisit, st.q[t].kind, now)
               IN VisitAll([r.st EXCEPT !.q[t].vis = @ \cup toVisit, !.q[t].tids = @ \cup r.tids], Tail(ord), now)

\* what a finished lookup hands to a waiting put / the cache: find_node -> closest candidates, otherwise the responders
Result(st, t) == IF st.q[t].kind = "fn" THEN Closest(t, st.q[t].cand) ELSE st.q[t].resp
\* ... and the token bearers among them, with the time of issue
ResultTok(st, t) == IF st.q[t].kind = "fn" THEN [n \in Result(st, t) \cap DOMAIN st.q[t].ctok |-> st.q[t].ctok[n]]
                    ELSE [n \in Result(st, t) |-> IF n \in DOMAIN st.q[t].seen THEN st.q[t].seen[n] ELSE 0]

\* start_put_queries for the finished lookups: [st, failed] (failed = targets whose put could not address any node)
RECURSIVE StartPuts(_, _, _, _)
StartPuts(st, doneQs, ord, now) ==
  IF ord = <<>> THEN [st |-> st, failed |-> {}]
  ELSE LET t == Head(ord)
       IN IF t \notin doneQs \/ ~st.p[t].on \/ st.p[t].tids # {} THEN StartPuts(st, doneQs, Tail(ord), now)
          ELSE LET nodes == DOMAIN ResultTok(st, t)    \* find_node results carry no tokens of their own
                   r == StartPut(st, t, nodes, now)
                   rest == StartPuts(r.st, doneQs, Tail(ord), now)
               IN [st |-> rest.st, failed |-> rest.failed \cup (IF r.sent THEN {} ELSE {t})]

RECURSIVE FinishAll(_, _, _)
FinishAll(st, ts, outOf) ==
  IF ts = {} THEN st
  ELSE LET t == CHOOSE x \in ts : TRUE
       IN FinishAll(Finish(st, outOf[t].cs, outOf[t].out), ts \ {t}, outOf)

Tick(stIn, input, now, expired, ord) ==
  LET stM == Maintain(stIn, now)
      st0 == Cleanup(stM, expired)
      \* socket.rs is_expected_response: tid known and sent to the sender's address -> consumed; only an unexpired one is handed on
      hit == input.dir = "resp" /\ \E i \in st0.infl : i.tid = input.tid /\ i.to = input.peer
      matched == hit /\ \E i \in st0.infl : i.tid = input.tid /\ ~Expired(i, expired)
      st1 == IF hit THEN [st0 EXCEPT !.infl = {i \in st0.infl : i.tid # input.tid}] ELSE st0
      isResp == input.kind # "e"
      pT == {t \in Targets : st1.p[t].on /\ input.tid \in st1.p[t].tids}
      qT == {t \in Targets : st1.q[t].on /\ input.tid \in st1.q[t].tids}
      addRt(st) == [st EXCEPT !.rt = Put1(st.rt, input.peer, now)]
      st2 == IF ~matched THEN st1
             ELSE IF pT # {}
                  THEN LET t == CHOOSE x \in pT : TRUE
                       IN IF input.kind = "ack" THEN [st1 EXCEPT !.p[t].acks = @ + 1]
                          ELSE IF input.kind = "e" THEN [st1 EXCEPT !.p[t].errs = PQ!AddErr(@, input.code)]
                          ELSE st1
             ELSE IF qT # {}
                  THEN LET t == CHOOSE x \in qT : TRUE
                           a == [st1 EXCEPT !.q[t].cand = IF isResp THEN @ \cup Knows[input.peer][t] \cup st1.ghost ELSE @,
                                            !.q[t].resp = IF input.kind \in {"tok", "val"} THEN @ \cup {input.peer} ELSE @,
                                            !.q[t].seen = IF input.kind \in {"tok", "val"} THEN Put1(@, input.peer, now) ELSE @,
                                            !.q[t].vals = IF input.kind = "val" THEN Append(@, input.val) ELSE @,
                                            \* a value answer is returned to the readers before the responder is added to the table
                                            !.got = IF input.kind = "val"
                                                    THEN [c \in Calls |-> IF c \in st1.gs[t] /\ OpOf[c] = "get" THEN Append(st1.got[c], input.val) ELSE st1.got[c]]
                                                    ELSE @]
                       IN IF input.kind \in {"nodes", "tok"} THEN addRt(a) ELSE a
             ELSE IF isResp THEN addRt(st1) ELSE st1
      \* check_done_put_queries (before the visits)
      pc == [t \in Targets |-> PutCheck(st2, t, expired)]
      st3 == VisitAll(st2, ord, now)
      doneQs == {t \in Targets : st3.q[t].on /\ ~Live(st3, st3.q[t].tids, expired)}
      r4 == StartPuts(st3, doneQs, ord, now)
      st4 == r4.st
      donePs == {t \in Targets : pc[t].end} \cup r4.failed
      \* cleanup_done_queries: cache the finished lookups (address votes: every peer of the scenarios reports the node's real
      \* address, which is already confirmed when a behaviour starts, so no self-ping is triggered)
      st5 == [st4 EXCEPT !.cache = [t \in Targets |-> IF t \in doneQs /\ st4.q[t].cand # {}
                                                       THEN [on |-> TRUE, kind |-> st4.q[t].kind, nodes |-> Result(st4, t),
                                                             seen |-> ResultTok(st4, t)]
                                                       ELSE st4.cache[t]]]
      st6 == [st5 EXCEPT !.q = [t \in Targets |-> IF t \in doneQs THEN NoQ ELSE st5.q[t]],
                         !.p = [t \in Targets |-> IF t \in donePs THEN NoP ELSE st5.p[t]],
                         !.gs = [t \in Targets |-> IF t \in doneQs THEN {} ELSE st5.gs[t]],
                         !.ps = [t \in Targets |-> IF t \in donePs THEN {} ELSE st5.ps[t]]]
      st7 == FinishAll(st6, doneQs, [t \in Targets |-> [cs |-> st5.gs[t], out |-> "end"]])
      st8 == FinishAll(st7, donePs, [t \in Targets |-> [cs |-> st5.ps[t], out |-> IF t \in r4.failed THEN "NoClosestNodes" ELSE pc[t].out]])
  IN st8

=============================================================================
