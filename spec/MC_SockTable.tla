---------------------------- MODULE MC_SockTable ----------------------------
(* SockTable explored exhaustively within small bounds: two addresses + a stranger, a fixed whole-millisecond timeout,   *)
(* at most MaxSend requests and MaxTime of virtual time.  hist: every request ever sent <<tid, to, at>>.  The C09         *)
(* formulas speak about one receive (table before, message, table after, handed or not): they are evaluated inside the    *)
(* step and the names of those that failed are kept in `bad` (so no history of the last step multiplies the states).     *)
(* ResetWhenEmptied = TRUE is the deviation "the id counter restarts when compaction empties the table" (it must violate *)
(* C09_TidsNotReused: a late reply to an old request would then match a new one).                                        *)
EXTENDS SockTable, TLC
CONSTANTS MaxSend, MaxTime, Timeout, ResetWhenEmptied
VARIABLES st, hist, bad
vars == <<st, hist, bad>>
T == [lo |-> Timeout, hi |-> Timeout]
Addr == {"a", "b"}
Tids(q) == {q[i].tid : i \in 1..Len(q)}
Init == st = Init0 /\ hist = {} /\ bad = {}
DoSend(to) == /\ Cardinality(hist) < MaxSend
              /\ LET m == Send(st, to) IN st' = m.st /\ hist' = hist \cup {<<m.tid, to, st.now>>} /\ UNCHANGED bad
\* one receive, judged: b = table before, a = table after
Judge(b, a, t, from, handed) ==
  LET mine == {x \in hist : x[1] = t /\ x[2] = from}
      live(r) == b.now - r.at < Timeout
  IN (IF handed /\ mine = {} THEN {"C09_OnlyAddressee"} ELSE {})
     \cup (IF handed /\ ~\E x \in mine : b.now - x[3] < Timeout THEN {"C09_ExpiredIgnored"} ELSE {})
     \cup (IF handed /\ t \in Tids(a.reqs) THEN {"C09_AtMostOnce"} ELSE {})
     \cup (IF \E i \in 1..Len(b.reqs) : live(b.reqs[i]) /\ ~(b.reqs[i].tid = t /\ b.reqs[i].to = from) /\ b.reqs[i].tid \notin Tids(a.reqs)
           THEN {"C09_SpoofIsStutter"} ELSE {})
     \cup (IF ~handed /\ \E i \in 1..Len(b.reqs) : live(b.reqs[i]) /\ b.reqs[i].tid = t /\ b.reqs[i].to = from THEN {"C09_GenuineStillAccepted"} ELSE {})
DoRecv(t, from, kind) == \E k \in Cuts(st, T) :
   LET m == Recv(st, t, from, T, k, kind)
       m2 == IF ResetWhenEmptied /\ m.st.reqs = <<>> /\ st.reqs # <<>> /\ Len(st.reqs) >= st.cap THEN [m.st EXCEPT !.next = 0] ELSE m.st
   IN st' = m2 /\ UNCHANGED hist /\ bad' = bad \cup Judge(st, m2, IF Answers(kind) THEN t ELSE -1, from, m.handed /\ kind # "req")
Tick == st.now < MaxTime /\ st' = Advance(st, 1) /\ UNCHANGED <<hist, bad>>
Next == (\E to \in Addr : DoSend(to)) \/ (\E t \in -1..MaxSend, from \in Addr \cup {"evil"} : DoRecv(t, from, "resp"))
        \/ (\E t \in 0..MaxSend, from \in Addr, kind \in {"req", "junk"} : DoRecv(t, from, kind)) \/ (\E t \in 0..MaxSend : DoRecv(t, "port0", "resp")) \/ Tick
Spec == Init /\ [][Next]_vars

\* structure the compaction relies on
SendingOrder == \A i, j \in 1..Len(st.reqs) : i < j => st.reqs[i].at <= st.reqs[j].at /\ st.reqs[i].tid # st.reqs[j].tid
WithinCapacity == Len(st.reqs) <= st.cap
\* C09: an id is not handed out twice (so a late reply can never be taken for the reply to a later request)
C09_TidsNotReused == \A x, y \in hist : x[1] = y[1] => x = y
C09_CounterAhead == \A x \in hist : x[1] < st.next
\* C09: OnlyAddressee, ExpiredIgnored, AtMostOnce, SpoofIsStutter (no message takes an unexpired request out of the table except the
\* one it answers), GenuineStillAccepted - see Judge
C09_ReceiveRules == bad = {}
=============================================================================
