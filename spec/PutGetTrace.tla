----------------------------- MODULE PutGetTrace -----------------------------
(* C01 on real networks.  Found: once a put returned Ok, a get started afterwards on another node     *)
(* returns the stored value whenever an acknowledging node other than the reader is still running,    *)
(* the reader knew a live node when it started and the network is in the deterministic regime         *)
(* (at most K servers).  Larger networks are judged by their success rate against a floor.            *)
EXTENDS Integers, Sequences, FiniteSets, TLC, Json, IOUtils, TLCExt
CONSTANT K
VARIABLE l
Rec == ndJsonDeserialize(IOEnv.TRACE)
Pre(e) == e.put_ok /\ e.live_ackers_other_than_reader > 0 /\ e.reader_knows_live /\ e.servers <= K
Failed(e) ==
  IF e.e = "rate" THEN (IF e.found * 100 >= e.floor_percent * e.trials THEN {} ELSE {"C01_SuccessRate"})
  ELSE (IF e.panicked THEN {"C01_NoPanic"} ELSE {})
       \cup (IF ~e.get_done THEN {"C01_GetCompletes"} ELSE {})
       \cup (IF Pre(e) /\ ~e.found THEN {"C01_Found"} ELSE {})
       \* a put with a live server in reach succeeds (otherwise the check would be vacuous)
       \cup (IF e.servers >= 2 /\ e.crashed = <<>> /\ ~e.put_ok THEN {"C01_PutSucceeds"} ELSE {})
Init == l = 1
Next == /\ l <= Len(Rec)
        /\ LET e == Rec[l] f == Failed(e) IN
           IF f # {} THEN PrintT(<<"VIOL", ToJson([line |-> l, b |-> e.b, failed |-> f,
                 concurrent |-> IF e.e = "rate" THEN "none" ELSE e.concurrent, kind |-> IF e.e = "rate" THEN "rate" ELSE e.kind])>>) ELSE TRUE
        /\ l' = l + 1
Spec == Init /\ [][Next]_l
TraceAccepted == IF TLCGet("stats").diameter - 1 = Len(Rec) THEN TRUE
                 ELSE PrintT(<<"REJECTED", TLCGet("stats").diameter, Len(Rec)>>) /\ FALSE
=============================================================================
