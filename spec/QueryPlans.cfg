SPECIFICATION Spec
CONSTANTS
  Pairs = FALSE
  MaxIdx = 11
INVARIANT Emit
CHECK_DEADLOCK FALSE
