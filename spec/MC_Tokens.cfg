SPECIFICATION Spec
CONSTANTS
  MaxT = 60
  Rotate = 10
  Gap = 3
INVARIANT ValidAtLeast5
INVARIANT ExpiresTight
CHECK_DEADLOCK FALSE
