SPECIFICATION Spec
CONSTANTS
  Kind = "immutable"
  Responders = {1, 2, 3}
INVARIANT C02_Authentic
INVARIANT Emit
CHECK_DEADLOCK FALSE
