--------------------------------- MODULE RT ---------------------------------
(* common/routing_table.rs, node.rs (already_exists, staleness) and closest_nodes.rs as a       *)
(* functional model over an abstract id type.  The id arithmetic is a parameter: MC_RT           *)
(* instantiates it with W-bit integers, RTTrace with real 20-byte ids (IdMath).                  *)
(*   s = [id, b, now]   b : sparse function  bucket distance -> sequence of entries               *)
(*   entry = [id, ip, port, sec, seen]   (sec = BEP42-valid for its ip, or exempt address)        *)
(* L1 formulas of C11 (closest / accumulator order / take-until-secure), C12 (structure,          *)
(* Sybil limits, stale-head replacement) and the table half of C14 (re-add refreshes last_seen). *)
EXTENDS Integers, Sequences, FiniteSets, TLC

CONSTANTS K,             \* bucket size / answer size (20)
          Stale,         \* staleness threshold (ms)
          RefreshKnown,  \* TRUE iff add() lets an already-known node through the IP check (deviation #8a)
          RekeySorted,   \* TRUE iff reset_id re-adds the nodes in least-recently-seen order (fix 19); FALSE = in iteration order
          DistOp(_, _),  \* bucket distance of two ids
          XorLt(_, _, _),\* XorLt(a, b, t): a strictly closer to t than b
          Pfx(_)         \* 21-bit prefix class of an id

Bucket(st, d) == IF d \in DOMAIN st.b THEN st.b[d] ELSE <<>>
SeqSet(q) == {q[i] : i \in 1..Len(q)}
All(st) == UNION {SeqSet(st.b[d]) : d \in DOMAIN st.b}
Size(st) == Cardinality(All(st))

\* iteration order of RoutingTable::nodes(): buckets by ascending distance, each in order
RECURSIVE FlatFrom(_, _)
FlatFrom(st, D) == IF D = {} THEN <<>>
                   ELSE LET d == CHOOSE x \in D : \A y \in D : x <= y
                        IN st.b[d] \o FlatFrom(st, D \ {d})
Flat(st) == FlatFrom(st, DOMAIN st.b)

\* node.rs already_exists
AlreadyExists(n, S) == \E e \in S : e.ip = n.ip /\ (~e.sec \/ Pfx(e.id) = Pfx(n.id))
IdxOf(q, id) == IF \E i \in 1..Len(q) : q[i].id = id THEN CHOOSE i \in 1..Len(q) : q[i].id = id ELSE 0
Without(q, i) == SubSeq(q, 1, i - 1) \o SubSeq(q, i + 1, Len(q))

\* KBucket::add -> [q, ret]
BucketAdd(q, e, now) ==
  LET i == IdxOf(q, e.id) IN
  IF i # 0 THEN IF e.sec \/ (~q[i].sec /\ q[i].ip = e.ip)
                THEN [q |-> Append(Without(q, i), e), ret |-> TRUE] ELSE [q |-> q, ret |-> FALSE]
  ELSE IF Len(q) < K THEN [q |-> Append(q, e), ret |-> TRUE]
  ELSE IF now - q[1].seen > Stale THEN [q |-> Append(Tail(q), e), ret |-> TRUE]
  ELSE [q |-> q, ret |-> FALSE]

SetBucket(st, d, q) == [st EXCEPT !.b = IF q = <<>> /\ d \notin DOMAIN st.b THEN st.b
                                        ELSE (d :> q) @@ st.b]

\* RoutingTable::add -> [st, ret]
Add(st, e) ==
  LET d == DistOp(st.id, e.id) IN
  IF d = 0 THEN [st |-> st, ret |-> FALSE]
  ELSE IF ~(RefreshKnown /\ \E x \in All(st) : x.id = e.id /\ x.ip = e.ip) /\ AlreadyExists(e, All(st))
       THEN [st |-> st, ret |-> FALSE]
  ELSE LET r == BucketAdd(Bucket(st, d), e, st.now) IN
       \* the code creates the bucket entry even when the add is refused
       [st |-> [st EXCEPT !.b = (d :> r.q) @@ st.b], ret |-> r.ret]

Remove(st, id) ==
  LET d == DistOp(st.id, id) IN
  IF d \in DOMAIN st.b THEN [st EXCEPT !.b[d] = SelectSeq(st.b[d], LAMBDA e : e.id # id)] ELSE st

RECURSIVE AddAll(_, _)
AddAll(st, q) == IF q = <<>> THEN st ELSE AddAll(Add(st, Head(q)).st, Tail(q))
\* reset_id: every node is re-bucketed around the new id.  Nodes of different old buckets can meet in one new bucket, and a
\* bucket evicts its FIRST entry: they are re-added oldest first (stable sort on last_seen), so every bucket stays in recency order
RECURSIVE InsSeen(_, _)
InsSeen(acc, e) == IF acc = <<>> THEN <<e>> ELSE IF e.seen < Head(acc).seen THEN <<e>> \o acc ELSE <<Head(acc)>> \o InsSeen(Tail(acc), e)
RECURSIVE SortBySeen(_)
SortBySeen(q) == IF q = <<>> THEN <<>> ELSE InsSeen(SortBySeen(SubSeq(q, 1, Len(q) - 1)), q[Len(q)])
ResetId(st, nid) == AddAll([id |-> nid, b |-> <<>>, now |-> st.now], IF RekeySorted THEN SortBySeen(Flat(st)) ELSE Flat(st))
Advance(st, ms) == [st EXCEPT !.now = st.now + ms]

(* ------------------------------ ClosestNodes --------------------------- *)
\* comparator of ClosestNodes::add: secure first, then xor distance to the target
Less(a, b, t) == IF a.sec # b.sec THEN a.sec ELSE XorLt(a.id, b.id, t)
RECURSIVE Insert(_, _, _)
Insert(acc, e, t) == IF acc = <<>> THEN <<e>>
                     ELSE IF Less(e, Head(acc), t) THEN <<e>> \o acc
                     ELSE <<Head(acc)>> \o Insert(Tail(acc), e, t)
\* ClosestNodes::add: IP rule first, then binary search (an entry with the same id and the same
\* security class compares Equal and is not inserted again)
CAdd(acc, e, t) == IF AlreadyExists(e, SeqSet(acc)) THEN acc
                   ELSE IF \E i \in 1..Len(acc) : acc[i].id = e.id /\ acc[i].sec = e.sec THEN acc
                   ELSE Insert(acc, e, t)
RECURSIVE CAddAll(_, _, _)
CAddAll(acc, q, t) == IF q = <<>> THEN acc ELSE CAddAll(CAdd(acc, Head(q), t), Tail(q), t)
Take(q, n) == SubSeq(q, 1, IF Len(q) < n THEN Len(q) ELSE n)
\* what RoutingTable::closest does today: every member pushed through ClosestNodes::add in iteration order
CodeClosest(st, t) == Take(CAddAll(<<>>, Flat(st), t), K)

IsSortedBy(q, t) == \A i \in 1..(Len(q) - 1) : ~Less(q[i + 1], q[i], t)
\* the closest min(n, |S|) members of S in the secure-first / xor order
ClosestSet(S, n, t) == {x \in S : Cardinality({y \in S : Less(y, x, t)}) < n}

(* ====================================================================== *)
(* L1                                                                      *)
(* ====================================================================== *)
\* --- C12 structural invariants of a table state
C12_NoSelf(st) == \A e \in All(st) : e.id # st.id
C12_UniqueIds(st) == \A d1, d2 \in DOMAIN st.b : \A i \in 1..Len(st.b[d1]), j \in 1..Len(st.b[d2]) :
                        (st.b[d1][i].id = st.b[d2][j].id) => (d1 = d2 /\ i = j)
C12_BucketMatchesDistance(st) == \A d \in DOMAIN st.b : \A i \in 1..Len(st.b[d]) : DistOp(st.id, st.b[d][i].id) = d
C12_BucketSize(st) == \A d \in DOMAIN st.b : Len(st.b[d]) <= K
C12_IpRule(st) == \A a, b \in All(st) : (a # b /\ a.ip = b.ip) =>
                     /\ (a.sec \/ b.sec)
                     /\ ((a.sec /\ b.sec) => Pfx(a.id) # Pfx(b.id))
\* --- C12 step property: what an add may evict (pre-state st, added entry e, post-state n2)
C12_EvictOnlyStaleHead(st, e, n2) ==
   \A x \in All(st) : (x.id # e.id /\ ~\E y \in All(n2) : y.id = x.id) =>
        \* the victim is THE least recently seen entry of its (full) bucket - read off the entries' last_seen, not off their
        \* position: an implementation whose bucket order has come apart from the recency order evicts the wrong entry
        LET d == DistOp(st.id, x.id) B == Bucket(st, d) IN
          /\ st.now - x.seen > Stale /\ Len(B) = K
          /\ \A i \in 1..Len(B) : B[i].seen >= x.seen
\* --- C14 (table half): re-adding a node that is in the table (same id, same address) refreshes last_seen
C14_RefreshOnReAdd(st, e, n2) ==
   (\E x \in All(st) : x.id = e.id /\ x.ip = e.ip /\ x.port = e.port) =>
        \E y \in All(n2) : y.id = e.id /\ y.seen = st.now
\* --- C11: the answer for target t (sequence of entries) against the members of the table
C11_Members(st, ans) == Len(ans) <= K /\ (\A i \in 1..Len(ans) : \E x \in All(st) : x.id = ans[i].id /\ x.ip = ans[i].ip)
                        /\ (\A i, j \in 1..Len(ans) : i # j => ans[i].id # ans[j].id)
C11_Sorted(ans, t) == IsSortedBy(ans, t)
C11_ClosestIsPrefix(st, ans, t) ==
   {a.id : a \in SeqSet(ans)} = {x.id : x \in ClosestSet(All(st), K, t)}
\* is an omission explained by the accumulator's IP rule (known finding: an entry sharing its IP with another member)
OmissionExplained(st, ans, t) ==
   \A m \in ClosestSet(All(st), K, t) : (m.id \notin {a.id : a \in SeqSet(ans)}) =>
        \E x \in All(st) : x.ip = m.ip /\ x.id # m.id
\* take_until_secure returns a prefix of the accumulator of length >= min(K, len)
C11_TakeIsPrefix(acc, res) == /\ Len(res) <= Len(acc) /\ res = SubSeq(acc, 1, Len(res))
                              /\ Len(res) >= (IF Len(acc) < K THEN Len(acc) ELSE K)
=============================================================================
