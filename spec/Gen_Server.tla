---------------------------- MODULE Gen_Server ----------------------------
(* Behaviour generator (spec -> implementation direction).  TLC explores the reachable state    *)
(* graph of the Server design (same alphabet as MC_Server) and, for every distinct state, prints  *)
(* the shortest request history that reaches it together with EVERY request enabled there, in    *)
(* the trace vocabulary.  The harness replays prefix + request for each of them on a real node,  *)
(* so every (state, request) pair - every transition - of the bounded design graph becomes one   *)
(* test of the implementation.  Tokens must really have been issued: a request may carry a self  *)
(* token [ip, ep] only if some earlier get from ip was handled in epoch ep (tokstep).            *)
EXTENDS MC_Server, Json
VARIABLES h,        \* history: sequence of trace-vocabulary requests
          tokstep   \* <<ip, ep>> -> index (0-based) in h of the get that yielded that token

gvars == <<st, h, tokstep>>
Port(p) == 1000 + p
TFrom(f) == [ip |-> f.ip, port |-> Port(f.port)]

HasTok(ts, t) == ~t.self \/ <<t.ip, t.ep>> \in DOMAIN ts
TTok(ts, t) == IF t.self /\ <<t.ip, t.ep>> \in DOMAIN ts THEN [kind |-> "issued", step |-> ts[<<t.ip, t.ep>>]]
               ELSE IF t.ip = "none" THEN [kind |-> "none", step |-> 0]
               ELSE [kind |-> "foreign", step |-> 0]
\* request in the trace vocabulary
TReq(ts, r) ==
  IF "tok" \in DOMAIN r THEN [[r EXCEPT !.tok = TTok(ts, r.tok)] EXCEPT !.from = TFrom(r.from)]
  ELSE IF "from" \in DOMAIN r THEN [r EXCEPT !.from = TFrom(r.from)] ELSE r
Usable(ts, r) == ("tok" \notin DOMAIN r) \/ HasTok(ts, r.tok)

GInit == Init /\ h = <<>> /\ tokstep = <<>>
GStep(r) == LET m == Step(st, r) IN
            /\ st' = m.st
            /\ h' = Append(h, TReq(tokstep, r))
            /\ tokstep' = IF m.reply.tok THEN (<<r.from.ip, m.st.cur>> :> Len(h)) @@ tokstep ELSE tokstep
GNext == /\ Len(h) < MaxLen
         /\ \/ \E r \in {x \in Requests(st) : Usable(tokstep, x)} : GStep(r)
            \/ st.now < MaxEpoch * (Rotate + 1) /\ GStep([kind |-> "advance", ms |-> Rotate + 1])
GSpec == GInit /\ [][GNext]_gvars

\* one distinct state = model state + which tokens exist (not their step numbers, not the history)
GView == <<st, DOMAIN tokstep>>

Emit == PrintT(<<"GEN", ToJson([filter |-> st.filter, caps |-> st.caps, prefix |-> h,
                                requests |-> {TReq(tokstep, r) : r \in {x \in Requests(st) : Usable(tokstep, x)}}])>>)
=============================================================================
