SPECIFICATION TSpec
CONSTANTS
  Patterns = {}
  FoldFixed = TRUE
POSTCONDITION TraceAccepted
CHECK_DEADLOCK FALSE
