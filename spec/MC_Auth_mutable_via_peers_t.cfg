SPECIFICATION Spec
CONSTANTS
  Kind = "mutable_via_peers"
  Responders = {1, 2, 3, 4}
INVARIANT C02_Authentic
INVARIANT Emit
CHECK_DEADLOCK FALSE
