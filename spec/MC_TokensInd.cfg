SPECIFICATION Spec
CONSTANTS
  MaxT = 60
  Rotate = 10
  Gap = 3
CONSTRAINT Bound
INVARIANT IndInv
INVARIANT Props
PROPERTY TokensSpec
CHECK_DEADLOCK FALSE
