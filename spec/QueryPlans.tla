------------------------------ MODULE QueryPlans ------------------------------
(* Fault plans for the replay of API-call scenarios on the real node (C06 / C20): each scenario's     *)
(* replies are indexed in the order the requests reach the peers; a plan applies a fault to one index  *)
(* (every single fault) or two (every pair, thorough configuration).                                  *)
EXTENDS Integers, Sequences, FiniteSets, TLC, Json
CONSTANTS Pairs, MaxIdx
VARIABLE x
Scenarios == {"get_hit", "get_miss", "put", "find_node", "fn_then_put", "fn_and_put", "put_and_get", "get_get",
              "get_put_diff", "dead_boot", "closest", "put_put_same", "peers", "get_then_put", "three",
              "putmut_getmut_seq", "putmut_getmut", "put_get_during_store", "putmut_twice_cached",
              "peers_announce", "peers_sannounce", "speers_announce", "speers_sannounce"}
Kinds == {"drop", "dup", "late", "slow", "crash"}
F == [i : 0..MaxIdx, kind : Kinds]
Plans == {[scenario |-> s, faults |-> <<>>] : s \in Scenarios}
         \cup {[scenario |-> s, faults |-> <<f>>] : s \in Scenarios, f \in F}
         \cup (IF Pairs THEN {[scenario |-> s, faults |-> <<f, g>>] : s \in Scenarios \ {"dead_boot"}, f \in F, g \in {h \in F : h.i > 2 /\ h.kind # "slow"}} ELSE {})
Init == x = 0
Next == UNCHANGED x
Spec == Init /\ [][Next]_x
Emit == PrintT(<<"GEN", ToJson({p \in Plans : Len(p.faults) < 2 \/ p.faults[1].i < p.faults[2].i})>>)
=============================================================================
