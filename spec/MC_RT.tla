-------------------------------- MODULE MC_RT --------------------------------
(* Exhaustive exploration of routing tables over W-bit ids, K = 2: the C12 invariants in every   *)
(* reachable state; the add step properties and C11 quantified over every node / target in every *)
(* reachable state.                                                                              *)
EXTENDS Integers, Sequences, FiniteSets, Bitwise, TLC
CONSTANTS W, P, MaxT, KK, StaleC, RefreshKnownC, RekeySortedC, ClosestKnownFinding
RECURSIVE BitLen(_)
BitLen(x) == IF x = 0 THEN 0 ELSE 1 + BitLen(x \div 2)
MDist(a, b) == BitLen(a ^^ b)
MXorLt(a, b, t) == (a ^^ t) < (b ^^ t)
MPfx(id) == id \div (2 ^ (W - P))
VARIABLE s
INSTANCE RT WITH K <- KK, Stale <- StaleC, RefreshKnown <- RefreshKnownC, RekeySorted <- RekeySortedC, DistOp <- MDist, XorLt <- MXorLt, Pfx <- MPfx

\* universe: ids with several per IP, secure / insecure, clashing prefixes
Nodes == {[id |-> 1, ip |-> "x", port |-> 1, sec |-> FALSE], [id |-> 9, ip |-> "x", port |-> 1, sec |-> TRUE],
          [id |-> 10, ip |-> "x", port |-> 1, sec |-> TRUE], [id |-> 13, ip |-> "y", port |-> 1, sec |-> FALSE],
          [id |-> 13, ip |-> "z", port |-> 1, sec |-> TRUE], [id |-> 12, ip |-> "p", port |-> 1, sec |-> TRUE],
          [id |-> 14, ip |-> "q", port |-> 1, sec |-> TRUE], [id |-> 14, ip |-> "q", port |-> 2, sec |-> TRUE],
          [id |-> 5, ip |-> "y", port |-> 2, sec |-> FALSE]}
TableIds == {0, 15}
Entry(n, t) == [id |-> n.id, ip |-> n.ip, port |-> n.port, sec |-> n.sec, seen |-> t]

Init == s \in {[id |-> i, b |-> <<>>, now |-> 0] : i \in TableIds}
Next == \/ \E n \in Nodes : s' = Add(s, Entry(n, s.now)).st
        \/ \E n \in Nodes : s' = Remove(s, n.id)
        \/ \E i \in TableIds : i # s.id /\ s' = ResetId(s, i)
        \/ s.now < MaxT /\ s' = Advance(s, StaleC + 1)
Spec == Init /\ [][Next]_s

Structure == C12_NoSelf(s) /\ C12_UniqueIds(s) /\ C12_BucketMatchesDistance(s) /\ C12_BucketSize(s) /\ C12_IpRule(s)
AddSteps == \A n \in Nodes : LET e == Entry(n, s.now) r == Add(s, e) IN
              /\ C12_EvictOnlyStaleHead(s, e, r.st)
              /\ (RefreshKnownC => C14_RefreshOnReAdd(s, e, r.st))
Targets == 0..(2 ^ W - 1)
ClosestL1 == \A t \in Targets : LET ans == CodeClosest(s, t) IN
               /\ C11_Members(s, ans) /\ C11_Sorted(ans, t)
               /\ (C11_ClosestIsPrefix(s, ans, t) \/ (ClosestKnownFinding /\ OmissionExplained(s, ans, t)))
\* the literal formula (expected to FAIL on the model of today's closest(): known finding KF-C11-1)
ClosestLiteral == \A t \in Targets : C11_ClosestIsPrefix(s, CodeClosest(s, t), t)
=============================================================================
