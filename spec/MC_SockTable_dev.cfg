SPECIFICATION Spec
CONSTANTS
  MaxSend = 5
  MaxTime = 4
  Timeout = 2
  ResetWhenEmptied = TRUE
INVARIANT C09_TidsNotReused
CHECK_DEADLOCK FALSE
