------------------------------- MODULE MC_Krpc -------------------------------
(* Generator and self-check of the message space: one state per buildable message.               *)
EXTENDS Krpc, Json
VARIABLE m
Init == m \in Messages
Next == UNCHANGED m
Spec == Init /\ [][Next]_m
\* sanity of the encoder over the whole space: BEP top-level keys, y/q consistency
WellFormed == LET d == Encode(m) IN
   /\ {"t", "y", "ro"} \subseteq DOMAIN d
   /\ d["y"] \in {"q", "r", "e"}
   /\ (d["y"] = "q") <=> ({"q", "a"} \subseteq DOMAIN d)
   /\ (d["y"] = "r") <=> ("r" \in DOMAIN d)
   /\ (d["y"] = "e") <=> ("e" \in DOMAIN d)
   /\ (d["y"] = "q") => "id" \in DOMAIN d["a"]
Emit == PrintT(<<"GEN", ToJson(m)>>)
=============================================================================
