---------------------------- MODULE MC_KrpcShapes ----------------------------
(* C05: the structured neighbourhood of valid KRPC messages as a state space.  A shape is a base   *)
(* message (one representative per kind, from Krpc!Messages) with one or two deviations applied    *)
(* to fields of its wire dictionary: dropped, type-confused (int <-> bytes <-> list <-> dict),      *)
(* length -1 / +1 / 0 / huge, numeric boundaries, malformed list elements.  TLC enumerates every    *)
(* (base, path, deviation) and - in the thorough configuration - every pair; the harness            *)
(* serialises each with its own encoder, feeds it to the library decoder and to live nodes.         *)
EXTENDS Krpc, Json
CONSTANT Pairs
VARIABLE sh

Bases == Rep(Requests0 \cup Responses0 \cup Errors0)
BaseMsgs == {Env0 @@ x : x \in Bases} \cup {[Env0 EXCEPT !.ip = "ip:a"] @@ x : x \in {y \in Bases : y.kind = "r_ping"}}
TopPaths(d) == {<<k>> : k \in DOMAIN d}
SubPaths(d, k) == IF k \in DOMAIN d THEN {<<k, j>> : j \in DOMAIN d[k]} ELSE {}
\* the elements of the error list [code, text] are paths of their own ("1", "2")
ListPaths(d) == IF "e" \in DOMAIN d THEN {<<"e", "1">>, <<"e", "2">>} ELSE {}
Paths(m) == LET d == Encode(m) IN TopPaths(d) \cup SubPaths(d, "a") \cup SubPaths(d, "r") \cup ListPaths(d)
\* fields the decoder reads as text: a multi-byte character straddling every byte offset (a length limit applied with a
\* byte index panics exactly there), long ASCII; the other fields get the same at a few boundary offsets
StrPaths == {<<"e", "2">>, <<"q">>, <<"y">>}
UDevs == Lab("utf8@", (1..300) \cup {511, 512, 513, 1000, 1023, 1024, 1025}) \cup Lab("utf8w@", 2..140)
         \cup Lab("ascii@", {64, 65, 127, 128, 129, 255, 256, 257, 512, 1000, 1400})
UBound == Lab("utf8@", {1, 2, 16, 32, 64, 100, 128, 256, 512, 1000})
Devs == {"drop", "int0", "int-1", "int65536", "int2^31", "int2^63", "int-2^63", "intbig", "bytes0", "bytes1", "bytes-1", "bytes+1",
         "bytes3", "bytes5", "bytes18", "bytes2000", "list", "listofint", "dict", "elem-empty", "elem-short", "elem-double", "elem-int",
         "text-nonutf8", "dup-key"}
One == {[m |-> m, devs |-> <<[path |-> p, dev |-> d]>>] : m \in BaseMsgs, p \in UNION {Paths(x) : x \in BaseMsgs}, d \in Devs}
OneOf(m) == {[m |-> m, devs |-> <<[path |-> p, dev |-> d]>>] : p \in Paths(m), d \in Devs}
            \cup {[m |-> m, devs |-> <<[path |-> p, dev |-> d]>>] : p \in Paths(m) \cap StrPaths, d \in UDevs}
            \cup {[m |-> m, devs |-> <<[path |-> p, dev |-> d]>>] : p \in Paths(m) \ StrPaths, d \in UBound}
\* pairs: two deviations on distinct paths, from a reduced deviation set
Devs2 == {"drop", "int0", "bytes0", "list", "int2^63", "elem-empty"}
TwoOf(m) == {[m |-> m, devs |-> <<[path |-> p, dev |-> d], [path |-> q, dev |-> e]>>] :
               p \in Paths(m), q \in Paths(m), d \in Devs2, e \in Devs2}
Shapes == UNION {OneOf(m) : m \in BaseMsgs} \cup (IF Pairs THEN UNION {{x \in TwoOf(m) : x.devs[1].path # x.devs[2].path} : m \in BaseMsgs} ELSE {})

Init == sh \in Shapes
Next == UNCHANGED sh
Spec == Init /\ [][Next]_sh
Emit == PrintT(<<"GEN", ToJson([m |-> sh.m, devs |-> sh.devs])>>)
=============================================================================
