------------------------------- MODULE MC_Sock -------------------------------
EXTENDS Sock, Json
\* Injection plans for the replay on the real code: at the k-th request of a lookup / put, a third party
\* injects a message relative to the genuine reply.
Plans == [scenario : {"lookup", "put"}, k : 0..5,
          phase : {"before", "after", "duplicate", "late", "late_duplicate"},
          source : {"wrong_ip", "wrong_port", "right"},
          tid : {"same", "next", "unknown", "prev"},
          content : {"nodes", "ack", "error301"}]
PlanOk(p) == /\ (p.phase \in {"duplicate", "late", "late_duplicate"}) = (p.source = "right" /\ p.tid = "same" /\ p.content = "nodes")
             /\ (p.source = "right" => p.phase # "before")
EmitPlans == PrintT(<<"GEN", ToJson({p \in Plans : PlanOk(p)})>>)
=============================================================================
