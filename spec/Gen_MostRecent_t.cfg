SPECIFICATION Spec
CONSTANTS
  Patterns <- P6
  FoldFixed = TRUE
INVARIANT Emit
CHECK_DEADLOCK FALSE
