------------------------------- MODULE MC_PutQ -------------------------------
(* One state per run of the store phase: kind x number of requests x arrival sequence.  The L1       *)
(* formulas of C08 are evaluated on the model result of every run; the generator prints the runs    *)
(* for replay on a real writer against fake storage peers.                                          *)
EXTENDS PutQ, Json
CONSTANTS MaxN, Codes
VARIABLE r
Kinds == {"imm", "mut", "announce", "sannounce"}
RECURSIVE Seqs(_, _)
Seqs(S, n) == IF n = 0 THEN {<<>>} ELSE {Append(q, x) : q \in Seqs(S, n - 1), x \in S}
RunsOf(n) == {[kind |-> k, sent |-> n, arr |-> a] : k \in Kinds, a \in UNION {Seqs(Codes, m) : m \in 0..n}}
Runs == UNION {RunsOf(n) : n \in 1..MaxN}
         \* (arrival sequences shorter than `sent` = the remaining replies were lost)
RunsN(n) == {x \in Runs : x.sent = n}
Init == r \in Runs
Next == UNCHANGED r
Spec == Init /\ [][Next]_r
Res == Result(r.kind, r.sent, r.arr)
Pen == Pending(r.kind, r.sent, r.arr)
L1 == /\ C08_OkOnlyIfAck(r.kind, r.sent, Pen, Res)
      /\ C08_ConcurrencyOnlyIfAnswered(r.kind, r.sent, Pen, Res)
      /\ C08_QueryErrorOtherwise(r.kind, r.sent, Pen, Res)
      /\ (C08_OkIffAck(r.kind, r.sent, r.arr, Res) \/ EarlyExitAfterAck(r.kind, r.sent, r.arr, Res))
\* the literal formula: expected to fail (KF-C08-1) when EarlyMajority = TRUE and MaxN >= 5
Literal == C08_OkIffAck(r.kind, r.sent, r.arr, Res)
Emit == PrintT(<<"GEN", ToJson(r)>>)
\* rule table of C17 over all relations of the two items
Rel == [sig : {"A", "B"}, seq : 0..2, cas : {-1, 0, 1, 2}]
RuleTable == \A x \in Rel : LET o == LocalRule([sig |-> "A", seq |-> 1], x) IN
   /\ (x.sig = "A") => o = "go"
   /\ (x.sig = "B" /\ x.seq < 1) => o = "NotMostRecent"
   /\ (x.sig = "B" /\ x.seq >= 1 /\ x.cas = -1) => o = "ConflictRisk"
   /\ (x.sig = "B" /\ x.seq >= 1 /\ x.cas = 1) => o = "go"
   /\ (x.sig = "B" /\ x.seq >= 1 /\ x.cas \notin {-1, 1}) => o = "CasFailed"
=============================================================================
