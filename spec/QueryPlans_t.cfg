SPECIFICATION Spec
CONSTANTS
  Pairs = TRUE
  MaxIdx = 9
INVARIANT Emit
CHECK_DEADLOCK FALSE
