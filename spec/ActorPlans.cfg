SPECIFICATION Spec
CONSTANTS
  MaxIdx = 7
  Triples = TRUE
INVARIANT Emit
CHECK_DEADLOCK FALSE
