SPECIFICATION Spec
CONSTANTS
  MaxIdx = 3
  Triples = TRUE
INVARIANT Emit
CHECK_DEADLOCK FALSE
