----------------------------- MODULE MostRecent -----------------------------
(* dht.rs / async_dht.rs get_mutable_most_recent: the fold over the stream of authentic items    *)
(* a lookup delivers, in arrival order.  Items are <<seq, val>> (val ordered as the value bytes). *)
(* L1 (C16): the result is None iff nothing was delivered; otherwise its seq is the maximum       *)
(* delivered seq and its value the greatest among the items of that seq.                         *)
EXTENDS Integers, Sequences, FiniteSets, TLC
CONSTANTS Patterns,   \* set of sequences of items; one is chosen initially
          FoldFixed   \* FALSE = the fold that only replaces on equal seq and greater value (deviation #9)
VARIABLES items, pending, best, arrived

NoneItem == <<0, 0>>   \* values are 1..3 (0 never occurs), seq is any integer - negative ones included
Fold(b, it) == IF b = NoneItem THEN it
               ELSE IF FoldFixed
                    THEN IF it[1] > b[1] \/ (it[1] = b[1] /\ it[2] > b[2]) THEN it ELSE b
                    ELSE IF it[1] = b[1] /\ it[2] > b[2] THEN it ELSE b
RECURSIVE FoldAll(_, _)
FoldAll(b, q) == IF q = <<>> THEN b ELSE FoldAll(Fold(b, Head(q)), Tail(q))

\* L1 reference: the newest item of a delivered sequence
Expected(q) == IF q = <<>> THEN NoneItem
               ELSE LET S == {q[i] : i \in 1..Len(q)}
                        ms == CHOOSE m \in {x[1] : x \in S} : \A x \in S : x[1] <= m
                        top == {y \in S : y[1] = ms}
                        mv == CHOOSE v \in {x[2] : x \in top} : \A x \in top : x[2] <= v
                    IN <<ms, mv>>

Init == /\ items \in Patterns /\ pending = DOMAIN items /\ best = NoneItem /\ arrived = <<>>
Deliver(i) == /\ i \in pending
              /\ pending' = pending \ {i}
              /\ best' = Fold(best, items[i])
              /\ arrived' = Append(arrived, items[i])
              /\ UNCHANGED items
\* a response may also be lost: the item is never delivered
Lose(i) == /\ i \in pending /\ pending' = pending \ {i} /\ UNCHANGED <<items, best, arrived>>
Next == \E i \in pending : Deliver(i) \/ Lose(i)
vars == <<items, pending, best, arrived>>
Spec == Init /\ [][Next]_vars

C16_MostRecent == pending = {} => best = Expected(arrived)
C16_NoneIffNothing == pending = {} => ((best = NoneItem) <=> (arrived = <<>>))
=============================================================================
