SPECIFICATION TSpec
CONSTANTS
  Peers <- TPeers
  Targets <- TTargets
  Self = "S"
  K = 20
  Calls <- TCalls
  OpOf <- TOpOf
  TargetOf <- TTargetOf
  ItemOf <- TItemOf
  Dist <- TDist
  Knows <- TKnows
  Boot <- TBoot
  Timeout = 500
  Dev = {}
POSTCONDITION TraceAccepted
CHECK_DEADLOCK FALSE
