SPECIFICATION Spec
CONSTANTS
  Lookups = {q1, q2, q3}
  KeepSome = FALSE
  MaxVotes = 3
INVARIANT TypeOK
INVARIANT C18_ClearedOnlyIfReachable
INVARIANT C18_RecordedUnreachableIsFirewalled
INVARIANT C18_ConfirmsWhenReachable
PROPERTY C18_NewAddressIsPinged
CHECK_DEADLOCK FALSE
