SPECIFICATION Spec
CONSTANTS
  Lookups = {q1, q2, q3}
  KeepSome = FALSE
  MaxVotes = 3
INVARIANT C18_ConfirmsWhenReachable
CHECK_DEADLOCK FALSE
