---------------------------- MODULE ServerTrace ----------------------------
(* Trace validation of one real server-mode node against Server.tla.                          *)
(* Each line of the ndjson trace is one request the harness sent over the simulated wire       *)
(* (abstract request r), the reply datagram it observed (o) and the H4 projection of the       *)
(* stores afterwards (A).  The model state is advanced by Server!Step; every L1 formula is     *)
(* evaluated on the OBSERVED reply and projection; a line whose observation differs from the   *)
(* model's without breaking an L1 formula is reported as drift and the rest of that behaviour  *)
(* is skipped.  Violations are printed as  <<"VIOL", "{json}">> (one line each).              *)
EXTENDS Server, Json, IOUtils, TLCExt
VARIABLES s, l, k, iss, mode, lastReq, maxgap, beh

Rec == ndJsonDeserialize(IOEnv.TRACE)
vars == <<s, l, k, iss, mode, lastReq, maxgap, beh>>

DefaultCaps == [imm |-> 1000, mut |-> 1000, hash |-> 2000, peers |-> 500]
TraceInit == /\ s = InitState("allow", DefaultCaps) /\ l = 1 /\ k = 0 /\ iss = <<>> /\ mode = "skip"
             /\ lastReq = 0 /\ maxgap = 0 /\ beh = -1

HasField(r, f) == f \in DOMAIN r
\* token label -> abstract token (resolved against what THIS model issued at that step)
Resolve(r) ==
  IF ~HasField(r, "tok") THEN r
  ELSE LET t == r.tok IN
       [r EXCEPT !.tok =
          IF t.kind = "issued" /\ t.step + 1 <= Len(iss) /\ iss[t.step + 1].ip # "none"
          THEN [ip |-> iss[t.step + 1].ip, ep |-> iss[t.step + 1].ep, self |-> TRUE]
          ELSE IF t.kind = "foreign" THEN [ip |-> r.from.ip, ep |-> 0, self |-> FALSE]
          ELSE NoTok]
TokAt(r) == IF HasField(r, "tok") /\ r.tok.kind = "issued" /\ r.tok.step + 1 <= Len(iss)
            THEN iss[r.tok.step + 1].at ELSE -1

ObsReply(o) == [kind |-> o.kind, code |-> o.code, val |-> o.val, k |-> o.k, seq |-> o.seq,
                peers |-> {<<o.peers[i][1], o.peers[i][2]>> : i \in 1..Len(o.peers)}, tok |-> o.tok]
ObsProj(A) == [imm |-> A.imm, mut |-> [i \in 1..Len(A.mut) |-> <<A.mut[i][1], A.mut[i][2]>>],
               peers |-> [i \in 1..Len(A.peers) |-> <<A.peers[i][1], A.peers[i][2]>>],
               sp |-> [i \in 1..Len(A.sp) |-> <<A.sp[i][1], A.sp[i][2]>>]]

\* C20 (eviction half): after a write that both the node and the model acknowledged, the keys the node retains are the keys
\* an LRU store retains (Server!PutLru / Touch: reads and writes promote) - a differing key set means the wrong entry was evicted
Keys(p) == [imm |-> SeqToSet(p.imm), mut |-> {x[1] : x \in SeqToSet(p.mut)},
            peers |-> {x[1] : x \in SeqToSet(p.peers)}, sp |-> {x[1] : x \in SeqToSet(p.sp)}]
\* ... and the recency ORDER of the retained keys (what decides the next eviction) is the LRU order: a write is a use
KeyOrder(p) == [imm |-> p.imm, mut |-> [i \in 1..Len(p.mut) |-> p.mut[i][1]],
                peers |-> [i \in 1..Len(p.peers) |-> p.peers[i][1]], sp |-> [i \in 1..Len(p.sp) |-> p.sp[i][1]]]
Eviction(o, A, m) == IF o.kind = "ack" /\ m.reply.kind = "ack" /\ Keys(A) # Keys(Proj(m.st))
                     THEN {"C20_EvictsLeastRecentlyUsed"}
                     ELSE IF o.kind = "ack" /\ m.reply.kind = "ack" /\ KeyOrder(A) # KeyOrder(Proj(m.st))
                     THEN {"C20_RecencyOrder"} ELSE {}

\* order-only drift: reply and contents agree, only the recency order of some store differs where no formula demands one (e.g.
\* whether a REJECTED put counts as a use).  The model adopts the observed order and the behaviour goes on, so that one
\* harmless difference does not hide the rest of the history from the L1 formulas.
ByKey(q, key) == CHOOSE x \in SeqToSet(q) : x.t = key
Reordered(q, keys) == Rev([i \in 1..Len(keys) |-> ByKey(q, keys[i])])
OrderOnly(o, A, m) == (o = m.reply \/ o.kind \in {"peers", "speers"}) /\ A # Proj(m.st) /\ Content(A) = Content(Proj(m.st))
                      /\ Len(A.imm) = Len(m.st.imm) /\ Len(A.mut) = Len(m.st.mut) /\ Len(A.peers) = Len(m.st.peers) /\ Len(A.sp) = Len(m.st.sp)
Resync(st, A) == [st EXCEPT !.imm = Reordered(st.imm, KeyOrder(A).imm), !.mut = Reordered(st.mut, KeyOrder(A).mut),
                            !.peers = Reordered(st.peers, KeyOrder(A).peers), !.sp = Reordered(st.sp, KeyOrder(A).sp)]

\* C15 timing formulas on the observation (tokens.rs + lazy rotation in server.rs)
Timing(r, o, gap) ==
  IF ~(IsPut(r) /\ FilterAllows(s, r) /\ TokAt(Rec[l].r) >= 0 /\ r.tok.ip = r.from.ip) THEN {}
  ELSE LET age == s.now - TokAt(Rec[l].r) IN
       (IF age <= Rotate /\ PayloadValid(r) /\ ~CasMismatch(s, r) /\ ~SeqTooLow(s, r) /\ o.kind # "ack"
        THEN {"C15_ValidAtLeast5"} ELSE {})
       \cup (IF age > 2 * Rotate + gap /\ ~(o.kind = "error" /\ o.code = 203)
             THEN {"C15_ExpiresAfterTwoRotations"} ELSE {})

Reset == /\ Rec[l].e = "reset"
         /\ s' = InitState(Rec[l].filter, Rec[l].caps)
         /\ k' = 0 /\ iss' = <<>> /\ mode' = "ok" /\ lastReq' = 0 /\ maxgap' = 0 /\ beh' = Rec[l].b
         /\ l' = l + 1

Skip == /\ Rec[l].e = "req" /\ mode = "skip"
        /\ l' = l + 1 /\ UNCHANGED <<s, k, iss, mode, lastReq, maxgap, beh>>

Req == /\ Rec[l].e = "req" /\ mode = "ok"
       /\ LET r == Resolve(Rec[l].r)
              m == Step(s, r)
              o == ObsReply(Rec[l].o)
              A == ObsProj(Rec[l].A)
              counted == r.kind # "advance" /\ FilterAllows(s, r)
              gap == IF counted THEN (IF s.now - lastReq > maxgap THEN s.now - lastReq ELSE maxgap) ELSE maxgap
              \* the node died while handling this (well-formed) request: C05
              failed == L1Failed(s, r, o, A) \cup Timing(r, o, gap) \cup Eviction(o, A, m)
                        \cup (IF o.kind = "PANIC" THEN {"C05_NoPanic", "C05_NodeStaysAlive"} ELSE {})
              \* an answer that is a random sample of the stored peers conforms when it is a sample of the right size
              replyOk == IF m.reply.kind \in {"peers", "speers"} /\ o.kind = m.reply.kind
                         THEN [o EXCEPT !.peers = {}] = [m.reply EXCEPT !.peers = {}]
                              /\ ServedOk(o.peers, m.reply.peers, IF o.kind = "peers" THEN PeersPerAnswer ELSE SignedPerAnswer)
                         ELSE o = m.reply
              conforms == replyOk /\ A = Proj(m.st)
              \* a wrong eviction victim / recency order (C20) is reported and the behaviour goes on against the LRU reference:
              \* "evicted by the capacity bound" in C04 means evicted as the least recently used entry, so an item the node
              \* dropped out of turn and then rolls back / no longer serves shows up as C04_Seq302 / C04_GetReturnsLast further on
              onlyEviction == failed # {} /\ failed \subseteq {"C20_RecencyOrder", "C20_EvictsLeastRecentlyUsed"} /\ o = m.reply
          IN /\ IF failed # {}
                \* (the behaviour goes on against the reference after a violation - only a dead node ends it: what the node wrongly stored or
                \* refused shows again in what it serves, accepts and rolls back later, under the formulas of the other properties)
                THEN PrintT(<<"VIOL", ToJson([line |-> l, b |-> beh, failed |-> failed])>>) /\ mode' = (IF onlyEviction \/ o.kind # "PANIC" THEN "ok" ELSE "skip")
                ELSE IF ~conforms
                     THEN PrintT(<<"DRIFT", ToJson([line |-> l, b |-> beh, obs |-> o, model |-> m.reply, obsA |-> A, modelA |-> Proj(m.st)])>>)
                          /\ mode' = (IF OrderOnly(o, A, m) THEN "ok" ELSE "skip")
                     ELSE mode' = "ok"
             /\ s' = IF failed = {} /\ OrderOnly(o, A, m) THEN Resync(m.st, A) ELSE m.st
             /\ iss' = Append(iss, IF m.reply.tok THEN [ip |-> r.from.ip, ep |-> m.st.cur, at |-> m.st.now]
                                   ELSE [ip |-> "none", ep |-> -9, at |-> -1])
             /\ lastReq' = IF counted THEN s.now ELSE lastReq
             /\ maxgap' = gap
       /\ k' = k + 1 /\ l' = l + 1 /\ UNCHANGED beh

\* a remark of the harness (e.g. whether the node re-keyed before the history): no step of the model
Note == /\ Rec[l].e = "note" /\ l' = l + 1 /\ UNCHANGED <<s, k, iss, mode, lastReq, maxgap, beh>>
TraceNext == l <= Len(Rec) /\ (Reset \/ Skip \/ Req \/ Note)
TraceSpec == TraceInit /\ [][TraceNext]_vars

\* the whole trace has been consumed (one state per line plus the initial state)
TraceAccepted == IF TLCGet("stats").diameter - 1 = Len(Rec) THEN TRUE
                 ELSE PrintT(<<"REJECTED", TLCGet("stats").diameter, Len(Rec)>>) /\ FALSE
=============================================================================
