SPECIFICATION Spec
CONSTANTS
  Addrs = {"peer", "peer2", "adv"}
  MaxReq = 3
  CompareFirst = TRUE
INVARIANT C09_OnlyAddressee
INVARIANT C09_SpoofIsStutter
INVARIANT C09_GenuineStillAccepted
INVARIANT C09_AtMostOnce
CHECK_DEADLOCK FALSE
