--------------------------------- MODULE Auth ---------------------------------
(* core/handle_response.rs value extraction (C02): what a lookup may surface from the responses of   *)
(* Byzantine responders.  A response is a label describing how it was crafted; only "authentic"       *)
(* ones satisfy the BEP44 / signed-announce checks for the requested target / key / salt.             *)
EXTENDS Integers, Sequences, FiniteSets, TLC
CONSTANTS Kind,        \* "immutable" | "mutable" | "mutable_salt" | "signed_peers"
          Responders
VARIABLES label, pending, yielded

Labels(k) ==
  CASE k = "immutable" -> {"authentic", "wrong_hash", "bitflip", "empty", "as_mutable"}
    [] k = "mutable_empty_salt" ->
         \* the requested salt is present but empty: the key's UNSALTED item hashes to the same target and must not surface
         {"authentic", "unsalted", "other_salt", "bad_sig", "replay_of_authentic"}
    [] k = "mutable_binsalt" ->
         \* the requested salt is not valid UTF-8; colliding_salt = the key's item for a salt that differs only in such bytes
         {"authentic", "colliding_salt", "other_salt", "unsalted", "bad_sig", "replay_of_authentic"}
    [] k = "mutable_via_peers" ->
         \* a get_mutable caller joins a running get_peers lookup of the same target whose responders send mutable-shaped answers
         {"authentic", "wrong_key", "bad_sig", "sig_by_other_key", "flipped_v", "other_salt"}
    [] k \in {"mutable", "mutable_salt"} ->
         {"authentic", "wrong_key", "other_salt", "bad_sig", "flipped_seq", "flipped_v", "sig_by_other_key", "as_immutable", "short_key", "replay_of_authentic"}
    [] k = "signed_peers" -> {"authentic", "all_bad", "wrong_infohash", "mixed_first_bad", "mixed_last_bad", "mixed_middle_bad", "wrong_key",
                              \* 14 records (an honest node sends at most 10): all authentic / one forged behind the tenth / the last
                              "long_authentic", "long_bad_11", "long_bad_last", "long_bad_12_victim"}
\* the validation the code is supposed to perform
Valid(k, lb) == lb \in {"authentic", "long_authentic"}

Init == /\ label \in [Responders -> Labels(Kind)] /\ pending = Responders /\ yielded = {}
Deliver(r) == /\ r \in pending /\ pending' = pending \ {r}
              /\ yielded' = IF Valid(Kind, label[r]) THEN yielded \cup {r} ELSE yielded
              /\ UNCHANGED label
Lose(r) == r \in pending /\ pending' = pending \ {r} /\ UNCHANGED <<label, yielded>>
Next == \E r \in Responders : Deliver(r) \/ Lose(r)
Spec == Init /\ [][Next]_<<label, pending, yielded>>
C02_Authentic == \A r \in yielded : Valid(Kind, label[r])
=============================================================================
