--------------------------- MODULE SockTableTrace ---------------------------
(* C09 at the level of the socket alone: a bare KrpcSocket (hook SocketUnderTest) is driven call by call - requests to  *)
(* two addresses, genuine / duplicate / spoofed / late replies, empty receives, pauses - and SockTable is stepped        *)
(* alongside.  L1 formulas are read off the observations (plus the harness' own record of what it made the socket send). *)
EXTENDS SockTable, TLC, Json, IOUtils, TLCExt
VARIABLES s, l, mode, beh, sent, handedSet
Rec == ndJsonDeserialize(IOEnv.TRACE)
vars == <<s, l, mode, beh, sent, handedSet>>
SeqSet(q) == {q[i] : i \in 1..Len(q)}
TInit == s = Init0 /\ l = 1 /\ mode = "skip" /\ beh = -1 /\ sent = {} /\ handedSet = {}
Report(kind, failed, e) == PrintT(<<kind, ToJson([line |-> l, b |-> beh, failed |-> failed, op |-> e.op])>>)
Reset == /\ Rec[l].e = "reset" /\ s' = Init0 /\ mode' = "ok" /\ beh' = Rec[l].b /\ sent' = {} /\ handedSet' = {} /\ l' = l + 1
\* sent: every request of the behaviour as <<tid, to, at>> (from the observations); handedSet: tids handed on so far
Op ==
  /\ Rec[l].e = "op"
  /\ LET e == Rec[l] IN
     CASE e.op = "send" ->
            LET m == Send(s, e.to)
                reused == \E x \in sent : x[1] = e.tid /\ x[2] = e.to
                f == IF reused THEN {"C09_TidsNotReused"} ELSE {}
                conforms == e.tid = m.tid /\ e.next_tid = m.st.next /\ e.cap = m.st.cap /\ e.present = [i \in 1..Len(m.st.reqs) |-> m.st.reqs[i].tid]
            IN /\ IF f # {} /\ mode # "done" THEN Report("VIOL", f, e) ELSE IF mode = "ok" /\ ~conforms THEN Report("DRIFT", {}, e) ELSE TRUE
               /\ mode' = IF f # {} \/ mode = "done" THEN "done" ELSE IF mode = "ok" /\ ~conforms THEN "skip" ELSE mode
               /\ s' = m.st /\ sent' = sent \cup {<<e.tid, e.to, s.now>>} /\ UNCHANGED handedSet
       [] e.op = "recv" ->
            LET T == [lo |-> e.timeout_ms, hi |-> e.timeout_hi_ms]
                ok(k) == LET r == Recv(s, e.tid, e.from, T, k, e.kind) IN
                           e.handed = r.handed /\ e.present = [i \in 1..Len(r.st.reqs) |-> r.st.reqs[i].tid] /\ e.cap = r.st.cap
                good == {k \in Cuts(s, T) : ok(k)}
                m == Recv(s, e.tid, e.from, T, IF good # {} THEN CHOOSE k \in good : TRUE ELSE 0, e.kind)
                \* the requests this message could answer: same id, same address
                \* (a request, or bytes that are no message, answer nothing)
                mine == IF Answers(e.kind) THEN {x \in sent : x[1] = e.tid /\ x[2] = e.from} ELSE {}
                fresh == \E x \in mine : s.now - x[3] < e.timeout_hi_ms
                f == (IF e.handed /\ mine = {} /\ e.kind # "req" THEN {"C09_OnlyAddressee"} ELSE {})
                     \cup (IF e.handed /\ mine # {} /\ ~fresh THEN {"C09_ExpiredIgnored"} ELSE {})
                     \cup (IF e.handed /\ e.tid \in handedSet /\ Cardinality(mine) = 1 THEN {"C09_AtMostOnce"} ELSE {})
                     \* no message - a spoof (unknown id, wrong address) least of all - takes an unexpired request out of the table,
                     \* except the one it answers
                     \cup (IF \E t \in (SeqSet(e.present_before) \ SeqSet(e.present)) \ (IF mine # {} THEN {e.tid} ELSE {}) :
                                 \E x \in sent : x[1] = t /\ s.now - x[3] < e.timeout_hi_ms
                           THEN {"C09_SpoofIsStutter"} ELSE {})
                     \* the genuine reply to an unexpired request that was not answered before is handed on
                     \* (still in the table: a request that expired once stays expired, even if the timeout has grown since)
                     \cup (IF ~e.handed /\ Cardinality(mine) = 1 /\ fresh /\ e.tid \in SeqSet(e.present_before) /\ e.tid \notin handedSet /\ e.first_reply
                           THEN {"C09_GenuineStillAccepted"} ELSE {})
                conforms == good # {}
            IN /\ IF f # {} /\ mode # "done" THEN Report("VIOL", f, e) ELSE IF mode = "ok" /\ ~conforms THEN Report("DRIFT", {}, e) ELSE TRUE
               /\ mode' = IF f # {} \/ mode = "done" THEN "done" ELSE IF mode = "ok" /\ ~conforms THEN "skip" ELSE mode
               /\ s' = m.st /\ handedSet' = (IF e.handed /\ Answers(e.kind) THEN handedSet \cup {e.tid} ELSE handedSet) /\ UNCHANGED sent
       [] e.op = "advance" -> s' = Advance(s, e.ms) /\ UNCHANGED <<mode, sent, handedSet>>
  /\ l' = l + 1 /\ UNCHANGED beh
TNext == l <= Len(Rec) /\ (Reset \/ Op)
TSpec == TInit /\ [][TNext]_vars
TraceAccepted == IF TLCGet("stats").diameter - 1 = Len(Rec) THEN TRUE
                 ELSE PrintT(<<"REJECTED", TLCGet("stats").diameter, Len(Rec)>>) /\ FALSE
=============================================================================
