SPECIFICATION GSpec
CONSTANTS
  Rotate = 300000
  TsTolerance = 45000
  MaxV = 1000
  MaxSalt = 64
  CheckKeyTarget = TRUE
  Part = "tok"
  MaxSeq = 0
  MaxEpoch = 3
  Filter = "allow"
  MaxLen = 12
  CapSmall = 1
INVARIANT Emit
VIEW GView
CHECK_DEADLOCK FALSE
