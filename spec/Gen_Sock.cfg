SPECIFICATION Spec
CONSTANTS
  Addrs = {"peer"}
  MaxReq = 0
  CompareFirst = TRUE
INVARIANT EmitPlans
CHECK_DEADLOCK FALSE
