SPECIFICATION Spec
CONSTANTS
  Peers <- MPeers
  Targets <- MTargets
  Self = "S"
  K = 20
  Calls <- MCalls
  OpOf <- MOpOf
  TargetOf <- MTargetOf
  ItemOf <- MItemOf
  Dist <- MDist
  Knows <- MKnows
  Boot <- MBoot
  Timeout = 500
  Dev = {}
  CallSet = {"putA1", "getA"}
INVARIANT C06_NotStuck
INVARIANT C06_ExactlyOne
INVARIANT C20_NoLeak
INVARIANT C17_NeverForOtherKinds
INVARIANT C07_ClosureInv
INVARIANT ReadersSeeAll
INVARIANT TypeOK
CHECK_DEADLOCK FALSE
