SPECIFICATION Spec
CONSTANTS
  Patterns <- P5
  FoldFixed = TRUE
INVARIANT C16_MostRecent
INVARIANT C16_NoneIffNothing
CHECK_DEADLOCK FALSE
