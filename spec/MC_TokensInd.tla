----------------------------- MODULE MC_TokensInd -----------------------------
(* TLC, bounded clock: TokensInd is the same transition system as Tokens (refinement), and its inductive invariant  *)
(* holds in every reachable state.                                                                                   *)
EXTENDS TokensInd
CONSTANT MaxT
T == INSTANCE Tokens WITH s <- [now |-> now, cur |-> cur, lastUpd |-> lastUpd, lastReq |-> lastReq, issuedAt |-> issuedAt, issuedEp |-> issuedEp]
Spec == Init /\ [][Next]_vars
Bound == now < MaxT
TokensSpec == T!Init /\ [][T!Next]_vars
=============================================================================
