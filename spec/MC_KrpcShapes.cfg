SPECIFICATION Spec
CONSTANT Pairs = FALSE
INVARIANT Emit
CHECK_DEADLOCK FALSE
