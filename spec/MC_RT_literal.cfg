SPECIFICATION Spec
CONSTANTS
  W = 4
  P = 2
  MaxT = 32
  KK = 2
  StaleC = 15
  RefreshKnownC = TRUE
  RekeySortedC = TRUE
  ClosestKnownFinding = TRUE
INVARIANT Structure
INVARIANT AddSteps
INVARIANT ClosestLiteral
CHECK_DEADLOCK FALSE
