---------------------------- MODULE MC_MostRecent ----------------------------
EXTENDS MostRecent, Json
\* seq patterns with gaps, duplicates and ties (value 1..3 distinguishes equal-seq items)
P4 == {<<<<1, 1>>, <<2, 1>>, <<3, 1>>, <<4, 1>>>>, <<<<5, 2>>, <<5, 1>>, <<5, 3>>, <<2, 3>>>>,
       <<<<1, 3>>, <<7, 1>>, <<7, 2>>, <<3, 3>>>>, <<<<2, 2>>, <<2, 2>>, <<9, 1>>, <<1, 3>>>>,
       <<<<0, 1>>, <<0, 2>>, <<0, 3>>, <<0, 1>>>>,
       \* seq is a signed 64-bit integer: mixed signs, all negative, the extremes
       <<<<-1, 1>>, <<0, 2>>, <<-3, 3>>, <<2, 1>>>>, <<<<-5, 2>>, <<-2, 1>>, <<-2, 3>>, <<-9, 3>>>>,
       <<<<-1, 3>>, <<1, 1>>, <<-1, 1>>, <<1, 2>>>>,
       \* -9 / 9 are replayed as i64::MIN / i64::MAX (order-preserving, see the driver)
       <<<<-9, 1>>, <<-9, 2>>, <<-9, 2>>, <<-9, 1>>>>, <<<<-9, 2>>, <<9, 1>>, <<0, 3>>, <<9, 2>>>>}
P5 == P4 \cup {<<<<1, 1>>, <<3, 2>>, <<3, 1>>, <<2, 3>>, <<9, 1>>>>, <<<<4, 1>>, <<4, 2>>, <<1, 3>>, <<4, 3>>, <<2, 2>>>>}
P6 == P5 \cup {<<<<1, 1>>, <<2, 2>>, <<3, 3>>, <<3, 1>>, <<2, 3>>, <<1, 2>>>>}
\* generator: print the arrival order of every complete run (one line per distinct arrival sequence)
Emit == (pending = {}) => PrintT(<<"GEN", ToJson([arrived |-> arrived])>>)
GView == <<pending, arrived>>
=============================================================================
