---- MODULE MC_Actor_TTrace_1790317805 ----
EXTENDS Sequences, TLCExt, Toolbox, MC_Actor, Naturals, TLC

_expression ==
    LET MC_Actor_TEExpression == INSTANCE MC_Actor_TEExpression
    IN MC_Actor_TEExpression!expression
----

_trace ==
    LET MC_Actor_TETrace == INSTANCE MC_Actor_TETrace
    IN MC_Actor_TETrace!trace
----

_inv ==
    ~(
        TLCGet("level") = Len(_TETrace)
        /\
        s = ([p |-> [S |-> [on |-> FALSE, item |-> [sig |-> 0, seq |-> 0, cas |-> -1, kind |-> "none"], tids |-> {}, acks |-> 0, errs |-> <<>>], A |-> [on |-> FALSE, item |-> [sig |-> 0, seq |-> 0, cas |-> -1, kind |-> "none"], tids |-> {}, acks |-> 0, errs |-> <<>>], B |-> [on |-> FALSE, item |-> [sig |-> 0, seq |-> 0, cas |-> -1, kind |-> "none"], tids |-> {}, acks |-> 0, errs |-> <<>>]], rt |-> [p2 |-> 0], called |-> {"putA1", "putA0c"}, mbox |-> <<>>, tid |-> 1, net |-> {}, infl |-> {}, done |-> [putA1 |-> "pending", putA0c |-> "NotMostRecent", putA1b |-> "pending", putA2 |-> "pending", putA2c |-> "pending", getA |-> "pending", fnA |-> "pending", putB |-> "pending", getB |-> "pending"], outcomes |-> [putA1 |-> 0, putA0c |-> 1, putA1b |-> 0, putA2 |-> 0, putA2c |-> 0, getA |-> 0, fnA |-> 0, putB |-> 0, getB |-> 0], q |-> [S |-> [kind |-> "fn", on |-> FALSE, cand |-> {}, vis |-> {}, vals |-> <<>>, tids |-> {}, resp |-> {}, seen |-> <<>>], A |-> [kind |-> "fn", on |-> FALSE, cand |-> {}, vis |-> {}, vals |-> <<>>, tids |-> {}, resp |-> {}, seen |-> <<>>], B |-> [kind |-> "fn", on |-> FALSE, cand |-> {}, vis |-> {}, vals |-> <<>>, tids |-> {}, resp |-> {}, seen |-> <<>>]], gs |-> [S |-> {}, A |-> {}, B |-> {}], ps |-> [S |-> {}, A |-> {"putA1"}, B |-> {}], got |-> [putA1 |-> <<>>, putA0c |-> <<>>, putA1b |-> <<>>, putA2 |-> <<>>, putA2c |-> <<>>, getA |-> <<>>, fnA |-> <<>>, putB |-> <<>>, getB |-> <<>>], cap |-> 4, cache |-> [S |-> [kind |-> "fn", on |-> FALSE, seen |-> <<>>, nodes |-> {}], A |-> [kind |-> "get", on |-> TRUE, seen |-> <<>>, nodes |-> {}], B |-> [kind |-> "fn", on |-> FALSE, seen |-> <<>>, nodes |-> {}]], lastRefresh |-> 0, lastPing |-> 0, server |-> FALSE, firewalled |-> TRUE])
        /\
        ex = ({0})
    )
----

_init ==
    /\ s = _TETrace[1].s
    /\ ex = _TETrace[1].ex
----

_next ==
    /\ \E i,j \in DOMAIN _TETrace:
        /\ \/ /\ j = i + 1
              /\ i = TLCGet("level")
        /\ s  = _TETrace[i].s
        /\ s' = _TETrace[j].s
        /\ ex  = _TETrace[i].ex
        /\ ex' = _TETrace[j].ex

\* Uncomment the ASSUME below to write the states of the error trace
\* to the given file in Json format. Note that you can pass any tuple
\* to `JsonSerialize`. For example, a sub-sequence of _TETrace.
    \* ASSUME
    \*     LET J == INSTANCE Json
    \*         IN J!JsonSerialize("MC_Actor_TTrace_1790317805.json", _TETrace)

=============================================================================

 Note that you can extract this module `MC_Actor_TEExpression`
  to a dedicated file to reuse `expression` (the module in the 
  dedicated `MC_Actor_TEExpression.tla` file takes precedence 
  over the module `MC_Actor_TEExpression` below).

---- MODULE MC_Actor_TEExpression ----
EXTENDS Sequences, TLCExt, Toolbox, MC_Actor, Naturals, TLC

expression == 
    [
        \* To hide variables of the `MC_Actor` spec from the error trace,
        \* remove the variables below.  The trace will be written in the order
        \* of the fields of this record.
        s |-> s
        ,ex |-> ex
        
        \* Put additional constant-, state-, and action-level expressions here:
        \* ,_stateNumber |-> _TEPosition
        \* ,_sUnchanged |-> s = s'
        
        \* Format the `s` variable as Json value.
        \* ,_sJson |->
        \*     LET J == INSTANCE Json
        \*     IN J!ToJson(s)
        
        \* Lastly, you may build expressions over arbitrary sets of states by
        \* leveraging the _TETrace operator.  For example, this is how to
        \* count the number of times a spec variable changed up to the current
        \* state in the trace.
        \* ,_sModCount |->
        \*     LET F[s \in DOMAIN _TETrace] ==
        \*         IF s = 1 THEN 0
        \*         ELSE IF _TETrace[s].s # _TETrace[s-1].s
        \*             THEN 1 + F[s-1] ELSE F[s-1]
        \*     IN F[_TEPosition - 1]
    ]

=============================================================================



Parsing and semantic processing can take forever if the trace below is long.
 In this case, it is advised to uncomment the module below to deserialize the
 trace from a generated binary file.

\*
\*---- MODULE MC_Actor_TETrace ----
\*EXTENDS IOUtils, MC_Actor, TLC
\*
\*trace == IODeserialize("MC_Actor_TTrace_1790317805.bin", TRUE)
\*
\*=============================================================================
\*

---- MODULE MC_Actor_TETrace ----
EXTENDS MC_Actor, TLC

trace == 
    <<
    ([s |-> [p |-> [S |-> [on |-> FALSE, item |-> [sig |-> 0, seq |-> 0, cas |-> -1, kind |-> "none"], tids |-> {}, acks |-> 0, errs |-> <<>>], A |-> [on |-> FALSE, item |-> [sig |-> 0, seq |-> 0, cas |-> -1, kind |-> "none"], tids |-> {}, acks |-> 0, errs |-> <<>>], B |-> [on |-> FALSE, item |-> [sig |-> 0, seq |-> 0, cas |-> -1, kind |-> "none"], tids |-> {}, acks |-> 0, errs |-> <<>>]], rt |-> [p2 |-> 0], called |-> {}, mbox |-> <<>>, tid |-> 0, net |-> {}, infl |-> {}, done |-> [putA1 |-> "pending", putA0c |-> "pending", putA1b |-> "pending", putA2 |-> "pending", putA2c |-> "pending", getA |-> "pending", fnA |-> "pending", putB |-> "pending", getB |-> "pending"], outcomes |-> [putA1 |-> 0, putA0c |-> 0, putA1b |-> 0, putA2 |-> 0, putA2c |-> 0, getA |-> 0, fnA |-> 0, putB |-> 0, getB |-> 0], q |-> [S |-> [kind |-> "fn", on |-> FALSE, cand |-> {}, vis |-> {}, vals |-> <<>>, tids |-> {}, resp |-> {}, seen |-> <<>>], A |-> [kind |-> "fn", on |-> FALSE, cand |-> {}, vis |-> {}, vals |-> <<>>, tids |-> {}, resp |-> {}, seen |-> <<>>], B |-> [kind |-> "fn", on |-> FALSE, cand |-> {}, vis |-> {}, vals |-> <<>>, tids |-> {}, resp |-> {}, seen |-> <<>>]], gs |-> [S |-> {}, A |-> {}, B |-> {}], ps |-> [S |-> {}, A |-> {}, B |-> {}], got |-> [putA1 |-> <<>>, putA0c |-> <<>>, putA1b |-> <<>>, putA2 |-> <<>>, putA2c |-> <<>>, getA |-> <<>>, fnA |-> <<>>, putB |-> <<>>, getB |-> <<>>], cap |-> 0, cache |-> [S |-> [kind |-> "fn", on |-> FALSE, seen |-> <<>>, nodes |-> {}], A |-> [kind |-> "fn", on |-> FALSE, seen |-> <<>>, nodes |-> {}], B |-> [kind |-> "fn", on |-> FALSE, seen |-> <<>>, nodes |-> {}]], lastRefresh |-> 0, lastPing |-> 0, server |-> FALSE, firewalled |-> TRUE],ex |-> {}]),
    ([s |-> [p |-> [S |-> [on |-> FALSE, item |-> [sig |-> 0, seq |-> 0, cas |-> -1, kind |-> "none"], tids |-> {}, acks |-> 0, errs |-> <<>>], A |-> [on |-> FALSE, item |-> [sig |-> 0, seq |-> 0, cas |-> -1, kind |-> "none"], tids |-> {}, acks |-> 0, errs |-> <<>>], B |-> [on |-> FALSE, item |-> [sig |-> 0, seq |-> 0, cas |-> -1, kind |-> "none"], tids |-> {}, acks |-> 0, errs |-> <<>>]], rt |-> [p2 |-> 0], called |-> {"putA1"}, mbox |-> <<"putA1">>, tid |-> 0, net |-> {}, infl |-> {}, done |-> [putA1 |-> "pending", putA0c |-> "pending", putA1b |-> "pending", putA2 |-> "pending", putA2c |-> "pending", getA |-> "pending", fnA |-> "pending", putB |-> "pending", getB |-> "pending"], outcomes |-> [putA1 |-> 0, putA0c |-> 0, putA1b |-> 0, putA2 |-> 0, putA2c |-> 0, getA |-> 0, fnA |-> 0, putB |-> 0, getB |-> 0], q |-> [S |-> [kind |-> "fn", on |-> FALSE, cand |-> {}, vis |-> {}, vals |-> <<>>, tids |-> {}, resp |-> {}, seen |-> <<>>], A |-> [kind |-> "fn", on |-> FALSE, cand |-> {}, vis |-> {}, vals |-> <<>>, tids |-> {}, resp |-> {}, seen |-> <<>>], B |-> [kind |-> "fn", on |-> FALSE, cand |-> {}, vis |-> {}, vals |-> <<>>, tids |-> {}, resp |-> {}, seen |-> <<>>]], gs |-> [S |-> {}, A |-> {}, B |-> {}], ps |-> [S |-> {}, A |-> {}, B |-> {}], got |-> [putA1 |-> <<>>, putA0c |-> <<>>, putA1b |-> <<>>, putA2 |-> <<>>, putA2c |-> <<>>, getA |-> <<>>, fnA |-> <<>>, putB |-> <<>>, getB |-> <<>>], cap |-> 0, cache |-> [S |-> [kind |-> "fn", on |-> FALSE, seen |-> <<>>, nodes |-> {}], A |-> [kind |-> "fn", on |-> FALSE, seen |-> <<>>, nodes |-> {}], B |-> [kind |-> "fn", on |-> FALSE, seen |-> <<>>, nodes |-> {}]], lastRefresh |-> 0, lastPing |-> 0, server |-> FALSE, firewalled |-> TRUE],ex |-> {}]),
    ([s |-> [p |-> [S |-> [on |-> FALSE, item |-> [sig |-> 0, seq |-> 0, cas |-> -1, kind |-> "none"], tids |-> {}, acks |-> 0, errs |-> <<>>], A |-> [on |-> FALSE, item |-> [sig |-> 0, seq |-> 0, cas |-> -1, kind |-> "none"], tids |-> {}, acks |-> 0, errs |-> <<>>], B |-> [on |-> FALSE, item |-> [sig |-> 0, seq |-> 0, cas |-> -1, kind |-> "none"], tids |-> {}, acks |-> 0, errs |-> <<>>]], rt |-> [p2 |-> 0], called |-> {"putA1", "putA0c"}, mbox |-> <<"putA1", "putA0c">>, tid |-> 0, net |-> {}, infl |-> {}, done |-> [putA1 |-> "pending", putA0c |-> "pending", putA1b |-> "pending", putA2 |-> "pending", putA2c |-> "pending", getA |-> "pending", fnA |-> "pending", putB |-> "pending", getB |-> "pending"], outcomes |-> [putA1 |-> 0, putA0c |-> 0, putA1b |-> 0, putA2 |-> 0, putA2c |-> 0, getA |-> 0, fnA |-> 0, putB |-> 0, getB |-> 0], q |-> [S |-> [kind |-> "fn", on |-> FALSE, cand |-> {}, vis |-> {}, vals |-> <<>>, tids |-> {}, resp |-> {}, seen |-> <<>>], A |-> [kind |-> "fn", on |-> FALSE, cand |-> {}, vis |-> {}, vals |-> <<>>, tids |-> {}, resp |-> {}, seen |-> <<>>], B |-> [kind |-> "fn", on |-> FALSE, cand |-> {}, vis |-> {}, vals |-> <<>>, tids |-> {}, resp |-> {}, seen |-> <<>>]], gs |-> [S |-> {}, A |-> {}, B |-> {}], ps |-> [S |-> {}, A |-> {}, B |-> {}], got |-> [putA1 |-> <<>>, putA0c |-> <<>>, putA1b |-> <<>>, putA2 |-> <<>>, putA2c |-> <<>>, getA |-> <<>>, fnA |-> <<>>, putB |-> <<>>, getB |-> <<>>], cap |-> 0, cache |-> [S |-> [kind |-> "fn", on |-> FALSE, seen |-> <<>>, nodes |-> {}], A |-> [kind |-> "fn", on |-> FALSE, seen |-> <<>>, nodes |-> {}], B |-> [kind |-> "fn", on |-> FALSE, seen |-> <<>>, nodes |-> {}]], lastRefresh |-> 0, lastPing |-> 0, server |-> FALSE, firewalled |-> TRUE],ex |-> {}]),
    ([s |-> [p |-> [S |-> [on |-> FALSE, item |-> [sig |-> 0, seq |-> 0, cas |-> -1, kind |-> "none"], tids |-> {}, acks |-> 0, errs |-> <<>>], A |-> [on |-> TRUE, item |-> [sig |-> 1, seq |-> 1, cas |-> -1, kind |-> "mut"], tids |-> {}, acks |-> 0, errs |-> <<>>], B |-> [on |-> FALSE, item |-> [sig |-> 0, seq |-> 0, cas |-> -1, kind |-> "none"], tids |-> {}, acks |-> 0, errs |-> <<>>]], rt |-> [p2 |-> 0], called |-> {"putA1", "putA0c"}, mbox |-> <<"putA0c">>, tid |-> 1, net |-> {[kind |-> "get", t |-> "A", dir |-> "req", tid |-> 0, peer |-> "p2"]}, infl |-> {[tid |-> 0, to |-> "p2", at |-> 0]}, done |-> [putA1 |-> "pending", putA0c |-> "pending", putA1b |-> "pending", putA2 |-> "pending", putA2c |-> "pending", getA |-> "pending", fnA |-> "pending", putB |-> "pending", getB |-> "pending"], outcomes |-> [putA1 |-> 0, putA0c |-> 0, putA1b |-> 0, putA2 |-> 0, putA2c |-> 0, getA |-> 0, fnA |-> 0, putB |-> 0, getB |-> 0], q |-> [S |-> [kind |-> "fn", on |-> FALSE, cand |-> {}, vis |-> {}, vals |-> <<>>, tids |-> {}, resp |-> {}, seen |-> <<>>], A |-> [kind |-> "get", on |-> TRUE, cand |-> {"p2"}, vis |-> {"p2"}, vals |-> <<>>, tids |-> {0}, resp |-> {}, seen |-> <<>>], B |-> [kind |-> "fn", on |-> FALSE, cand |-> {}, vis |-> {}, vals |-> <<>>, tids |-> {}, resp |-> {}, seen |-> <<>>]], gs |-> [S |-> {}, A |-> {}, B |-> {}], ps |-> [S |-> {}, A |-> {"putA1"}, B |-> {}], got |-> [putA1 |-> <<>>, putA0c |-> <<>>, putA1b |-> <<>>, putA2 |-> <<>>, putA2c |-> <<>>, getA |-> <<>>, fnA |-> <<>>, putB |-> <<>>, getB |-> <<>>], cap |-> 4, cache |-> [S |-> [kind |-> "fn", on |-> FALSE, seen |-> <<>>, nodes |-> {}], A |-> [kind |-> "fn", on |-> FALSE, seen |-> <<>>, nodes |-> {}], B |-> [kind |-> "fn", on |-> FALSE, seen |-> <<>>, nodes |-> {}]], lastRefresh |-> 0, lastPing |-> 0, server |-> FALSE, firewalled |-> TRUE],ex |-> {}]),
    ([s |-> [p |-> [S |-> [on |-> FALSE, item |-> [sig |-> 0, seq |-> 0, cas |-> -1, kind |-> "none"], tids |-> {}, acks |-> 0, errs |-> <<>>], A |-> [on |-> FALSE, item |-> [sig |-> 0, seq |-> 0, cas |-> -1, kind |-> "none"], tids |-> {}, acks |-> 0, errs |-> <<>>], B |-> [on |-> FALSE, item |-> [sig |-> 0, seq |-> 0, cas |-> -1, kind |-> "none"], tids |-> {}, acks |-> 0, errs |-> <<>>]], rt |-> [p2 |-> 0], called |-> {"putA1", "putA0c"}, mbox |-> <<>>, tid |-> 1, net |-> {[kind |-> "get", t |-> "A", dir |-> "req", tid |-> 0, peer |-> "p2"]}, infl |-> {[tid |-> 0, to |-> "p2", at |-> 0]}, done |-> [putA1 |-> "pending", putA0c |-> "NotMostRecent", putA1b |-> "pending", putA2 |-> "pending", putA2c |-> "pending", getA |-> "pending", fnA |-> "pending", putB |-> "pending", getB |-> "pending"], outcomes |-> [putA1 |-> 0, putA0c |-> 1, putA1b |-> 0, putA2 |-> 0, putA2c |-> 0, getA |-> 0, fnA |-> 0, putB |-> 0, getB |-> 0], q |-> [S |-> [kind |-> "fn", on |-> FALSE, cand |-> {}, vis |-> {}, vals |-> <<>>, tids |-> {}, resp |-> {}, seen |-> <<>>], A |-> [kind |-> "get", on |-> TRUE, cand |-> {"p2"}, vis |-> {"p2"}, vals |-> <<>>, tids |-> {0}, resp |-> {}, seen |-> <<>>], B |-> [kind |-> "fn", on |-> FALSE, cand |-> {}, vis |-> {}, vals |-> <<>>, tids |-> {}, resp |-> {}, seen |-> <<>>]], gs |-> [S |-> {}, A |-> {}, B |-> {}], ps |-> [S |-> {}, A |-> {"putA1"}, B |-> {}], got |-> [putA1 |-> <<>>, putA0c |-> <<>>, putA1b |-> <<>>, putA2 |-> <<>>, putA2c |-> <<>>, getA |-> <<>>, fnA |-> <<>>, putB |-> <<>>, getB |-> <<>>], cap |-> 4, cache |-> [S |-> [kind |-> "fn", on |-> FALSE, seen |-> <<>>, nodes |-> {}], A |-> [kind |-> "fn", on |-> FALSE, seen |-> <<>>, nodes |-> {}], B |-> [kind |-> "fn", on |-> FALSE, seen |-> <<>>, nodes |-> {}]], lastRefresh |-> 0, lastPing |-> 0, server |-> FALSE, firewalled |-> TRUE],ex |-> {}]),
    ([s |-> [p |-> [S |-> [on |-> FALSE, item |-> [sig |-> 0, seq |-> 0, cas |-> -1, kind |-> "none"], tids |-> {}, acks |-> 0, errs |-> <<>>], A |-> [on |-> FALSE, item |-> [sig |-> 0, seq |-> 0, cas |-> -1, kind |-> "none"], tids |-> {}, acks |-> 0, errs |-> <<>>], B |-> [on |-> FALSE, item |-> [sig |-> 0, seq |-> 0, cas |-> -1, kind |-> "none"], tids |-> {}, acks |-> 0, errs |-> <<>>]], rt |-> [p2 |-> 0], called |-> {"putA1", "putA0c"}, mbox |-> <<>>, tid |-> 1, net |-> {[kind |-> "tok", dir |-> "resp", tid |-> 0, peer |-> "p2", val |-> 0, code |-> 0]}, infl |-> {[tid |-> 0, to |-> "p2", at |-> 0]}, done |-> [putA1 |-> "pending", putA0c |-> "NotMostRecent", putA1b |-> "pending", putA2 |-> "pending", putA2c |-> "pending", getA |-> "pending", fnA |-> "pending", putB |-> "pending", getB |-> "pending"], outcomes |-> [putA1 |-> 0, putA0c |-> 1, putA1b |-> 0, putA2 |-> 0, putA2c |-> 0, getA |-> 0, fnA |-> 0, putB |-> 0, getB |-> 0], q |-> [S |-> [kind |-> "fn", on |-> FALSE, cand |-> {}, vis |-> {}, vals |-> <<>>, tids |-> {}, resp |-> {}, seen |-> <<>>], A |-> [kind |-> "get", on |-> TRUE, cand |-> {"p2"}, vis |-> {"p2"}, vals |-> <<>>, tids |-> {0}, resp |-> {}, seen |-> <<>>], B |-> [kind |-> "fn", on |-> FALSE, cand |-> {}, vis |-> {}, vals |-> <<>>, tids |-> {}, resp |-> {}, seen |-> <<>>]], gs |-> [S |-> {}, A |-> {}, B |-> {}], ps |-> [S |-> {}, A |-> {"putA1"}, B |-> {}], got |-> [putA1 |-> <<>>, putA0c |-> <<>>, putA1b |-> <<>>, putA2 |-> <<>>, putA2c |-> <<>>, getA |-> <<>>, fnA |-> <<>>, putB |-> <<>>, getB |-> <<>>], cap |-> 4, cache |-> [S |-> [kind |-> "fn", on |-> FALSE, seen |-> <<>>, nodes |-> {}], A |-> [kind |-> "fn", on |-> FALSE, seen |-> <<>>, nodes |-> {}], B |-> [kind |-> "fn", on |-> FALSE, seen |-> <<>>, nodes |-> {}]], lastRefresh |-> 0, lastPing |-> 0, server |-> FALSE, firewalled |-> TRUE],ex |-> {}]),
    ([s |-> [p |-> [S |-> [on |-> FALSE, item |-> [sig |-> 0, seq |-> 0, cas |-> -1, kind |-> "none"], tids |-> {}, acks |-> 0, errs |-> <<>>], A |-> [on |-> FALSE, item |-> [sig |-> 0, seq |-> 0, cas |-> -1, kind |-> "none"], tids |-> {}, acks |-> 0, errs |-> <<>>], B |-> [on |-> FALSE, item |-> [sig |-> 0, seq |-> 0, cas |-> -1, kind |-> "none"], tids |-> {}, acks |-> 0, errs |-> <<>>]], rt |-> [p2 |-> 0], called |-> {"putA1", "putA0c"}, mbox |-> <<>>, tid |-> 1, net |-> {[kind |-> "tok", dir |-> "resp", tid |-> 0, peer |-> "p2", val |-> 0, code |-> 0]}, infl |-> {[tid |-> 0, to |-> "p2", at |-> 0]}, done |-> [putA1 |-> "pending", putA0c |-> "NotMostRecent", putA1b |-> "pending", putA2 |-> "pending", putA2c |-> "pending", getA |-> "pending", fnA |-> "pending", putB |-> "pending", getB |-> "pending"], outcomes |-> [putA1 |-> 0, putA0c |-> 1, putA1b |-> 0, putA2 |-> 0, putA2c |-> 0, getA |-> 0, fnA |-> 0, putB |-> 0, getB |-> 0], q |-> [S |-> [kind |-> "fn", on |-> FALSE, cand |-> {}, vis |-> {}, vals |-> <<>>, tids |-> {}, resp |-> {}, seen |-> <<>>], A |-> [kind |-> "get", on |-> TRUE, cand |-> {"p2"}, vis |-> {"p2"}, vals |-> <<>>, tids |-> {0}, resp |-> {}, seen |-> <<>>], B |-> [kind |-> "fn", on |-> FALSE, cand |-> {}, vis |-> {}, vals |-> <<>>, tids |-> {}, resp |-> {}, seen |-> <<>>]], gs |-> [S |-> {}, A |-> {}, B |-> {}], ps |-> [S |-> {}, A |-> {"putA1"}, B |-> {}], got |-> [putA1 |-> <<>>, putA0c |-> <<>>, putA1b |-> <<>>, putA2 |-> <<>>, putA2c |-> <<>>, getA |-> <<>>, fnA |-> <<>>, putB |-> <<>>, getB |-> <<>>], cap |-> 4, cache |-> [S |-> [kind |-> "fn", on |-> FALSE, seen |-> <<>>, nodes |-> {}], A |-> [kind |-> "fn", on |-> FALSE, seen |-> <<>>, nodes |-> {}], B |-> [kind |-> "fn", on |-> FALSE, seen |-> <<>>, nodes |-> {}]], lastRefresh |-> 0, lastPing |-> 0, server |-> FALSE, firewalled |-> TRUE],ex |-> {0}]),
    ([s |-> [p |-> [S |-> [on |-> FALSE, item |-> [sig |-> 0, seq |-> 0, cas |-> -1, kind |-> "none"], tids |-> {}, acks |-> 0, errs |-> <<>>], A |-> [on |-> FALSE, item |-> [sig |-> 0, seq |-> 0, cas |-> -1, kind |-> "none"], tids |-> {}, acks |-> 0, errs |-> <<>>], B |-> [on |-> FALSE, item |-> [sig |-> 0, seq |-> 0, cas |-> -1, kind |-> "none"], tids |-> {}, acks |-> 0, errs |-> <<>>]], rt |-> [p2 |-> 0], called |-> {"putA1", "putA0c"}, mbox |-> <<>>, tid |-> 1, net |-> {}, infl |-> {}, done |-> [putA1 |-> "pending", putA0c |-> "NotMostRecent", putA1b |-> "pending", putA2 |-> "pending", putA2c |-> "pending", getA |-> "pending", fnA |-> "pending", putB |-> "pending", getB |-> "pending"], outcomes |-> [putA1 |-> 0, putA0c |-> 1, putA1b |-> 0, putA2 |-> 0, putA2c |-> 0, getA |-> 0, fnA |-> 0, putB |-> 0, getB |-> 0], q |-> [S |-> [kind |-> "fn", on |-> FALSE, cand |-> {}, vis |-> {}, vals |-> <<>>, tids |-> {}, resp |-> {}, seen |-> <<>>], A |-> [kind |-> "fn", on |-> FALSE, cand |-> {}, vis |-> {}, vals |-> <<>>, tids |-> {}, resp |-> {}, seen |-> <<>>], B |-> [kind |-> "fn", on |-> FALSE, cand |-> {}, vis |-> {}, vals |-> <<>>, tids |-> {}, resp |-> {}, seen |-> <<>>]], gs |-> [S |-> {}, A |-> {}, B |-> {}], ps |-> [S |-> {}, A |-> {"putA1"}, B |-> {}], got |-> [putA1 |-> <<>>, putA0c |-> <<>>, putA1b |-> <<>>, putA2 |-> <<>>, putA2c |-> <<>>, getA |-> <<>>, fnA |-> <<>>, putB |-> <<>>, getB |-> <<>>], cap |-> 4, cache |-> [S |-> [kind |-> "fn", on |-> FALSE, seen |-> <<>>, nodes |-> {}], A |-> [kind |-> "get", on |-> TRUE, seen |-> <<>>, nodes |-> {}], B |-> [kind |-> "fn", on |-> FALSE, seen |-> <<>>, nodes |-> {}]], lastRefresh |-> 0, lastPing |-> 0, server |-> FALSE, firewalled |-> TRUE],ex |-> {0}])
    >>
----


=============================================================================

---- CONFIG MC_Actor_TTrace_1790317805 ----
CONSTANTS
    Peers <- MPeers
    Targets <- MTargets
    Self = "S"
    K = 20
    Calls <- MCalls
    OpOf <- MOpOf
    TargetOf <- MTargetOf
    ItemOf <- MItemOf
    Dist <- MDist
    Knows <- MKnows
    Boot <- MBoot
    Timeout = 500
    Dev = { "cas_before_seq" }
    CallSet = { "putA1" , "putA0c" }

INVARIANT
    _inv

CHECK_DEADLOCK
    \* CHECK_DEADLOCK off because of PROPERTY or INVARIANT above.
    FALSE

INIT
    _init

NEXT
    _next

CONSTANT
    _TETrace <- _trace

ALIAS
    _expression
=============================================================================
\* Generated on Fri Sep 25 06:30:06 UTC 2026