----------------------------- MODULE LookupTrace -----------------------------
(* C07 (Kademlia closure) judged from each lookup's own message trace in a loss-free network of real  *)
(* nodes.  U is the universe of <<id, address>> entries the lookup saw (answered, listed in answers,    *)
(* seeds from the routing tables, reported); everything else refers to U by index.                     *)
(*   Closure   : each of the K closest entries (BEP42-secure first, then XOR) among the entries that    *)
(*               answered or were listed in answers has had its address queried;                        *)
(*   NoRequery : no request goes to an address after that address answered, or after an earlier         *)
(*               request to it expired;                                                                 *)
(*   Reported  : find_node reports the closest known entries in order; writes go to, and               *)
(*               get_closest_nodes reports, the closest responders that handed out a token.             *)
EXTENDS Integers, Sequences, FiniteSets, TLC, Json, IOUtils, TLCExt
CONSTANT K
IM == INSTANCE IdMath
VARIABLE l
Rec == ndJsonDeserialize(IOEnv.TRACE)

SeqSet(q) == {q[i] : i \in 1..Len(q)}
Check(e) ==
  LET U == e.U
      t == e.t
      key == [i \in 1..Len(U) |-> IM!XorB(U[i].id, t)]
      Less(i, j) == IF U[i].sec # U[j].sec THEN U[i].sec ELSE IM!LexLess(key[i], key[j], 1)
      Top(S) == {i \in S : Cardinality({j \in S : Less(j, i)}) < K}
      Addr(i) == <<U[i].ip, U[i].port>>
      AddrS(i) == U[i].ip   \* for the shared-IP explanation
      answered == {e.answered[i][1] : i \in 1..Len(e.answered)}
      known == answered \cup SeqSet(e.listed)
      queried == SeqSet(e.queried)
      AddrStr(i) == U[i].addr
      \* an entry counts as queried when its address was queried, or when another entry with the SAME id was (the accumulator keeps
      \* one entry per id: a second address claiming an id already seen is never a candidate)
      QueriedE(i) == U[i].addr \in queried \/ \E j \in known : U[j].id = U[i].id /\ U[j].addr \in queried
      closure == \A i \in Top(known) : QueriedE(i)
      \* a request to address a at time t2 is a re-query if a answered before t2 or an earlier request to a expired before t2
      requery == \E r \in 1..Len(e.requests) :
                   LET a == e.requests[r][1] t2 == e.requests[r][2] IN
                   \/ \E x \in 1..Len(e.answers) : e.answers[x][1] = a /\ e.answers[x][2] < t2
                   \/ \E r0 \in 1..Len(e.requests) : e.requests[r0][1] = a /\ e.requests[r0][2] + e.timeout_ms <= t2 /\ e.requests[r0][2] < t2
      rep == e.reported
      sorted == \A i \in 1..(Len(rep) - 1) : ~Less(rep[i + 1], rep[i])
      pool == IF e.kind = "find_node" THEN known \cup SeqSet(e.seeds) ELSE SeqSet(e.bearers)
      Explained(i, S) == \E j \in S : j # i /\ U[j].ip = U[i].ip
      reportedOk ==
        IF e.kind \in {"find_node", "closest"}
        THEN /\ sorted /\ Len(rep) <= (IF e.kind = "find_node" THEN K ELSE Len(rep))
             /\ SeqSet(rep) \subseteq pool
             /\ \A i \in Top(pool) : i \in SeqSet(rep) \/ Explained(i, pool) \/ \E j \in SeqSet(rep) : U[j].id = U[i].id
        ELSE IF e.kind = "put" /\ Len(e.requests) > 0    \* a put served from the lookup cache sends no lookup request: nothing to judge here
        THEN /\ SeqSet(e.stores) \subseteq {U[i].addr : i \in SeqSet(e.bearers)}
             /\ \A i \in Top(SeqSet(e.bearers)) : U[i].addr \in SeqSet(e.stores) \/ Explained(i, SeqSet(e.bearers))
                                                  \/ \E j \in SeqSet(e.bearers) : U[j].id = U[i].id /\ U[j].addr \in SeqSet(e.stores)
        ELSE TRUE
      unexplained == {i \in Top(pool) : e.kind \in {"find_node", "closest"} /\ i \notin SeqSet(rep) /\ ~Explained(i, pool)}
      \* "answered or timed out": when the call returns, every request of the lookup has been answered or is at least as old as
      \* the shortest request timeout (500 ms) - a lookup does not finish over the head of a node that is about to answer
      noEarly == \A r \in 1..Len(e.requests) :
                   \/ \E x \in 1..Len(e.answers) : e.answers[x][1] = e.requests[r][1] /\ e.answers[x][2] >= e.requests[r][2]
                   \/ e.end_ms - e.requests[r][2] >= 500
  IN [failed |-> (IF e.done THEN {} ELSE {"C07_LookupCompletes"})
                 \cup (IF closure THEN {} ELSE {"C07_Closure"})
                 \cup (IF requery THEN {"C07_NoRequery"} ELSE {})
                 \cup (IF reportedOk THEN {} ELSE {"C07_Reported"})
                 \cup (IF e.done /\ ~noEarly THEN {"C07_WaitsForAnswers"} ELSE {}),
      known |-> Cardinality(known), top_unqueried |-> {U[i].addr : i \in {j \in Top(known) : ~QueriedE(j)}},
      \* every unqueried entry of the closest K shares its IP with another known entry (the accumulator's per-IP rule kept that one)
      shared_ip |-> \A i \in {j \in Top(known) : ~QueriedE(j)} : Explained(i, known \cup SeqSet(e.seeds))]

Init == l = 1
Next == /\ l <= Len(Rec)
        /\ LET e == Rec[l] c == Check(e) IN
           IF c.failed # {} THEN PrintT(<<"VIOL", ToJson([line |-> l, b |-> e.b, failed |-> c.failed, kind |-> e.kind, node |-> e.node,
                                         known |-> c.known, unqueried |-> c.top_unqueried,
                                         only_closure |-> (c.failed = {"C07_Closure"}), shared_ip |-> c.shared_ip])>>) ELSE TRUE
        /\ l' = l + 1
Spec == Init /\ [][Next]_l
TraceAccepted == IF TLCGet("stats").diameter - 1 = Len(Rec) THEN TRUE
                 ELSE PrintT(<<"REJECTED", TLCGet("stats").diameter, Len(Rec)>>) /\ FALSE
=============================================================================
