SPECIFICATION Spec
CONSTANTS
  Rotate = 300000
  TsTolerance = 45000
  MaxV = 1000
  MaxSalt = 64
  CheckKeyTarget = TRUE
  Part = "imm"
  MaxSeq = 1
  MaxEpoch = 0
  Filter = "allow"
  MaxLen = 12
  CapSmall = 2
INVARIANT L1Holds
INVARIANT CapsInv
CHECK_DEADLOCK FALSE
