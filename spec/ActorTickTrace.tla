--------------------------- MODULE ActorTickTrace ---------------------------
(* Tick-level L2 conformance of the real Actor against Actor.tla - several targets at once, mutable items with   *)
(* seq / cas, value streams to parked readers, per-code error tallies, and (in the long plans) the maintenance    *)
(* timers.  One real client node among four scripted peers p1..p4; three targets: A (a mutable item; p1 closest), *)
(* B (an immutable value; p4 closest) and S (the node's own id: refresh lookups, ping rounds).  Every line of the  *)
(* trace is one step of the real node - an API call handled by the run-loop arm (`api`) or one Actor::tick with   *)
(* the datagram it read (`tick`) - with the virtual time, the set of requests that have expired by then (harness   *)
(* wire log) and the projection of the node's state afterwards (cfg-gated snapshot + the callers' channels).      *)
(* The model is stepped with the same input; the HashMap iteration order of the targets is not logged: the step   *)
(* is accepted if SOME order reproduces the observation.  Differences are reported as DRIFT (rest of the           *)
(* behaviour skipped); the L1 formulas readable off the observations are evaluated on every line.                 *)
EXTENDS Actor, Json, IOUtils, TLCExt
VARIABLES l, mode, base, beh, hist

Rec == ndJsonDeserialize(IOEnv.TRACE)
tvars == <<s, l, mode, base, beh, hist>>

\* ---- the fixed scenario (the harness builds exactly this) ----
TPeers == {"p1", "p2", "p3", "p4", "g0"}      \* g0: a node at port 0 that some plans make every peer list (nothing can reach it)
TTargets == {"A", "B", "S"}
Rank(p) == CASE p = "p1" -> 1 [] p = "p2" -> 2 [] p = "p3" -> 3 [] p = "p4" -> 4 [] OTHER -> 5    \* g0: farthest from A and S, closest to B
TDist == [t \in TTargets |-> [p \in TPeers |-> IF t = "B" THEN 5 - Rank(p) ELSE Rank(p)]]
TKnows == [p \in TPeers |-> [t \in TTargets |->
             CASE p = "g0" -> {}
               [] t = "A" -> (CASE p = "p4" -> {"p3", "p4"} [] p = "p3" -> {"p2", "p3"} [] OTHER -> {"p1", "p2"})
               [] t = "B" -> (CASE p = "p4" -> {"p1", "p4"} [] p = "p1" -> {"p1", "p2"} [] p = "p2" -> {"p2", "p3"} [] OTHER -> {"p3"})
               [] OTHER -> {"p4"}]]
TBoot == {"p4"}
\* the call universe: name -> operation, target, item
TCalls == {"putA1", "putA1b", "putA2", "putA2c", "putA0", "putA2x", "putA0c", "getA1", "getA2", "fnA", "putB", "putB2", "getB", "fnB"}
Mut(sig, seq, cas) == [kind |-> "mut", sig |-> sig, seq |-> seq, cas |-> cas]
TItemOf == [c \in TCalls |->
   CASE c = "putA1" -> Mut(1, 1, -1) [] c = "putA1b" -> Mut(1, 1, -1)      \* the identical item again
     [] c = "putA2" -> Mut(2, 2, -1)                                        \* newer, no cas: ConflictRisk while A1 is in flight
     [] c = "putA2c" -> Mut(3, 2, 1)                                        \* newer, cas = seq of A1: supersedes
     [] c = "putA0" -> Mut(4, 0, -1)                                        \* older: NotMostRecent
     [] c = "putA2x" -> Mut(5, 2, 0)                                        \* cas mismatch: CasFailed
     [] c = "putA0c" -> Mut(6, 0, 1)                                        \* older AND cas = in-flight seq: NotMostRecent
     [] c \in {"putB", "putB2"} -> [kind |-> "imm", sig |-> 100, seq |-> 0, cas |-> -1]
     [] OTHER -> NoItem]
TOpOf == [c \in TCalls |-> IF c \in {"fnA", "fnB"} THEN "fn" ELSE IF c \in {"getA1", "getA2", "getB"} THEN "get" ELSE "put"]
TTargetOf == [c \in TCalls |-> IF c \in {"putB", "putB2", "getB", "fnB"} THEN "B" ELSE "A"]

SeqSet(q) == {q[i] : i \in 1..Len(q)}
Perms == {<<a, b, c>> : a \in TTargets, b \in TTargets, c \in TTargets}
Orders == {o \in Perms : o[1] # o[2] /\ o[1] # o[3] /\ o[2] # o[3]}

\* ---- projections ----
ErrSeq(e) == [i \in 1..Len(e) |-> <<e[i][1], e[i][2]>>]
ProjT(st, t) ==
  LET q == st.q[t] p == st.p[t] c == st.cache[t] IN
  [q_on |-> q.on, q_kind |-> IF q.on THEN q.kind ELSE "none",
   cand |-> IF q.on THEN q.cand ELSE {}, vis |-> IF q.on THEN q.vis ELSE {}, resp |-> IF q.on THEN q.resp ELSE {},
   q_tids |-> IF q.on THEN {x + base : x \in q.tids} ELSE {}, vals |-> IF q.on THEN q.vals ELSE <<>>,
   p_on |-> p.on, p_sig |-> IF p.on THEN p.item.sig ELSE 0, p_tids |-> IF p.on THEN {x + base : x \in p.tids} ELSE {},
   acks |-> IF p.on THEN p.acks ELSE 0, errs |-> IF p.on THEN ErrSeq(p.errs) ELSE <<>>,
   cache_on |-> c.on, cache_kind |-> IF c.on THEN c.kind ELSE "none", cache_nodes |-> IF c.on THEN c.nodes ELSE {},
   waiting_get |-> Cardinality(st.gs[t]), waiting_put |-> Cardinality(st.ps[t])]
Proj(st, expired) ==
  [t |-> [t \in TTargets |-> ProjT(st, t)],
   live |-> {i.tid + base : i \in {j \in st.infl : ~Expired(j, expired)}},
   present |-> {i.tid + base : i \in st.infl}, cap |-> st.cap, next_tid |-> st.tid + base,
   rt |-> DOMAIN st.rt, rt_seen |-> st.rt,
   last_refresh |-> st.lastRefresh, last_ping |-> st.lastPing, server |-> st.server,
   done |-> [c \in st.called |-> st.done[c]], got |-> [c \in st.called |-> st.got[c]]]

ObsT(o) ==
  [q_on |-> o.q_on, q_kind |-> o.q_kind, cand |-> SeqSet(o.cand), vis |-> SeqSet(o.vis), resp |-> SeqSet(o.resp),
   q_tids |-> SeqSet(o.q_tids), vals |-> o.vals,
   p_on |-> o.p_on, p_sig |-> o.p_sig, p_tids |-> SeqSet(o.p_tids), acks |-> o.acks,
   errs |-> [i \in 1..Len(o.errs) |-> <<o.errs[i][1], o.errs[i][2]>>],
   cache_on |-> o.cache_on, cache_kind |-> o.cache_kind, cache_nodes |-> SeqSet(o.cache_nodes),
   waiting_get |-> o.waiting_get, waiting_put |-> o.waiting_put]
Obs(o) ==
  [t |-> [t \in TTargets |-> ObsT(o.t[t])],
   live |-> SeqSet(o.live), present |-> SeqSet(o.present), cap |-> o.cap, next_tid |-> o.next_tid,
   rt |-> SeqSet(o.rt), rt_seen |-> [p \in SeqSet(o.rt) |-> o.rt_seen[p]],
   last_refresh |-> o.last_refresh, last_ping |-> o.last_ping, server |-> o.server,
   done |-> [c \in SeqSet(o.called) |-> o.done[c]], got |-> [c \in SeqSet(o.called) |-> o.got[c]]]

TFields == {"q_on", "q_kind", "cand", "vis", "resp", "q_tids", "vals", "p_on", "p_sig", "p_tids", "acks", "errs",
            "cache_on", "cache_kind", "cache_nodes", "waiting_get", "waiting_put"}
GFields == {"live", "present", "cap", "next_tid", "rt", "rt_seen", "last_refresh", "last_ping", "server", "done", "got"}
Diff(a, b) == {<<t, f>> \in TTargets \X TFields : a.t[t][f] # b.t[t][f]} \cup {<<"-", f>> : f \in {g \in GFields : a[g] # b[g]}}
DiffNames(d) == {x[1] \o "." \o x[2] : x \in d}

\* the fields through which a message can influence query results, routing tables and put results
CoreT == {"cand", "vis", "resp", "vals", "acks", "errs", "q_on", "p_on", "cache_on", "cache_nodes"}
CoreG == {"rt", "rt_seen", "done", "got"}
TouchesCore(d) == \E x \in d : (x[1] = "-" /\ x[2] \in CoreG) \/ (x[1] # "-" /\ x[2] \in CoreT)

\* observation history, kept in every mode: the (real) transaction ids for which an acknowledgement was read before the request
\* expired, and the store requests of each target's put as last observed
NoHist == [acked |-> {}, ptids |-> [t \in TTargets |-> {}], answered |-> {}]
HistAfter(e) ==
  [acked |-> IF e.e = "tick" /\ e.input.dir = "resp" /\ e.input.kind = "ack" /\ e.input.tid \notin SeqSet(e.expired)
             THEN hist.acked \cup {e.input.tid} ELSE hist.acked,
   \* (a put call on a target that leaves no put behind - refused at once - starts from no requests at all)
   ptids |-> [t \in TTargets |-> IF e.proj.t[t].p_on THEN SeqSet(e.proj.t[t].p_tids)
                                  ELSE IF e.e = "api" /\ TOpOf[e.call] = "put" /\ TTargetOf[e.call] = t THEN {}
                                  ELSE hist.ptids[t]],
   answered |-> {c \in DOMAIN e.outcomes : e.outcomes[c] >= 1}]
\* C08 (observational): a put call that has just been answered Ok had one of ITS OWN store requests acknowledged - the
\* requests its target's put was last seen to hold, against the acknowledgements read so far (this line's included)
OkWithoutOwnAck(e) ==
  LET h == HistAfter(e) IN
  \E c \in SeqSet(e.proj.called) :
     /\ TOpOf[c] = "put" /\ e.proj.done[c] = "ok" /\ e.outcomes[c] = 1
     /\ c \notin hist.answered                             \* judged on the line that answers the call
     /\ ~e.proj.t[TTargetOf[c]].p_on                       \* the put is over (not: superseded by a put still running)
     /\ hist.ptids[TTargetOf[c]] \cap h.acked = {}
     /\ hist.ptids[TTargetOf[c]] # {}
\* ... and conversely: a put call answered with a query error (timeout / error response / "no closest nodes" - not the 3xx
\* verdicts, whose early exit is KF-C08-1) although an acknowledgement of one of its own store requests was read before that request expired
ErrDespiteOwnAck(e) ==
  LET h == HistAfter(e) IN
  \E c \in SeqSet(e.proj.called) :
     /\ TOpOf[c] = "put" /\ e.proj.done[c] \notin {"pending", "ok", "dropped", "CasFailed", "NotMostRecent", "ConflictRisk"}
     /\ e.outcomes[c] = 1 /\ ~e.proj.t[TTargetOf[c]].p_on
     \* judged on the line that answers the call: a later put on the same target has requests (and acknowledgements) of its own
     /\ c \notin hist.answered
     /\ hist.ptids[TTargetOf[c]] \cap h.acked # {}
\* ... and a query error is a verdict on ALL the write requests: none of them is still waiting for its answer (unanswered and not
\* yet expired by the socket's own, adaptive, timeout) when the call is answered - an acknowledgement could still arrive
ErrWhileRequestsLive(e) ==
  \E c \in SeqSet(e.proj.called) :
     /\ TOpOf[c] = "put" /\ e.proj.done[c] \notin {"pending", "ok", "dropped", "abandoned", "CasFailed", "NotMostRecent", "ConflictRisk"}
     /\ e.outcomes[c] = 1 /\ ~e.proj.t[TTargetOf[c]].p_on
     /\ c \notin hist.answered
     /\ hist.ptids[TTargetOf[c]] \cap SeqSet(e.proj.live) # {}

\* ---- L1 readable off one observed line ----
L1(e) ==
  (IF \E c \in DOMAIN e.outcomes : e.outcomes[c] > 1 THEN {"C06_ExactlyOne"} ELSE {})
  \cup (IF e.panicked THEN {"C06_NodeAlive"} ELSE {})
  \cup (IF \E c \in SeqSet(e.proj.called) : e.proj.done[c] = "dropped" THEN {"C06_CallAnswered"} ELSE {})
  \* the last line of a behaviour is taken 6 s (12 request timeouts) after the last call: every call has completed
  \cup (IF e.last /\ \E c \in SeqSet(e.proj.called) : e.proj.done[c] = "pending" THEN {"C06_Terminates"} ELSE {})
  \* (the lookups of the node's own id are started by the maintenance round, not by a call: not per-call state)
  \cup (IF e.quiet /\ \E t \in TTargets \ {"S"} : (e.proj.t[t].q_on \/ e.proj.t[t].p_on \/ e.proj.t[t].waiting_get > 0 \/ e.proj.t[t].waiting_put > 0)
        THEN {"C20_NoLeak"} ELSE {})
  \* C17: the local conflict table, against the put that was OBSERVED in flight just before this call
  \cup (IF e.e = "api" /\ TOpOf[e.call] = "put" /\ TItemOf[e.call].kind = "mut" /\ e.pre.p_on /\ e.pre.p_sig \in 1..6
        THEN LET first == CHOOSE c \in TCalls : TItemOf[c].kind = "mut" /\ TItemOf[c].sig = e.pre.p_sig
                 rule == PQ!LocalRule(TItemOf[first], TItemOf[e.call])
             IN IF rule = "go" THEN (IF e.proj.done[e.call] \in {"NotMostRecent", "CasFailed", "ConflictRisk"} THEN {"C17_ConflictTable"} ELSE {})
                ELSE (IF e.proj.done[e.call] # rule THEN {"C17_ConflictTable"} ELSE {})
        ELSE {})
  \cup (IF OkWithoutOwnAck(e) THEN {"C08_OkOnlyIfOwnAck"} ELSE {})
  \cup (IF ErrDespiteOwnAck(e) THEN {"C08_OkIfOwnAck"} ELSE {})
  \cup (IF ErrWhileRequestsLive(e) THEN {"C08_ErrOnlyWhenNothingOutstanding"} ELSE {})
  \* C09: a transaction id belongs to one request: the id sets of the lookups and puts that are active at the same time are disjoint
  \cup (IF \E t1 \in TTargets, t2 \in TTargets :
             \/ (t1 # t2 /\ (SeqSet(e.proj.t[t1].q_tids) \cup SeqSet(e.proj.t[t1].p_tids)) \cap (SeqSet(e.proj.t[t2].q_tids) \cup SeqSet(e.proj.t[t2].p_tids)) # {})
             \/ (SeqSet(e.proj.t[t1].q_tids) \cap SeqSet(e.proj.t[t1].p_tids) # {})
        THEN {"C09_TidsDisjoint"} ELSE {})
  \* C09: ... and over the whole behaviour no (transaction id, address) pair is used for two requests: the late reply to an expired
  \* request could otherwise not be told from the reply to the new one
  \cup (IF e.tid_reused # <<>> THEN {"C09_TidsNotReused"} ELSE {})
  \* C01 (readers with a lookup or a put of the same key in flight): a get that joins a running lookup of its target is handed
  \* every value that lookup has already heard (whatever else it is handed first)
  \cup (IF e.e = "api" /\ TOpOf[e.call] = "get" /\ e.call \notin SeqSet(e.abandoned) /\ e.proj.t[TTargetOf[e.call]].q_on /\ e.proj.t[TTargetOf[e.call]].q_kind = "get"
           /\ ~(SeqSet(e.proj.t[TTargetOf[e.call]].vals) \subseteq SeqSet(e.proj.got[e.call]))
        THEN {"C01_JoinerSeesCollected"} ELSE {})
  \* C17: concurrency errors are never produced for immutable puts
  \cup (IF \E c \in SeqSet(e.proj.called) : TOpOf[c] = "put" /\ TItemOf[c].kind = "imm" /\ e.proj.done[c] \in {"NotMostRecent", "CasFailed", "ConflictRisk"}
        THEN {"C17_NeverForOtherKinds"} ELSE {})

TInit == /\ s = Init0 /\ l = 1 /\ mode = "skip" /\ base = 0 /\ beh = -1 /\ hist = NoHist

Reset == /\ Rec[l].e = "reset"
         /\ LET r == Rec[l] IN
            s' = [Init0 EXCEPT
                    \* requests left over from the warm-up are in the table with negative model ids
                    !.infl = {[tid |-> r.infl0[i][1] - r.tid_base, to |-> r.infl0[i][2], at |-> 0] : i \in 1..Len(r.infl0)},
                    !.cap = r.cap0,
                    !.rt = [p \in SeqSet(r.rt0) |-> r.rt_seen0[p]],
                    !.cache = [t \in TTargets |-> IF r.cache0[t].on
                                                  THEN [on |-> TRUE, kind |-> r.cache0[t].kind, nodes |-> SeqSet(r.cache0[t].nodes),
                                                        seen |-> IF r.cache0[t].kind = "get" THEN [n \in SeqSet(r.cache0[t].nodes) |-> 0] ELSE <<>>]
                                                  ELSE NoC],
                    !.lastRefresh = r.last_refresh, !.lastPing = r.last_ping, !.server = r.server, !.firewalled = r.firewalled,
                    !.ghost = IF r.ghost THEN {"g0"} ELSE {}]
         /\ base' = Rec[l].tid_base /\ beh' = Rec[l].b /\ mode' = "ok" /\ l' = l + 1 /\ hist' = NoHist

\* after a drift the model is no longer stepped, but the formulas that are read off the observations alone still are (a call
\* that never completes shows on the LAST line of the behaviour); after a violation the behaviour is done
Skip == /\ Rec[l].e \in {"api", "tick"} /\ mode \in {"skip", "done"}
        /\ IF mode = "skip" /\ beh >= 0 /\ (Rec[l].e = "api" \/ Rec[l].last) /\ L1(Rec[l]) # {}
           THEN PrintT(<<"VIOL", ToJson([line |-> l, b |-> beh, failed |-> L1(Rec[l]), step |-> Rec[l].e])>>)
           ELSE TRUE
        /\ UNCHANGED mode /\ hist' = HistAfter(Rec[l])
        /\ l' = l + 1 /\ UNCHANGED <<s, base, beh>>

\* The model's successor is computed for one HashMap order after the other until one reproduces the observation (usually
\* the first: the order only matters when several targets send in the same tick).
OrderSeq == <<<<"A", "B", "S">>, <<"B", "A", "S">>, <<"S", "A", "B">>, <<"A", "S", "B">>, <<"B", "S", "A">>, <<"S", "B", "A">>>>
\* calls whose caller has dropped its receiving end are not observable any more: both sides show them as "abandoned"
AbNow == SeqSet(Rec[l].abandoned)
ProjA(m, expired) == LET p == Proj(m, expired) IN
  [p EXCEPT !.done = [c \in DOMAIN p.done |-> IF c \in AbNow THEN "abandoned" ELSE p.done[c]],
            !.got = [c \in DOMAIN p.got |-> IF c \in AbNow THEN <<>> ELSE p.got[c]]]
RECURSIVE Search(_, _, _, _, _)
Search(o, mk(_), expired, i, n) ==
  LET m == mk(i) IN
  IF Diff(o, ProjA(m, expired)) = {} THEN [ok |-> TRUE, m |-> m]
  ELSE IF i >= n THEN [ok |-> FALSE, m |-> mk(1)]
  ELSE Search(o, mk, expired, i + 1, n)

Judge(e, mk(_), n, expired) ==
  LET o == Obs(e.proj)
      r == Search(o, mk, expired, 1, n)
      d == IF r.ok THEN {} ELSE Diff(o, ProjA(r.m, expired))
      \* C09: the datagram read in this tick answers a request that had already expired, and the node's state differs from the
      \* model's - in which expired replies only leave the in-flight table - in a core field
      lateEffect == ~r.ok /\ e.e = "tick" /\ e.input.dir = "resp" /\ e.input.tid \in SeqSet(e.expired) /\ TouchesCore(d)
      \* C09: a reply or error that matches an outstanding request (transaction id and address) consumes it: the request is no
      \* longer in the in-flight table afterwards, so a second copy cannot be attributed to it again
      notConsumed == e.e = "tick" /\ e.input.dir = "resp" /\ e.input.tid \in SeqSet(e.proj.present)
                     /\ \E i \in s.infl : i.tid = e.input.tid - base /\ i.to = e.input.peer
      f == L1(e) \cup (IF lateEffect THEN {"C09_ExpiredIgnored"} ELSE {}) \cup (IF notConsumed THEN {"C09_ConsumedOnce"} ELSE {})
  IN /\ IF f # {} THEN PrintT(<<"VIOL", ToJson([line |-> l, b |-> beh, failed |-> f, step |-> e.e])>>) /\ mode' = "done"
        ELSE IF ~r.ok
             THEN PrintT(<<"DRIFT", ToJson([line |-> l, b |-> beh, step |-> e.e, fields |-> DiffNames(d)])>>) /\ mode' = "skip"
             ELSE mode' = "ok"
     /\ s' = r.m

ExpSet(e) == {x - base : x \in SeqSet(e.expired)}

Api == /\ Rec[l].e = "api" /\ mode = "ok"
       /\ LET e == Rec[l]
              pre == [s EXCEPT !.mbox = <<e.call>>, !.called = @ \cup {e.call}]
              m == [HandleApi(pre, e.t_ms) EXCEPT !.net = {}]
              mk(i) == m
          IN Judge(e, mk, 1, ExpSet(e))
       /\ hist' = HistAfter(Rec[l])
       /\ l' = l + 1 /\ UNCHANGED <<base, beh>>

TickStep == /\ Rec[l].e = "tick" /\ mode = "ok"
            /\ LET e == Rec[l]
                   input == IF e.input.dir = "timeout" THEN NoIn
                            ELSE [dir |-> "resp", tid |-> e.input.tid - base, peer |-> e.input.peer, kind |-> e.input.kind,
                                  val |-> e.input.val, code |-> e.input.code]
                   mk(i) == [Tick(s, input, e.t_ms, ExpSet(e), OrderSeq[i]) EXCEPT !.net = {}]
               IN Judge(e, mk, 6, ExpSet(e))
            /\ hist' = HistAfter(Rec[l])
            /\ l' = l + 1 /\ UNCHANGED <<base, beh>>

\* the node died (a panic in the code under test is data)
Dead == /\ Rec[l].e = "dead"
        /\ IF mode \in {"ok", "skip"} THEN PrintT(<<"VIOL", ToJson([line |-> l, b |-> beh, failed |-> {"C06_NodeAlive"}, step |-> "dead"])>>) ELSE TRUE
        /\ mode' = "done" /\ l' = l + 1 /\ UNCHANGED <<s, base, beh, hist>>

TNext == l <= Len(Rec) /\ (Reset \/ Skip \/ Api \/ TickStep \/ Dead)
TSpec == TInit /\ [][TNext]_tvars
TraceAccepted == IF TLCGet("stats").diameter - 1 = Len(Rec) THEN TRUE
                 ELSE PrintT(<<"REJECTED", TLCGet("stats").diameter, Len(Rec)>>) /\ FALSE
=============================================================================
