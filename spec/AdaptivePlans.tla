---------------------------- MODULE AdaptivePlans ----------------------------
(* Plans for the conformance of the real Actor's address confirmation with Adaptive.tla (AdaptiveTrace.tla): every     *)
(* sequence of up to MaxLen steps over                                                                                  *)
(*   start1 / start2 / start3 : the application starts that many lookups at one instant (they end in one tick, when the *)
(*                              request to the silent peer expires)                                                    *)
(*   voteA / voteB            : from now on the peers report the node's own address / a foreign, unreachable one        *)
(*   wait                     : 150 ms pass (lookups started before and after end in different ticks)                   *)
(*   finish                   : 3 s pass (everything in flight ends)                                                    *)
(*   refresh                  : 16 minutes pass (ping rounds, the refresh lookup, the switch to server mode)            *)
(* with at most MaxRefresh refreshes; every plan ends with an implicit finish.                                          *)
EXTENDS Integers, Sequences, FiniteSets, TLC, Json
CONSTANTS MaxLen, MaxRefresh
VARIABLE x
Steps == {"start1", "start2", "start3", "voteA", "voteB", "wait", "finish", "refresh"}
RECURSIVE Seqs(_)
Seqs(n) == IF n = 0 THEN {<<>>} ELSE LET S == Seqs(n - 1) IN S \cup {Append(q, s) : q \in {p \in S : Len(p) = n - 1}, s \in Steps}
NRefresh(q) == Cardinality({i \in 1..Len(q) : q[i] = "refresh"})
\* normal form: no two equal votes in a row, no vote / wait at the very end, a plan starts lookups at least once
Useful(q) == /\ q # <<>> /\ \E i \in 1..Len(q) : q[i] \in {"start1", "start2", "start3", "refresh"}
             /\ q[Len(q)] \notin {"voteA", "voteB", "wait"}
             /\ \A i \in 1..(Len(q) - 1) : ~(q[i] \in {"voteA", "voteB"} /\ q[i + 1] \in {"voteA", "voteB"})
             /\ \A i \in 1..(Len(q) - 1) : ~(q[i] = "wait" /\ q[i + 1] \in {"wait", "finish", "refresh"})
             /\ NRefresh(q) <= MaxRefresh
Plans == {q \in Seqs(MaxLen) : Useful(q)}
Init == x = 0
Next == UNCHANGED x
Spec == Init /\ [][Next]_x
Emit == PrintT(<<"GEN", ToJson([plans |-> Plans])>>)
=============================================================================
