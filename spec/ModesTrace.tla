------------------------------ MODULE ModesTrace ------------------------------
(* C18 on real nodes (BEP43 read-only clients, servers, adaptive mode).                               *)
EXTENDS Integers, Sequences, FiniteSets, TLC, Json, IOUtils, TLCExt
VARIABLE l
Rec == ndJsonDeserialize(IOEnv.TRACE)
Failed(e) ==
  CASE e.e = "clients" ->
         (IF e.client_requests > 0 /\ e.client_requests_not_ro = 0 THEN {} ELSE {"C18_ClientRO"})
         \cup (IF e.client_replies_emitted = 0 /\ e.stores_empty THEN {} ELSE {"C18_ClientSilent"})
         \cup (IF e.clients_in_server_tables = 0 THEN {} ELSE {"C18_NoROInTables"})
         \cup (IF e.server_requests_flagged_ro = 0 THEN {} ELSE {"C18_ServersNotRO"})
         \cup (IF e.panicked THEN {"C18_NoPanic"} ELSE {})
    [] e.e = "ro_requester" ->
         (IF e.ro_added THEN {"C18_NoROInTables"} ELSE {}) \cup (IF e.normal_added THEN {} ELSE {"C18_NormalRequesterLearned"})
    [] e.e = "ro_reply" ->
         IF e.done /\ e.yielded = 0 /\ ~e.ro_responder_in_table /\ ~e.listed_by_ro_in_table THEN {} ELSE {"C18_ROIgnored"}
    [] e.e = "ro_put_reply" ->
         \* the write requests went out and every reply to them was flagged read-only: none counts, as an ack or as an error
         IF e.writes_seen = 0 THEN {}
         ELSE IF e.done /\ e.result \notin {"ok", "CasFailed", "NotMostRecent", "ErrorResponse:301"} THEN {} ELSE {"C18_ROIgnored"}
    [] e.e = "adaptive" ->
         IF e.variant \in {"reachable", "reachable_public_ip", "reachable_busy", "reachable_busy_public_ip"}
         THEN (IF e.self_ping_seen /\ ~e.firewalled /\ e.server_mode /\ e.switch_minute > 0 /\ e.switch_minute <= 17
                  /\ e.answers_ping /\ e.last_request_ro = 0 /\ e.id_valid_for_ip THEN {} ELSE {"C18_Adaptive"})
         ELSE (IF ~e.server_mode /\ e.firewalled /\ e.last_request_ro = 1 /\ ~e.answers_ping THEN {} ELSE {"C18_NatStaysClient"})
    [] e.e = "explicit" ->
         IF e.server_mode /\ e.answers_ping /\ e.reply_ro = 0 /\ e.id_valid_for_ip THEN {} ELSE {"C18_ExplicitConfig"}
    [] e.e = "revote" ->
         \* a node whose reported address changed to one at which it is not reachable is firewalled again and stays a client
         IF e.confirmed_first /\ e.address_after_revote = e.wrong_address
         THEN (IF e.firewalled_after_revote /\ e.pinged_wrong_address /\ ~e.server_mode_after_refresh
                  /\ (e.address_after_refresh # e.wrong_address \/ e.firewalled_after_refresh) THEN {} ELSE {"C18_UnconfirmedAddressStaysClient"})
         ELSE {}    \* the scenario did not establish its precondition: nothing to judge
    [] OTHER -> {}
Init == l = 1
Next == /\ l <= Len(Rec)
        /\ LET e == Rec[l] f == Failed(e) IN
           IF f # {} THEN PrintT(<<"VIOL", ToJson([line |-> l, b |-> e.b, failed |-> f, kind |-> e.e])>>) ELSE TRUE
        /\ l' = l + 1
Spec == Init /\ [][Next]_l
TraceAccepted == IF TLCGet("stats").diameter - 1 = Len(Rec) THEN TRUE
                 ELSE PrintT(<<"REJECTED", TLCGet("stats").diameter, Len(Rec)>>) /\ FALSE
=============================================================================
