SPECIFICATION TSpec
CONSTANTS
  Peers <- TPeers
  K = 20
  Calls <- TCalls
  OpOf <- TOpOf
  Dist <- TDist
  Knows <- TKnows
  Boot <- TBoot
  FixTokenFilter = TRUE
  FixEmptyStart = TRUE
POSTCONDITION TraceAccepted
CHECK_DEADLOCK FALSE
