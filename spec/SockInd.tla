------------------------------- MODULE SockInd -------------------------------
(* The attribution rule of Sock.tla (C09) beyond TLC's bounds: transaction ids and time unbounded, any number of      *)
(* requests ever sent, an in-flight table of up to 8 entries chosen ARBITRARILY by Apalache (Gen).  Inductive invariant: *)
(* ids in the table are distinct, below the counter, and none of them has been accepted before.  From it follow, for   *)
(* an arbitrary incoming message <<qt, qa>>: OnlyAddressee, SpoofIsStutter, GenuineStillAccepted, and AtMostOnce as    *)
(* part of the invariant itself.  Obligations (bin/check C09): Init => IndInv; IndInv /\ Next => IndInv'; IndInv =>    *)
(* Props; and the model with the address compared AFTER the entry is consumed (CompareFirst = FALSE, the defect repaired *)
(* in 74cfd4e) fails SpoofIsStutter - the negative control.                                                            *)
EXTENDS Integers, FiniteSets, Apalache
CONSTANTS
  \* @type: Int;
  qt,
  \* @type: Str;
  qa,
  \* @type: Bool;
  CompareFirst
VARIABLES
  \* @type: Int;
  next,
  \* @type: Set({tid: Int, to: Str});
  infl,
  \* @type: Set(Int);
  got,
  \* @type: Bool;
  dup

Addrs == {"a", "b", "adv"}
ConstInit == qt \in Int /\ qa \in Addrs /\ CompareFirst \in BOOLEAN
ConstInitFixed == qt \in Int /\ qa \in Addrs /\ CompareFirst = TRUE
ConstInitBroken == qt \in Int /\ qa \in Addrs /\ CompareFirst = FALSE

Init == next = 0 /\ infl = {} /\ got = {} /\ dup = FALSE

Hit(t) == {i \in infl : i.tid = t}
\* accepted: the entry with this id was sent to this address
Acc(t, a) == \E i \in infl : i.tid = t /\ i.to = a
\* the table after a message <<t, a>>: the entry is consumed when the message is accepted - or, if the address is only
\* compared afterwards (CompareFirst = FALSE), whenever the id is known
After(t, a) == IF Acc(t, a) \/ (~CompareFirst /\ Hit(t) # {}) THEN {i \in infl : i.tid # t} ELSE infl

Request(a) == /\ infl' = infl \cup {[tid |-> next, to |-> a]} /\ next' = next + 1 /\ UNCHANGED <<got, dup>>
Deliver(t, a) == /\ infl' = After(t, a)
                 /\ dup' = (dup \/ (Acc(t, a) /\ t \in got))
                 /\ got' = (IF Acc(t, a) THEN got \cup {t} ELSE got)
                 /\ UNCHANGED next
\* requests expire / the table is compacted: any subset may disappear
Cleanup == /\ \E gone \in SUBSET infl : infl' = infl \ gone
           /\ UNCHANGED <<next, got, dup>>
Next == \/ \E a \in Addrs : Request(a)
        \/ \E t \in Int : \E a \in Addrs : Deliver(t, a)
        \/ Cleanup

IndInv ==
  /\ next >= 0
  /\ \A i \in infl : i.tid >= 0 /\ i.tid < next /\ i.to \in Addrs
  /\ \A i \in infl : \A j \in infl : i.tid = j.tid => i = j
  /\ \A g \in got : g >= 0 /\ g < next /\ \A i \in infl : i.tid # g
  /\ dup = FALSE
\* the induction hypothesis as an initial predicate: an arbitrary table of up to 8 entries, an arbitrary history of up to 8 ids
IndInit == /\ next \in Int /\ infl = Gen(8) /\ got = Gen(8) /\ dup \in BOOLEAN
           /\ IndInv

C09_OnlyAddressee == Acc(qt, qa) => \E i \in infl : i.tid = qt /\ i.to = qa
C09_SpoofIsStutter == (~Acc(qt, qa)) => After(qt, qa) = infl
C09_GenuineStillAccepted == \A i \in infl : Acc(i.tid, i.to)
C09_AtMostOnce == ~dup
Props == C09_OnlyAddressee /\ C09_SpoofIsStutter /\ C09_GenuineStillAccepted /\ C09_AtMostOnce
=============================================================================
