SPECIFICATION Spec
INVARIANT WellFormed
INVARIANT Emit
CHECK_DEADLOCK FALSE
