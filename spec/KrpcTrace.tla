------------------------------ MODULE KrpcTrace ------------------------------
(* C10: each line is one message of the buildable space (chosen by the TLC generator), with the    *)
(* dictionary of labels the harness' own decoder read from the library's encoding, whether that    *)
(* encoding is canonical bencode, and whether the library's decoder returned an equivalent         *)
(* message; plus the BEP5 example messages.                                                        *)
EXTENDS Krpc, Json, IOUtils, TLCExt
VARIABLE l
Rec == ndJsonDeserialize(IOEnv.TRACE)
Failed(e) ==
  IF e.e = "msg" THEN
       (IF e.panic THEN {"C10_NoPanic"} ELSE {})
       \cup (IF ~e.encode_ok THEN {"C10_EncodeTotal"} ELSE {})
       \cup (IF e.encode_ok /\ ~e.canonical THEN {"C10_Canonical"} ELSE {})
       \cup (IF e.encode_ok /\ e.dict # Encode(e.m) THEN {"C10_BepDictionary"} ELSE {})
       \cup (IF e.encode_ok /\ ~(e.decode_ok /\ e.roundtrip) THEN {"C10_RoundTrip"} ELSE {})
  ELSE IF e.e = "shape" THEN
       \* C05: nothing a remote node sends may crash the decoder, a live node or an API caller
       (IF e.panic THEN {"C05_NoPanic"} ELSE {})
       \cup (IF ~e.alive_after THEN {"C05_NodeStaysAlive"} ELSE {})
       \cup (IF ~e.call_done THEN {"C05_CallsStillComplete"} ELSE {})
  ELSE (IF e.panic \/ ~e.decode_ok THEN {"C10_BepExampleDecodes"} ELSE {})
       \cup (IF e.decode_ok /\ ~e.fields_ok THEN {"C10_BepExampleValues"} ELSE {})
       \cup (IF e.decode_ok /\ ~e.reencode_identical THEN {"C10_BepExampleReencodes"} ELSE {})
Init == l = 1
Next == /\ l <= Len(Rec)
        /\ LET f == Failed(Rec[l]) IN
           IF f # {} THEN PrintT(<<"VIOL", ToJson([line |-> l, b |-> l, failed |-> f,
                    tid_width_only |-> (Rec[l].e = "bep" /\ Rec[l].reencode_identical_modulo_tid_width)])>>) ELSE TRUE
        /\ l' = l + 1
Spec == Init /\ [][Next]_l
TraceAccepted == IF TLCGet("stats").diameter - 1 = Len(Rec) THEN TRUE
                 ELSE PrintT(<<"REJECTED", TLCGet("stats").diameter, Len(Rec)>>) /\ FALSE
=============================================================================
