-------------------------------- MODULE Sock --------------------------------
(* actor/socket.rs: the in-flight table and the attribution of incoming responses / errors to     *)
(* outstanding requests (C09).  Anybody can send any <<tid, from>>; transaction ids are            *)
(* sequential, so an adversary can guess them.                                                     *)
EXTENDS Integers, Sequences, FiniteSets, TLC
CONSTANTS Addrs, MaxReq,
          CompareFirst   \* TRUE iff the address is compared before the entry is consumed (deviation #6 repaired)
VARIABLE s   \* [next, infl : set of [tid, to, age], got : set of tid, dup : BOOLEAN]
MaxAge == 2
Init == s = [next |-> 0, infl |-> {}, got |-> {}, dup |-> FALSE]
Request(a) == /\ s.next < MaxReq
              /\ s' = [s EXCEPT !.next = s.next + 1, !.infl = s.infl \cup {[tid |-> s.next, to |-> a, age |-> 0]}]
\* a message with transaction id t arrives from address a
Recv(st, t, a) ==
  LET hit == {i \in st.infl : i.tid = t} IN
  IF hit = {} THEN [st |-> st, acc |-> FALSE]
  ELSE LET i == CHOOSE x \in hit : TRUE
           ok == i.to = a
       IN IF CompareFirst /\ ~ok THEN [st |-> st, acc |-> FALSE]
          ELSE [st |-> [st EXCEPT !.infl = st.infl \ {i}], acc |-> ok]
Deliver(t, a) == LET r == Recv(s, t, a) IN
                 s' = [r.st EXCEPT !.dup = s.dup \/ (r.acc /\ t \in s.got),
                                   !.got = IF r.acc THEN s.got \cup {t} ELSE s.got]
Age == s' = [s EXCEPT !.infl = {[i EXCEPT !.age = IF i.age < MaxAge THEN i.age + 1 ELSE i.age] : i \in s.infl}]
Next == (\E a \in Addrs : Request(a)) \/ (\E t \in 0..MaxReq, a \in Addrs : Deliver(t, a)) \/ Age
Spec == Init /\ [][Next]_s
\* L1 (C09), quantified over every possible incoming message in every reachable state
C09_OnlyAddressee == \A t \in 0..MaxReq, a \in Addrs : LET r == Recv(s, t, a) IN
                        r.acc => \E i \in s.infl : i.tid = t /\ i.to = a
C09_SpoofIsStutter == \A t \in 0..MaxReq, a \in Addrs : LET r == Recv(s, t, a) IN (~r.acc) => r.st = s
C09_GenuineStillAccepted == \A i \in s.infl : Recv(s, i.tid, i.to).acc
C09_AtMostOnce == ~s.dup
=============================================================================
