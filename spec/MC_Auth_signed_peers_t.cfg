SPECIFICATION Spec
CONSTANTS
  Kind = "signed_peers"
  Responders = {1, 2, 3, 4}
INVARIANT C02_Authentic
INVARIANT Emit
CHECK_DEADLOCK FALSE
