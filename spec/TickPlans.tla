------------------------------ MODULE TickPlans ------------------------------
(* Plans for the tick-level conformance of the real Actor against Query.tla (QueryTickTrace.tla):      *)
(* every sequence of one, two or three API calls (find_node / get / put on one target) with every gap   *)
(* between consecutive calls (same instant, during the first round trips, after the lookup with a fresh *)
(* cache, later), with or without a value holder among the peers, and no fault or one fault on the i-th  *)
(* reply (dropped, duplicated, later than the request timeout, an error message).                       *)
EXTENDS Integers, Sequences, FiniteSets, TLC, Json
CONSTANTS Triples, MaxIdx
VARIABLE x
Ops == {"fn", "get", "put"}
Name(op, n) == IF op = "fn" THEN (IF n = 1 THEN "fn1" ELSE "fn2")
               ELSE IF op = "get" THEN (IF n = 1 THEN "get1" ELSE "get2") ELSE (IF n = 1 THEN "put1" ELSE "put2")
\* call names: the k-th occurrence of an op gets suffix k (at most two of each)
Names(ops) == [i \in 1..Len(ops) |-> Name(ops[i], Cardinality({j \in 1..i : ops[j] = ops[i]}))]
OpSeqs == {<<a>> : a \in Ops} \cup {<<a, b>> : a \in Ops, b \in Ops}
          \cup (IF Triples THEN {q \in {<<a, b, c>> : a \in Ops, b \in Ops, c \in Ops} : \A o \in Ops : Cardinality({j \in 1..3 : q[j] = o}) <= 2} ELSE {})
Gaps == {0, 30, 400, 2500}
GapSeqs(n) == IF n = 1 THEN {<<>>} ELSE IF n = 2 THEN {<<g>> : g \in Gaps} ELSE {<<g, h>> : g \in Gaps, h \in Gaps}
Faults == {[kind |-> "none", i |-> 0]} \cup [kind : {"drop", "dup", "late", "err"}, i : 0..MaxIdx]
Plans == {[calls |-> Names(q), gaps |-> g, fault |-> f, holder |-> h] : q \in OpSeqs, g \in UNION {GapSeqs(n) : n \in 1..3}, f \in Faults, h \in BOOLEAN}
Valid(p) == Len(p.gaps) = Len(p.calls) - 1
Init == x = 0
Next == UNCHANGED x
Spec == Init /\ [][Next]_x
Emit == PrintT(<<"GEN", ToJson({p \in Plans : Valid(p)})>>)
=============================================================================
