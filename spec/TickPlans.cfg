SPECIFICATION Spec
CONSTANTS
  Triples = FALSE
  MaxIdx = 7
INVARIANT Emit
CHECK_DEADLOCK FALSE
