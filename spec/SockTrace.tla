------------------------------ MODULE SockTrace ------------------------------
(* C09 on the real node: the model in-flight table is rebuilt from the requests the node was       *)
(* observed to send; every response / error delivered to it (genuine, duplicate or injected by a   *)
(* third party) is classified with Sock!Recv, and the observed effect - did the in-flight table     *)
(* change, did any query / put / routing table / vote / caller state change - must agree.          *)
EXTENDS Integers, Sequences, FiniteSets, TLC, Json, IOUtils, TLCExt
VARIABLES infl, l, beh, plan
Rec == ndJsonDeserialize(IOEnv.TRACE)
vars == <<infl, l, beh, plan>>
TInit == infl = <<>> /\ l = 1 /\ beh = -1 /\ plan = <<>>
Known(t) == t \in DOMAIN infl
Match(e) == Known(e.tid) /\ infl[e.tid].to = e.from
Expired(e) == Known(e.tid) /\ e.t - infl[e.tid].at >= e.timeout_ms
Failed(e) ==
  IF ~Match(e) THEN
       (IF e.changed_inflight \/ e.changed_core THEN {"C09_SpoofIsStutter"} ELSE {})
  ELSE (IF ~Expired(e) /\ ~e.changed_inflight THEN {"C09_GenuineStillAccepted"} ELSE {})
       \cup (IF Expired(e) /\ e.changed_core THEN {"C09_ExpiredIgnored"} ELSE {})
Step ==
  LET e == Rec[l] IN
  CASE e.e = "reset" -> infl' = <<>> /\ beh' = e.b /\ plan' = e.plan
    \* a (transaction id, address) pair identifies ONE request: while a request is unanswered its pair is not used again - the late
    \* reply to it could not be told from the reply to the new request
    [] e.e = "send" -> /\ IF Known(e.tid) /\ infl[e.tid].to = e.to
                          THEN PrintT(<<"VIOL", ToJson([line |-> l, b |-> beh, failed |-> {"C09_TidsNotReused"}, plan |-> plan, known |-> TRUE, expired |-> FALSE])>>)
                          ELSE TRUE
                       /\ infl' = (e.tid :> [to |-> e.to, at |-> e.t]) @@ infl /\ UNCHANGED <<beh, plan>>
    [] e.e = "recv" ->
         /\ LET f == Failed(e) IN
            IF f # {} THEN PrintT(<<"VIOL", ToJson([line |-> l, b |-> beh, failed |-> f, plan |-> plan,
                                 known |-> Known(e.tid), expired |-> Expired(e)])>>) ELSE TRUE
         /\ infl' = IF Match(e) THEN [t \in DOMAIN infl \ {e.tid} |-> infl[t]] ELSE infl
         /\ UNCHANGED <<beh, plan>>
    [] e.e = "end" ->
         /\ LET f == (IF e.panicked THEN {"C09_NoPanic"} ELSE {}) \cup (IF ~e.done THEN {"C09_CallCompletes"} ELSE {})
                     \cup (IF e.expect_same /\ ~e.same_result THEN {"C09_ResultsUnaffected"} ELSE {}) IN
            IF f # {} THEN PrintT(<<"VIOL", ToJson([line |-> l, b |-> beh, failed |-> f, plan |-> plan, known |-> FALSE, expired |-> FALSE])>>) ELSE TRUE
         /\ UNCHANGED <<infl, beh, plan>>
TNext == l <= Len(Rec) /\ Step /\ l' = l + 1
TSpec == TInit /\ [][TNext]_vars
TraceAccepted == IF TLCGet("stats").diameter - 1 = Len(Rec) THEN TRUE
                 ELSE PrintT(<<"REJECTED", TLCGet("stats").diameter, Len(Rec)>>) /\ FALSE
=============================================================================
