SPECIFICATION Spec
CONSTANT Pairs = TRUE
INVARIANT Emit
CHECK_DEADLOCK FALSE
