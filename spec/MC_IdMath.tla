----------------------------- MODULE MC_IdMath -----------------------------
(* Exhaustive check of the metric laws of C19 on 2-byte ids whose bytes range over 0..B-1,      *)
(* plus the BEP42 / CRC32C test vectors.  One state per pair (a, b); the laws are evaluated for  *)
(* every target t in every state.                                                               *)
EXTENDS IdMath
CONSTANT B
VARIABLE p
Ids == {<<x, y>> : x \in 0..(B - 1), y \in {0, 1, 128, 255}}
Init == p \in Ids \X Ids
Next == UNCHANGED p
Spec == Init /\ [][Next]_p
Laws == LET a == p[1] b == p[2] IN
  /\ Distance(a, b) = Distance(b, a)
  /\ (Distance(a, b) = 0) <=> (a = b)
  /\ Distance(a, b) = 16 - LeadingZeros(XorB(a, b))
  /\ \A t \in Ids : /\ Distance(a, t) < Distance(b, t) => XorLess(a, b, t)
                    /\ ~(XorLess(a, b, t) /\ XorLess(b, a, t))
                    /\ (a # b) => (XorLess(a, b, t) \/ XorLess(b, a, t))
Vectors == Bep42Vectors
=============================================================================
