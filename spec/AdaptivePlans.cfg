SPECIFICATION Spec
CONSTANTS
  MaxLen = 4
  MaxRefresh = 1
INVARIANT Emit
CHECK_DEADLOCK FALSE
