SPECIFICATION Spec
CONSTANTS
  W = 4
  P = 2
  MaxT = 32
  KK = 2
  StaleC = 15
  RefreshKnownC = TRUE
  RekeySortedC = FALSE
  ClosestKnownFinding = TRUE
INVARIANT AddSteps
CHECK_DEADLOCK FALSE
