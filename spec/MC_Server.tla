----------------------------- MODULE MC_Server -----------------------------
(* Exhaustive model check of the Server design: every L1 formula of C03, C04, C15 and the    *)
(* capacity half of C20 is evaluated for EVERY request of the alphabet in EVERY reachable    *)
(* state (no observation variables; see DESIGN section 4).                                   *)
EXTENDS Server
CONSTANTS Part,      \* "mut" | "imm" : which half of the alphabet drives the exploration
          MaxSeq, MaxEpoch, Filter, CapSmall, MaxLen
VARIABLE st

Froms == {[ip |-> "a", port |-> 1], [ip |-> "b", port |-> 1]}
FromsP == Froms \cup {[ip |-> "a", port |-> 2]}
\* token labels resolved against the state: current / previous / older secret, other IP, foreign, none
Toks(s) == {[ip |-> "a", ep |-> s.cur, self |-> TRUE], [ip |-> "a", ep |-> s.cur - 1, self |-> TRUE],
            [ip |-> "a", ep |-> s.cur - 2, self |-> TRUE], [ip |-> "b", ep |-> s.cur, self |-> TRUE],
            [ip |-> "a", ep |-> s.cur, self |-> FALSE], NoTok}
Keys == {"k1", "k2"}
Salts == {<<"", 0>>, <<"s1", 2>>, <<"sbig", 65>>}
MVals == {<<"w1", 5>>, <<"w2", 7>>, <<"wbig", 1001>>}
IVals == {<<"v1", 10>>, <<"vmax", 1000>>, <<"vbig", 1001>>}

MutTargets == {<<"m", k, sl[1]>> : k \in Keys, sl \in Salts}
ImmTargets == {<<"i", v[1]>> : v \in IVals}

GoodTok(s) == [ip |-> "a", ep |-> s.cur, self |-> TRUE]
FromA == [ip |-> "a", port |-> 1]
\* payload dimension with a good token, and token dimension with a few payloads
ReqMut(s) ==
  {[kind |-> "putmut", from |-> FromA, tok |-> GoodTok(s), k |-> k, tk |-> tk, salt |-> sl[1], slen |-> sl[2],
    seq |-> q, cas |-> c, val |-> v[1], vlen |-> v[2], sigok |-> g] :
      k \in Keys, tk \in Keys, sl \in Salts, q \in 0..MaxSeq,
      c \in {None} \cup 0..MaxSeq, v \in MVals, g \in BOOLEAN}
  \cup
  {[kind |-> "putmut", from |-> f, tok |-> t, k |-> "k1", tk |-> "k1", salt |-> "", slen |-> 0,
    seq |-> q, cas |-> None, val |-> v[1], vlen |-> v[2], sigok |-> g] :
      f \in Froms, t \in Toks(s), q \in 0..MaxSeq, v \in MVals, g \in BOOLEAN}
ReqGet(s, T) == {[kind |-> "get", from |-> f, t |-> t, seqf |-> q] : f \in Froms, t \in T, q \in {None} \cup 0..MaxSeq}
ReqImm(s) ==
  {[kind |-> "putimm", from |-> f, tok |-> t, t |-> <<"i", IF h THEN v[1] ELSE "other">>, val |-> v[1], vlen |-> v[2], hashok |-> h] :
      f \in Froms, t \in Toks(s), v \in IVals, h \in BOOLEAN}
ReqAnn(s) ==
  {[kind |-> "announce", from |-> f, tok |-> t, t |-> "h1", nid |-> n, port |-> 7, implied |-> i] :
      f \in Froms, t \in Toks(s), n \in {"n1", "n2"}, i \in BOOLEAN}
  \cup {[kind |-> "sannounce", from |-> f, tok |-> t, t |-> "h1", k |-> k, ts |-> 0, dt |-> d, sigok |-> g] :
      f \in Froms, t \in Toks(s), k \in Keys, d \in {0, 44000, 46000, -46000}, g \in BOOLEAN}
  \cup {[kind |-> "getpeers", from |-> f, t |-> "h1"] : f \in Froms}
  \cup {[kind |-> "getspeers", from |-> f, t |-> "h1"] : f \in Froms}
ReqMisc == {[kind |-> "ping", from |-> f] : f \in Froms} \cup {[kind |-> "findnode", from |-> f] : f \in Froms}
Adv == {[kind |-> "advance", ms |-> Rotate + 1]}

\* token dimension: every token label x every sender, one key, over several rotations
ReqTok(s) ==
  {[kind |-> "putmut", from |-> f, tok |-> t, k |-> "k1", tk |-> "k1", salt |-> "", slen |-> 0,
    seq |-> q, cas |-> None, val |-> "w1", vlen |-> 5, sigok |-> g] :
      f \in FromsP, t \in Toks(s), q \in 0..MaxSeq, g \in BOOLEAN}
  \cup {[kind |-> "putimm", from |-> f, tok |-> t, t |-> <<"i", "v1">>, val |-> "v1", vlen |-> 10, hashok |-> TRUE] :
      f \in FromsP, t \in Toks(s)}
  \cup {[kind |-> "announce", from |-> f, tok |-> t, t |-> "h1", nid |-> "n1", port |-> 7, implied |-> FALSE] :
      f \in FromsP, t \in Toks(s)}
  \cup {[kind |-> "sannounce", from |-> f, tok |-> t, t |-> "h1", k |-> "k1", ts |-> 0, dt |-> 0, sigok |-> TRUE] :
      f \in FromsP, t \in Toks(s)}

Requests(s) == CASE Part = "mut" -> ReqMut(s) \cup ReqGet(s, MutTargets) \cup ReqMisc
                 [] Part = "tok" -> ReqTok(s) \cup ReqGet(s, {<<"m", "k1", "">>, <<"i", "v1">>}) \cup ReqMisc
                 [] OTHER -> ReqImm(s) \cup ReqAnn(s) \cup ReqGet(s, ImmTargets) \cup ReqMisc

Caps == [imm |-> CapSmall, mut |-> CapSmall, hash |-> 1, peers |-> CapSmall]
Init == st = InitState(Filter, Caps)
Next == \/ \E r \in Requests(st) : st' = Step(st, r).st
        \/ st.now < MaxEpoch * (Rotate + 1) /\ st' = Step(st, [kind |-> "advance", ms |-> Rotate + 1]).st
Spec == Init /\ [][Next]_st

\* L1 for every request in every reachable state
Failed(s) == UNION {LET m == Step(s, r) IN L1Failed(s, r, m.reply, Proj(m.st)) : r \in Requests(s)}
L1Holds == Failed(st) = {}
\* the formulas that the known deviation (missing key->target check) is expected to break
L1HoldsModuloKeyTarget == Failed(st) \subseteq {"C03_OnlyValidWrites", "C03_ReplyClass", "C03_AcceptValid"}
CapsInv == C20_Caps(st, Proj(st))
=============================================================================
