------------------------------- MODULE MC_Auth -------------------------------
EXTENDS Auth, Json
\* generator: one behaviour per assignment of labels to the responders (printed in the initial states)
Emit == (pending = Responders /\ yielded = {}) => PrintT(<<"GEN", ToJson([kind |-> Kind, labels |-> label])>>)
=============================================================================
