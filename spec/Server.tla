------------------------------- MODULE Server -------------------------------
(***************************************************************************)
(* L2 design specification of one storing node: core/server.rs,            *)
(* core/server/tokens.rs, peers.rs, signed_peers.rs (BEP5 / BEP44 server   *)
(* side), written as a functional step  Step(state, request) -> [st,reply] *)
(* in the order of checks of Server::handle_request, plus the L1 formulas  *)
(* of C03, C04, C15 and the capacity half of C20 as predicates over        *)
(* (pre-state, request, reply, post-store) so that the same text judges    *)
(* the model (MC_Server) and observations of the real code (ServerTrace).  *)
(*                                                                         *)
(* Stores are LRU sequences: head = least recently used, last = most       *)
(* recently used (the `lru` crate promotes on get / get_mut / put).        *)
(***************************************************************************)
EXTENDS Integers, Sequences, FiniteSets, TLC

CONSTANTS Rotate,          \* token secret rotation period (ms): 300000
          TsTolerance,     \* signed announce timestamp window (ms): 45000
          MaxV, MaxSalt,   \* 1000, 64
          CheckKeyTarget   \* TRUE iff the tree checks SHA1(k||salt) = target (deviation #7)

NoTok == [ip |-> "none", ep |-> -9, self |-> FALSE]
None == -1

(* ------------------------------ LRU helpers ---------------------------- *)
Idx(q, key) == IF \E i \in 1..Len(q) : q[i].t = key
               THEN CHOOSE i \in 1..Len(q) : q[i].t = key ELSE 0
Has(q, key) == Idx(q, key) # 0
Lookup(q, key) == q[Idx(q, key)]
Without(q, i) == SubSeq(q, 1, i - 1) \o SubSeq(q, i + 1, Len(q))
Touch(q, key) == IF Has(q, key) THEN Append(Without(q, Idx(q, key)), Lookup(q, key)) ELSE q
PutLru(q, e, cap) == IF Has(q, e.t) THEN Append(Without(q, Idx(q, e.t)), e)
                     ELSE IF Len(q) >= cap THEN Append(Tail(q), e)
                     ELSE Append(q, e)
SeqToSet(q) == {q[i] : i \in 1..Len(q)}

(* ------------------------------ state ---------------------------------- *)
\* s = [now, cur, lastUpd, filter, caps : [imm, mut, hash, peers],
\*      imm  : LRU of [t, val]
\*      mut  : LRU of [t, k, salt, seq, val]
\*      peers: LRU of [t, ps : LRU of [t (requester id), ip, port]]
\*      sp   : LRU of [t, ps : LRU of [t (key), ts]] ]
InitState(filter, caps) ==
  [now |-> 0, cur |-> 0, lastUpd |-> 0, filter |-> filter, caps |-> caps,
   imm |-> <<>>, mut |-> <<>>, peers |-> <<>>, sp |-> <<>>]

Rotated(s) == IF s.now - s.lastUpd > Rotate
              THEN [s EXCEPT !.cur = s.cur + 1, !.lastUpd = s.now] ELSE s

FilterAllows(s, r) == CASE s.filter = "allow" \/ r.kind = "advance" -> TRUE
                        [] s.filter = "denyall" -> FALSE
                        [] s.filter = "denyb" -> r.from.ip # "b"
                        [] OTHER -> TRUE

\* a token is accepted iff this node issued it to the presenter's IP under the current or the
\* previous secret (tokens.rs validate); the port plays no role
TokenValid(s, r) == r.tok.self /\ r.tok.ip = r.from.ip /\ r.tok.ep \in {s.cur, s.cur - 1}

IsPut(r) == r.kind \in {"putimm", "putmut", "announce", "sannounce"}
IsGet(r) == r.kind \in {"get", "getpeers", "getspeers"}
\* peers.rs / signed_peers.rs get_random_peers: an answer carries everything that is stored up to 20 peers / 10 signed
\* announcements (exclusive), and a random sample of exactly that size otherwise
PeersPerAnswer == 20
SignedPerAnswer == 10
ServedOk(obs, stored, cap) == IF Cardinality(stored) < cap THEN obs = stored ELSE obs \subseteq stored /\ Cardinality(obs) = cap

(* ------------------------------ replies -------------------------------- *)
\* homogeneous reply record
Rep(kind) == [kind |-> kind, code |-> 0, val |-> "", k |-> "", seq |-> None, peers |-> {}, tok |-> FALSE]
NoReply == Rep("none")
Ack == Rep("ack")
Err(c) == [Rep("error") EXCEPT !.code = c]

(* mutable-item target of a put request as the request states it *)
MutTarget(r) == <<"m", r.tk, r.salt>>         \* tk = the key the *target* field was derived from
KeyMatchesTarget(r) == r.tk = r.k

GetMutable(s, r, t) ==
  IF Has(s.mut, t)
  THEN LET m == Lookup(s.mut, t) IN
       [st |-> [s EXCEPT !.mut = Touch(s.mut, t)],
        reply |-> IF r.seqf # None /\ m.seq <= r.seqf
                  THEN [Rep("nomorerecent") EXCEPT !.seq = m.seq, !.tok = TRUE]
                  ELSE [Rep("mut") EXCEPT !.seq = m.seq, !.val = m.val, !.k = m.k, !.tok = TRUE]]
  ELSE [st |-> s, reply |-> [Rep("novalues") EXCEPT !.tok = TRUE]]

PeerSet(ps) == {<<ps[i].ip, ps[i].port>> : i \in 1..Len(ps)}
SPeerSet(ps) == {<<ps[i].t, ps[i].ts>> : i \in 1..Len(ps)}

(* ------------------------------ the step ------------------------------- *)
Step(s0, r) ==
  IF r.kind = "advance" THEN [st |-> [s0 EXCEPT !.now = s0.now + r.ms], reply |-> NoReply]
  ELSE IF ~FilterAllows(s0, r) THEN [st |-> s0, reply |-> NoReply]
  ELSE LET s == Rotated(s0) IN
  CASE r.kind = "ping" -> [st |-> s, reply |-> Rep("pong")]
    [] r.kind = "findnode" -> [st |-> s, reply |-> Rep("nodes")]
    [] r.kind = "get" ->
         IF r.seqf = None /\ Has(s.imm, r.t)
         THEN [st |-> [s EXCEPT !.imm = Touch(s.imm, r.t)],
               reply |-> [Rep("imm") EXCEPT !.val = Lookup(s.imm, r.t).val, !.tok = TRUE]]
         ELSE GetMutable(s, r, r.t)
    [] r.kind = "getpeers" ->
         IF Has(s.peers, r.t) /\ Len(Lookup(s.peers, r.t).ps) > 0
         THEN [st |-> [s EXCEPT !.peers = Touch(s.peers, r.t)],
               reply |-> [Rep("peers") EXCEPT !.peers = PeerSet(Lookup(s.peers, r.t).ps), !.tok = TRUE]]
         ELSE [st |-> [s EXCEPT !.peers = Touch(s.peers, r.t)], reply |-> [Rep("novalues") EXCEPT !.tok = TRUE]]
    [] r.kind = "getspeers" ->
         IF Has(s.sp, r.t) /\ Len(Lookup(s.sp, r.t).ps) > 0
         THEN [st |-> [s EXCEPT !.sp = Touch(s.sp, r.t)],
               reply |-> [Rep("speers") EXCEPT !.peers = SPeerSet(Lookup(s.sp, r.t).ps), !.tok = TRUE]]
         ELSE [st |-> [s EXCEPT !.sp = Touch(s.sp, r.t)], reply |-> [Rep("novalues") EXCEPT !.tok = TRUE]]
    [] r.kind = "announce" ->
         IF ~TokenValid(s, r) THEN [st |-> s, reply |-> Err(203)]
         ELSE LET e == [t |-> r.nid, ip |-> r.from.ip, port |-> IF r.implied THEN r.from.port ELSE r.port]
                  old == IF Has(s.peers, r.t) THEN Lookup(s.peers, r.t).ps ELSE <<>>
              IN [st |-> [s EXCEPT !.peers = PutLru(s.peers, [t |-> r.t, ps |-> PutLru(old, e, s.caps.peers)], s.caps.hash)],
                  reply |-> Ack]
    [] r.kind = "sannounce" ->
         IF ~TokenValid(s, r) THEN [st |-> s, reply |-> Err(203)]
         ELSE IF ~r.sigok \/ r.dt > TsTolerance \/ r.dt < -TsTolerance THEN [st |-> s, reply |-> Err(203)]
         ELSE LET e == [t |-> r.k, ts |-> r.ts]
                  old == IF Has(s.sp, r.t) THEN Lookup(s.sp, r.t).ps ELSE <<>>
              IN [st |-> [s EXCEPT !.sp = PutLru(s.sp, [t |-> r.t, ps |-> PutLru(old, e, s.caps.peers)], s.caps.hash)],
                  reply |-> Ack]
    [] r.kind = "putimm" ->
         IF ~TokenValid(s, r) THEN [st |-> s, reply |-> Err(203)]
         ELSE IF r.vlen > MaxV THEN [st |-> s, reply |-> Err(205)]
         ELSE IF ~r.hashok THEN [st |-> s, reply |-> Err(203)]
         ELSE [st |-> [s EXCEPT !.imm = PutLru(s.imm, [t |-> r.t, val |-> r.val], s.caps.imm)], reply |-> Ack]
    [] r.kind = "putmut" ->
         LET t == MutTarget(r) IN
         IF ~TokenValid(s, r) THEN [st |-> s, reply |-> Err(203)]
         ELSE IF r.vlen > MaxV THEN [st |-> s, reply |-> Err(205)]
         ELSE IF r.slen > MaxSalt THEN [st |-> s, reply |-> Err(207)]
         ELSE LET has == Has(s.mut, t)
                  s1 == [s EXCEPT !.mut = Touch(s.mut, t)]      \* LruCache::get promotes
              IN IF has /\ r.cas # None /\ Lookup(s.mut, t).seq # r.cas THEN [st |-> s1, reply |-> Err(301)]
                 ELSE IF has /\ r.seq < Lookup(s.mut, t).seq THEN [st |-> s1, reply |-> Err(302)]
                 ELSE IF ~r.sigok \/ (CheckKeyTarget /\ ~KeyMatchesTarget(r)) THEN [st |-> s1, reply |-> Err(206)]
                 ELSE [st |-> [s1 EXCEPT !.mut = PutLru(s1.mut, [t |-> t, k |-> r.k, salt |-> r.salt, seq |-> r.seq, val |-> r.val], s.caps.mut)],
                       reply |-> Ack]
    [] OTHER -> [st |-> s, reply |-> NoReply]

(* ------------------------------ projection ----------------------------- *)
\* what the H4 snapshot shows of the stores (most recently used FIRST, as LruCache::iter)
Rev(q) == [i \in 1..Len(q) |-> q[Len(q) + 1 - i]]
Proj(s) == [imm |-> [i \in 1..Len(s.imm) |-> Rev(s.imm)[i].t],
            mut |-> [i \in 1..Len(s.mut) |-> <<Rev(s.mut)[i].t, Rev(s.mut)[i].seq>>],
            peers |-> [i \in 1..Len(s.peers) |-> <<Rev(s.peers)[i].t, Len(Rev(s.peers)[i].ps)>>],
            sp |-> [i \in 1..Len(s.sp) |-> <<Rev(s.sp)[i].t, Len(Rev(s.sp)[i].ps)>>]]
\* order-insensitive content of a projection
Content(p) == [imm |-> SeqToSet(p.imm), mut |-> SeqToSet(p.mut), peers |-> SeqToSet(p.peers), sp |-> SeqToSet(p.sp)]

(* ====================================================================== *)
(* L1: property formulas over (pre-state s, request r, reply o, post      *)
(* projection A).  B = Proj(s) is the store before the request.           *)
(* ====================================================================== *)
PayloadValid(r) ==
  CASE r.kind = "putimm" -> r.vlen <= MaxV /\ r.hashok
    [] r.kind = "putmut" -> r.vlen <= MaxV /\ r.slen <= MaxSalt /\ r.sigok /\ KeyMatchesTarget(r)
    [] r.kind = "announce" -> TRUE
    [] r.kind = "sannounce" -> r.sigok /\ r.dt <= TsTolerance /\ r.dt >= -TsTolerance
    [] OTHER -> FALSE

\* C04 rejections that apply to a put-mutable in pre-state s (after token / size checks)
CasMismatch(s, r) == r.kind = "putmut" /\ Has(s.mut, MutTarget(r)) /\ r.cas # None /\ Lookup(s.mut, MutTarget(r)).seq # r.cas
SeqTooLow(s, r) == r.kind = "putmut" /\ Has(s.mut, MutTarget(r)) /\ r.seq < Lookup(s.mut, MutTarget(r)).seq

\* the set of error codes of all failed conditions (the order of tests is not part of the property)
Codes(s, r) ==
  IF ~IsPut(r) THEN {} ELSE
     (IF ~TokenValid(Rotated(s), r) THEN {203} ELSE {})
  \cup (IF r.kind \in {"putimm", "putmut"} /\ r.vlen > MaxV THEN {205} ELSE {})
  \cup (IF r.kind = "putmut" /\ r.slen > MaxSalt THEN {207} ELSE {})
  \cup (IF r.kind = "putimm" /\ ~r.hashok THEN {203} ELSE {})
  \cup (IF r.kind = "putmut" /\ (~r.sigok \/ ~KeyMatchesTarget(r)) THEN {206} ELSE {})
  \cup (IF r.kind = "sannounce" /\ ~PayloadValid(r) THEN {203} ELSE {})
  \cup (IF CasMismatch(s, r) THEN {301} ELSE {})
  \cup (IF SeqTooLow(s, r) THEN {302} ELSE {})

Authorised(s, r) == IsPut(r) /\ FilterAllows(s, r) /\ TokenValid(Rotated(s), r) /\ PayloadValid(r)

MutSeqOf(p, t) == IF \E e \in SeqToSet(p.mut) : e[1] = t
                  THEN (CHOOSE e \in SeqToSet(p.mut) : e[1] = t)[2] ELSE None

\* shared sub-terms of the formulas, computed once per (s, r, o, A)
Ctx(s, r, o, A) ==
  LET B == Proj(s) IN
  [B |-> B, same |-> Content(A) = Content(B), allow |-> FilterAllows(s, r), codes |-> Codes(s, r),
   put |-> IsPut(r), cas |-> CasMismatch(s, r), low |-> SeqTooLow(s, r)]

\* --- C03
C03_OnlyValidWrites(s, r, o, A, c) == (~c.same) => (Authorised(s, r) /\ o.kind = "ack")
C03_ReplyClass(s, r, o, A, c) ==
   (c.put /\ c.allow /\ c.codes # {}) => (o.kind = "error" /\ o.code \in c.codes /\ c.same)
C03_AcceptValid(s, r, o, A, c) == (c.put /\ c.allow /\ c.codes = {}) => o.kind = "ack"
C03_Filtered(s, r, o, A, c) == (r.kind # "advance" /\ ~c.allow) => (o.kind = "none" /\ A = c.B)
\* an acknowledged write is stored under the right key
C03_StoredAsSent(s, r, o, A, c) ==
   (c.put /\ o.kind = "ack") =>
      CASE r.kind = "putimm" -> r.t \in SeqToSet(A.imm)
        [] r.kind = "putmut" -> <<MutTarget(r), r.seq>> \in SeqToSet(A.mut)
        \* ... next to the records of the other announcers of that info_hash: their number is what the store (one record per
        \* announcing node id, bounded per info_hash, least recently used out first) holds after this announce
        \* (when the reference itself refuses the write the acknowledgement is judged by C03_OnlyValidWrites / ReplyClass)
        [] r.kind = "announce" -> \E e \in SeqToSet(A.peers) : e[1] = r.t /\ e[2] >= 1
                                     /\ (Has(Step(s, r).st.peers, r.t) => e[2] = Len(Lookup(Step(s, r).st.peers, r.t).ps))
        [] r.kind = "sannounce" -> \E e \in SeqToSet(A.sp) : e[1] = r.t /\ e[2] >= 1
                                     /\ (Has(Step(s, r).st.sp, r.t) => e[2] = Len(Lookup(Step(s, r).st.sp, r.t).ps))
        [] OTHER -> TRUE

\* "stores (and later serves)": what a getpeers / getspeers answer serves is exactly what the acknowledged announces recorded -
\* per announcing node id the sender's own IP with the explicit or implied port of its LAST accepted announce
C03_ServesWhatWasRecorded(s, r, o, A, c) ==
   /\ (r.kind = "getpeers" /\ c.allow) =>
        IF Has(s.peers, r.t) /\ Len(Lookup(s.peers, r.t).ps) > 0
        THEN o.kind = "peers" /\ ServedOk(o.peers, PeerSet(Lookup(s.peers, r.t).ps), PeersPerAnswer) ELSE o.kind = "novalues"
   /\ (r.kind = "getspeers" /\ c.allow) =>
        IF Has(s.sp, r.t) /\ Len(Lookup(s.sp, r.t).ps) > 0
        THEN o.kind = "speers" /\ ServedOk(o.peers, SPeerSet(Lookup(s.sp, r.t).ps), SignedPerAnswer) ELSE o.kind = "novalues"

\* --- C04
C04_SeqMonotone(s, r, o, A, c) ==
   \A e \in SeqToSet(c.B.mut) : MutSeqOf(A, e[1]) # None => MutSeqOf(A, e[1]) >= e[2]
C04_Cas301(s, r, o, A, c) == (c.allow /\ c.cas) => (o.kind = "error" /\ c.same)
C04_Seq302(s, r, o, A, c) == (c.allow /\ c.low) => (o.kind = "error" /\ c.same)
C04_ExactCode(s, r, o, A, c) ==
   /\ (c.allow /\ c.codes = {301}) => (o.kind = "error" /\ o.code = 301)
   /\ (c.allow /\ c.codes = {302}) => (o.kind = "error" /\ o.code = 302)
C04_AcceptHigherOrSame(s, r, o, A, c) ==
   (r.kind = "putmut" /\ c.allow /\ c.codes = {}) => (o.kind = "ack" /\ MutSeqOf(A, MutTarget(r)) = r.seq)
\* a get returns exactly the last accepted item / only its seq / nothing
C04_GetReturnsLast(s, r, o, A, c) ==
   (r.kind = "get" /\ c.allow) =>
      IF r.seqf = None /\ Has(s.imm, r.t)
      THEN o.kind = "imm" /\ o.val = Lookup(s.imm, r.t).val
      ELSE IF Has(s.mut, r.t)
           THEN LET m == Lookup(s.mut, r.t) IN
                IF r.seqf # None /\ m.seq <= r.seqf
                THEN o.kind = "nomorerecent" /\ o.seq = m.seq
                ELSE o.kind = "mut" /\ o.seq = m.seq /\ o.val = m.val /\ o.k = m.k
           ELSE o.kind = "novalues"
C04_GetPeersReturnsStored(s, r, o, A, c) ==
   /\ (r.kind = "getpeers" /\ c.allow) =>
        IF Has(s.peers, r.t) /\ Len(Lookup(s.peers, r.t).ps) > 0
        THEN o.kind = "peers" /\ ServedOk(o.peers, PeerSet(Lookup(s.peers, r.t).ps), PeersPerAnswer) ELSE o.kind = "novalues"
   /\ (r.kind = "getspeers" /\ c.allow) =>
        IF Has(s.sp, r.t) /\ Len(Lookup(s.sp, r.t).ps) > 0
        THEN o.kind = "speers" /\ ServedOk(o.peers, SPeerSet(Lookup(s.sp, r.t).ps), SignedPerAnswer) ELSE o.kind = "novalues"

\* --- C15 (the part visible in one step; timing formulas live in Tokens.tla / ServerTrace)
C15_BoundToIp(s, r, o, A, c) == (c.put /\ o.kind = "ack") => (r.tok.self /\ r.tok.ip = r.from.ip)
C15_TwoSecrets(s, r, o, A, c) ==
   (c.put /\ c.allow) =>
      LET cur == Rotated(s).cur IN
      /\ (r.tok.self /\ r.tok.ip = r.from.ip /\ r.tok.ep \in {cur, cur - 1} /\ PayloadValid(r) /\ ~c.cas /\ ~c.low) => o.kind = "ack"
      /\ (r.tok.ep < cur - 1 \/ ~r.tok.self \/ r.tok.ip # r.from.ip) => (o.kind = "error" /\ o.code = 203)
\* every get-type reply carries a token
C15_GetsIssueTokens(s, r, o, A, c) == (IsGet(r) /\ c.allow) => o.tok

\* --- C20 (capacity half)
C20_Caps(s, A) ==
   /\ Len(A.imm) <= s.caps.imm /\ Len(A.mut) <= s.caps.mut
   /\ Len(A.peers) <= s.caps.hash /\ Len(A.sp) <= s.caps.hash
   /\ \A i \in 1..Len(A.peers) : A.peers[i][2] <= s.caps.peers
   /\ \A i \in 1..Len(A.sp) : A.sp[i][2] <= s.caps.peers

L1Names == <<"C03_OnlyValidWrites", "C03_ReplyClass", "C03_AcceptValid", "C03_Filtered", "C03_StoredAsSent", "C03_ServesWhatWasRecorded",
             "C04_SeqMonotone", "C04_Cas301", "C04_Seq302", "C04_ExactCode", "C04_AcceptHigherOrSame",
             "C04_GetReturnsLast", "C04_GetPeersReturnsStored",
             "C15_BoundToIp", "C15_TwoSecrets", "C15_GetsIssueTokens", "C20_Caps">>
L1Eval(s, r, o, A) ==
  LET c == Ctx(s, r, o, A) IN
  <<C03_OnlyValidWrites(s, r, o, A, c), C03_ReplyClass(s, r, o, A, c), C03_AcceptValid(s, r, o, A, c),
    C03_Filtered(s, r, o, A, c), C03_StoredAsSent(s, r, o, A, c), C03_ServesWhatWasRecorded(s, r, o, A, c),
    C04_SeqMonotone(s, r, o, A, c), C04_Cas301(s, r, o, A, c), C04_Seq302(s, r, o, A, c), C04_ExactCode(s, r, o, A, c),
    C04_AcceptHigherOrSame(s, r, o, A, c), C04_GetReturnsLast(s, r, o, A, c), C04_GetPeersReturnsStored(s, r, o, A, c),
    C15_BoundToIp(s, r, o, A, c), C15_TwoSecrets(s, r, o, A, c), C15_GetsIssueTokens(s, r, o, A, c),
    C20_Caps(s, A)>>
\* names of the L1 conjuncts that are FALSE
L1Failed(s, r, o, A) == LET e == L1Eval(s, r, o, A) IN {L1Names[i] : i \in {j \in 1..Len(L1Names) : ~e[j]}}
\* eviction order is least-recently-used: checked as L2 conformance (observed projection = model's, order included)
=============================================================================
