SPECIFICATION TSpec
POSTCONDITION TraceAccepted
CHECK_DEADLOCK FALSE
