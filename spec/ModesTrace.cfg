SPECIFICATION Spec
POSTCONDITION TraceAccepted
CHECK_DEADLOCK FALSE
