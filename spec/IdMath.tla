------------------------------- MODULE IdMath -------------------------------
(* common/id.rs as mathematics over byte sequences: XOR metric, bucket distance, BEP42 secure  *)
(* ids (CRC32C on two 16-bit limbs, so that it runs in TLC's 32-bit integers) and hex parsing  *)
(* over code points.  Used by the C19 trace specification and by every module that needs real  *)
(* 160-bit ids (Closest, RoutingTable, lookup traces).                                         *)
EXTENDS Integers, Sequences, FiniteSets, Bitwise, TLC

XorB(a, b) == [i \in 1..Len(a) |-> a[i] ^^ b[i]]
RECURSIVE Lz8(_, _)
Lz8(x, n) == IF n = 0 THEN 8 ELSE IF x >= 2 ^ (n - 1) THEN 8 - n ELSE Lz8(x, n - 1)
LeadingZeroBits(byte) == Lz8(byte, 8)
RECURSIVE Lz(_, _)
Lz(x, i) == IF i > Len(x) THEN 8 * Len(x)
            ELSE IF x[i] # 0 THEN 8 * (i - 1) + LeadingZeroBits(x[i]) ELSE Lz(x, i + 1)
\* number of leading zero bits of a byte sequence
LeadingZeros(x) == Lz(x, 1)
\* Id::distance: bit length of the xor  (160 - common prefix length for 20-byte ids)
Distance(a, b) == 8 * Len(a) - LeadingZeros(XorB(a, b))
RECURSIVE LexLess(_, _, _)
LexLess(x, y, i) == IF i > Len(x) THEN FALSE
                    ELSE IF x[i] # y[i] THEN x[i] < y[i] ELSE LexLess(x, y, i + 1)
\* a is strictly closer to t than b in the XOR metric
XorLess(a, b, t) == LexLess(XorB(a, t), XorB(b, t), 1)
XorCmp(a, b, t) == IF XorLess(a, b, t) THEN -1 ELSE IF XorLess(b, a, t) THEN 1 ELSE 0

(* ---- CRC32C (Castagnoli), reflected, poly 0x82F63B78, as limbs <<hi, lo>> ---- *)
PolyHi == 33526  \* 0x82F6
PolyLo == 15224  \* 0x3B78
Shr1(c) == <<shiftR(c[1], 1), shiftR(c[2], 1) + (c[1] % 2) * 32768>>
RECURSIVE Bits(_, _)
Bits(c, n) == IF n = 0 THEN c
              ELSE LET sh == Shr1(c) IN
                   Bits(IF c[2] % 2 = 1 THEN <<sh[1] ^^ PolyHi, sh[2] ^^ PolyLo>> ELSE sh, n - 1)
RECURSIVE CrcBytes(_, _, _)
CrcBytes(c, bs, i) == IF i > Len(bs) THEN c
                      ELSE CrcBytes(Bits(<<c[1], c[2] ^^ bs[i]>>, 8), bs, i + 1)
Crc32c(bs) == LET c == CrcBytes(<<65535, 65535>>, bs, 1) IN <<c[1] ^^ 65535, c[2] ^^ 65535>>
\* big-endian bytes of the crc
CrcBytesBE(bs) == LET c == Crc32c(bs) IN <<shiftR(c[1], 8), c[1] % 256, shiftR(c[2], 8), c[2] % 256>>

\* BEP42: first 21 bits of crc32c((ip & 0x030f3fff) | (r << 29)), r = last id byte (only its low 3 bits count)
Bep42Prefix(ip, r) ==
  LET m == <<(ip[1] & 3) + ((r % 8) * 32), ip[2] & 15, ip[3] & 63, ip[4]>>
      c == CrcBytesBE(m)
  IN <<c[1], c[2], c[3] & 248>>
First21(id) == <<id[1], id[2], id[3] & 248>>
Exempt(ip) == \/ ip[1] = 10
              \/ (ip[1] = 172 /\ ip[2] >= 16 /\ ip[2] <= 31)
              \/ (ip[1] = 192 /\ ip[2] = 168)
              \/ (ip[1] = 169 /\ ip[2] = 254)
              \/ ip[1] = 127
ValidForIp(id, ip) == Exempt(ip) \/ First21(id) = Bep42Prefix(ip, id[Len(id)])

(* ---- hex parsing over code points ---- *)
IsHex(c) == (c >= 48 /\ c <= 57) \/ (c >= 65 /\ c <= 70) \/ (c >= 97 /\ c <= 102)
HexVal(c) == IF c <= 57 THEN c - 48 ELSE IF c <= 70 THEN c - 55 ELSE c - 87
ParseOk(cs) == Len(cs) = 40 /\ \A i \in 1..40 : IsHex(cs[i])
ParseBytes(cs) == [i \in 1..20 |-> 16 * HexVal(cs[2 * i - 1]) + HexVal(cs[2 * i])]

\* the five BEP42 test vectors
Bep42Vectors ==
  /\ Bep42Prefix(<<124, 31, 75, 21>>, 1) = <<95, 191, 184>>      \* 5fbfbf -> bf & f8 = b8
  /\ Bep42Prefix(<<21, 75, 31, 124>>, 86) = <<90, 60, 232>>      \* 5a3ce9
  /\ Bep42Prefix(<<65, 23, 51, 170>>, 22) = <<165, 212, 48>>     \* a5d432
  /\ Bep42Prefix(<<84, 124, 73, 14>>, 65) = <<27, 3, 32>>        \* 1b0321
  /\ Bep42Prefix(<<43, 213, 53, 83>>, 90) = <<229, 111, 104>>    \* e56f6c
  /\ CrcBytesBE(<<49, 50, 51, 52, 53, 54, 55, 56, 57>>) = <<227, 6, 146, 131>>  \* crc32c("123456789") = e3069283
=============================================================================
