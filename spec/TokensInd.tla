------------------------------ MODULE TokensInd ------------------------------
(* The token timing model of Tokens.tla over UNBOUNDED time, with an inductive invariant discharged by Apalache     *)
(* (bin/check C15 thorough):  Init => IndInv,  IndInv /\ Next => IndInv',  IndInv => ValidAtLeast5 /\ ExpiresTight,  *)
(* for every Rotate >= 1 and Gap >= 1 (ConstInit).  The six fields of Tokens!s are separate integer variables here;    *)
(* TLC checks on a bounded clock that this module refines Tokens (MC_TokensInd.cfg: property TokensSpec).            *)
EXTENDS Integers
CONSTANTS
  \* @type: Int;
  Rotate,
  \* @type: Int;
  Gap
VARIABLES
  \* @type: Int;
  now,
  \* @type: Int;
  cur,
  \* @type: Int;
  lastUpd,
  \* @type: Int;
  lastReq,
  \* @type: Int;
  issuedAt,
  \* @type: Int;
  issuedEp

\* @type: <<Int, Int, Int, Int, Int, Int>>;
vars == <<now, cur, lastUpd, lastReq, issuedAt, issuedEp>>
ConstInit == Rotate \in Int /\ Gap \in Int /\ Rotate >= 1 /\ Gap >= 1

Init == now = 0 /\ cur = 0 /\ lastUpd = 0 /\ lastReq = 0 /\ issuedAt = -1 /\ issuedEp = -1
Due == now - lastUpd > Rotate
\* the secret epoch after the lazy rotation a request performs
CurR == IF Due THEN cur + 1 ELSE cur
Valid == issuedEp = CurR \/ issuedEp = CurR - 1
Tick == /\ now + 1 - lastReq <= Gap
        /\ now' = now + 1 /\ UNCHANGED <<cur, lastUpd, lastReq, issuedAt, issuedEp>>
Request == /\ cur' = CurR /\ lastUpd' = (IF Due THEN now ELSE lastUpd) /\ lastReq' = now
           /\ UNCHANGED <<now, issuedAt, issuedEp>>
Issue == /\ issuedAt = -1
         /\ cur' = CurR /\ lastUpd' = (IF Due THEN now ELSE lastUpd) /\ lastReq' = now
         /\ issuedAt' = now /\ issuedEp' = CurR /\ UNCHANGED now
Next == Tick \/ Request \/ Issue

Age == now - issuedAt
ValidAtLeast5 == (issuedAt # -1 /\ Age <= Rotate) => Valid
ExpiresTight == (issuedAt # -1 /\ Age > 2 * Rotate + Gap) => ~Valid
Props == ValidAtLeast5 /\ ExpiresTight
\* negative control (must NOT follow from the invariant): without the gap term the bound is too strong
ExpiresTooStrong == (issuedAt # -1 /\ Age > 2 * Rotate) => ~Valid

\* the inductive invariant: order of the instants, requests at least every Gap, no overdue rotation left by a request,
\* and where the latest rotation lies relative to the issue instant, per number of rotations since the issue
IndInv ==
  /\ now >= 0 /\ cur >= 0 /\ lastUpd >= 0 /\ lastUpd <= lastReq /\ lastReq <= now
  /\ now - lastReq <= Gap
  /\ lastReq - lastUpd <= Rotate
  /\ (issuedAt = -1) <=> (issuedEp = -1)
  /\ issuedAt # -1 =>
       /\ issuedAt >= 0 /\ issuedAt <= lastReq /\ issuedEp >= 0 /\ issuedEp <= cur
       /\ (cur = issuedEp) => lastUpd <= issuedAt
       /\ (cur = issuedEp + 1) => (lastUpd >= issuedAt /\ lastUpd <= issuedAt + Rotate + Gap)
       /\ (cur >= issuedEp + 2) => lastUpd > issuedAt + Rotate
\* any state that satisfies the invariant (the induction hypothesis as an initial predicate)
IndInit == /\ now \in Int /\ cur \in Int /\ lastUpd \in Int /\ lastReq \in Int /\ issuedAt \in Int /\ issuedEp \in Int
           /\ IndInv
=============================================================================
