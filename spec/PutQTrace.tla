------------------------------ MODULE PutQTrace ------------------------------
(* C08 / C17 on the real writer: store-phase runs and conflict runs recorded by the putq driver.    *)
(* For a run the model result is PutQ!Result on what was observed to arrive (L2 conformance); the   *)
(* L1 formulas are evaluated on the arrivals that reached the writer while the call was pending.    *)
EXTENDS PutQ, Json, IOUtils, TLCExt
VARIABLE l
Rec == ndJsonDeserialize(IOEnv.TRACE)
Concurrency == {"CasFailed", "NotMostRecent", "ConflictRisk"}
RunFailed(e) ==
  LET pen == e.arr_pending res == e.result IN
     (IF e.panicked THEN {"C08_NoPanic"} ELSE {})
  \cup (IF ~e.done \/ e.outcomes # 1 THEN {"C08_ExactlyOneResult"} ELSE {})
  \* every reply of a run arrives before the requests expire, so arr_all is "what reached the writer before expiry"
  \cup (IF C08_OkIffAck(e.kind, e.sent, e.arr_all, res) THEN {} ELSE {"C08_OkIffAck"})
  \cup (IF C08_ConcurrencyOnlyIfAnswered(e.kind, e.sent, pen, res) THEN {} ELSE {"C08_ConcurrencyOnlyIfAnswered"})
  \cup (IF C08_QueryErrorOtherwise(e.kind, e.sent, pen, res) THEN {} ELSE {"C08_QueryErrorOtherwise"})
  \cup (IF e.tokens_ok /\ ~e.tokenless_addressed THEN {} ELSE {"C08_OnlyTokenBearers"})
  \cup (IF e.sent = e.planned_sent THEN {} ELSE {"C08_AllTokenBearersAddressed"})
  \cup (IF e.kind # "mut" /\ res \in Concurrency THEN {"C17_NeverForOtherKinds"} ELSE {})
\* C17: 301/302 from a majority of the contacted nodes surface as CasFailed / NotMostRecent
\* (literally: whatever else arrived.  Every reply of a run reaches the writer before its requests expire.)
MajorityFailed(e) ==
  LET n301 == Count(e.arr_all, 301) n302 == Count(e.arr_all, 302) half == (e.sent \div 2) + 1 IN
  IF e.kind = "mut" /\ n301 >= half /\ e.result # "CasFailed" THEN {"C17_MajoritySurface"}
  ELSE IF e.kind = "mut" /\ n302 >= half /\ e.result # "NotMostRecent" THEN {"C17_MajoritySurface"}
  ELSE {}
\* where in the arrival order the majority became complete (0: never)
MajIdx(arr, code, half) == IF Count(arr, code) < half THEN 0
                           ELSE CHOOSE k \in 1..Len(arr) : Count(SubSeq(arr, 1, k), code) >= half /\ Count(SubSeq(arr, 1, k - 1), code) < half
\* the one case in which today's code lets an acknowledged write win over a 3xx majority: the reply that completes the majority
\* is also the last reply the query was waiting for (PutQuery::check looks at "done" first) - KF-C17-1
MajorityByLastReply(e) ==
  LET half == (e.sent \div 2) + 1
      k == IF Count(e.arr_all, 301) >= half THEN MajIdx(e.arr_all, 301, half) ELSE MajIdx(e.arr_all, 302, half)
  IN k > 0 /\ k = Len(e.arr_all) /\ Len(e.arr_all) = e.sent
ConflictFailed(e) ==
  LET rule == LocalRule([sig |-> "A", seq |-> 1], e.second)
      exp2 == IF e.phase # "after_done" /\ rule # "go" THEN rule ELSE "ok"
  IN (IF e.panicked THEN {"C17_NoPanic"} ELSE {})
     \cup (IF e.second_result # exp2 THEN {"C17_ConflictTable"} ELSE {})
     \cup (IF e.first_result # "ok" THEN {"C17_FirstUnaffected"} ELSE {})
     \cup (IF e.first_outcomes # 1 \/ e.second_outcomes # 1 THEN {"C17_ExactlyOneResult"} ELSE {})
     \cup (IF e.leak THEN {"C17_ReplacedQueryReleasesCallers"} ELSE {})
     \* a second write that was accepted (identical item, or superseding with cas = in-flight seq) and reported Ok was sent to the
     \* storing nodes: superseding replaces the in-flight write, it does not silently drop the new one
     \cup (IF e.second_result = "ok" /\ ~e.second_written THEN {"C17_SupersedingWriteIsSent"} ELSE {})
\* C08 for overlapping puts whose target does not determine the payload (two ports / two signers for one info_hash): a call
\* that reports Ok had ITS OWN write sent to (and acknowledged by - the peers acknowledge everything) a storing node
OverlapFailed(e) ==
     (IF e.panicked THEN {"C08_NoPanic"} ELSE {})
  \cup (IF e.first_outcomes # 1 \/ e.second_outcomes # 1 THEN {"C08_ExactlyOneResult"} ELSE {})
  \cup (IF (e.first_result = "ok" /\ ~e.first_written) \/ (e.second_result = "ok" /\ ~e.second_written) THEN {"C08_OkOnlyIfOwnWriteSent"} ELSE {})
  \cup (IF e.first_result \in Concurrency \/ e.second_result \in Concurrency THEN {"C17_NeverForOtherKinds"} ELSE {})
  \cup (IF e.leak THEN {"C17_ReplacedQueryReleasesCallers"} ELSE {})
Which(e) == IF e.e # "overlap" THEN "none"
            ELSE IF e.second_result = "ok" /\ ~e.second_written THEN "second"
            ELSE IF e.first_result = "ok" /\ ~e.first_written THEN "first" ELSE "none"
Init == l = 1
Next == /\ l <= Len(Rec)
        /\ LET e == Rec[l]
               f == IF e.e = "run" THEN RunFailed(e) \cup MajorityFailed(e) ELSE IF e.e = "overlap" THEN OverlapFailed(e) ELSE ConflictFailed(e)
               conforms == e.e # "run" \/ e.result = Result(e.kind, e.sent, e.arr_all)
           IN IF f # {} THEN PrintT(<<"VIOL", ToJson([line |-> l, b |-> e.b, failed |-> f,
                      early_exit_after_ack |-> (e.e = "run" /\ EarlyExitAfterAck(e.kind, e.sent, e.arr_all, e.result)),
                      ack_present |-> (e.e = "run" /\ Count(e.arr_all, 0) > 0),
                      majority_completed_by_last_reply |-> (e.e = "run" /\ e.kind = "mut" /\ MajorityByLastReply(e)),
                      conforms_to_model |-> conforms, which |-> Which(e), phase |-> IF e.e = "run" THEN "store" ELSE e.phase])>>)
              ELSE IF ~conforms THEN PrintT(<<"DRIFT", ToJson([line |-> l, b |-> e.b, observed |-> e.result, model |-> Result(e.kind, e.sent, e.arr_all)])>>)
              ELSE TRUE
        /\ l' = l + 1
Spec == Init /\ [][Next]_l
TraceAccepted == IF TLCGet("stats").diameter - 1 = Len(Rec) THEN TRUE
                 ELSE PrintT(<<"REJECTED", TLCGet("stats").diameter, Len(Rec)>>) /\ FALSE
=============================================================================
