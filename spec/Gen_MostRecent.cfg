SPECIFICATION Spec
CONSTANTS
  Patterns <- P4
  FoldFixed = TRUE
INVARIANT Emit
CHECK_DEADLOCK FALSE
