------------------------------ MODULE AuthTrace ------------------------------
(* C02 on the real node: every item a lookup yielded, re-verified by the harness with its own SHA-1 / *)
(* Ed25519 against the requested target / key / salt / info_hash and attributed to the responder      *)
(* (and crafting label) it came from.                                                                 *)
EXTENDS Integers, Sequences, FiniteSets, TLC, Json, IOUtils, TLCExt
VARIABLE l
Rec == ndJsonDeserialize(IOEnv.TRACE)
Failed(e) ==
     (IF e.panicked \/ ~e.done THEN {"C02_LookupCompletes"} ELSE {})
  \cup (IF \E i \in 1..Len(e.yielded) : ~e.yielded[i].verified THEN {"C02_OnlyVerifiableItems"} ELSE {})
  \cup (IF \E i \in 1..Len(e.yielded) : e.yielded[i].label \notin {"authentic", "long_authentic"} THEN {"C02_OnlyAuthenticResponses"} ELSE {})
\* conformance (drift only): authentic responses do surface
Conforms(e) == (e.authentic_responders > 0) = (Len(e.yielded) > 0)
Init == l = 1
Next == /\ l <= Len(Rec)
        /\ LET e == Rec[l] f == Failed(e) IN
           IF f # {} THEN PrintT(<<"VIOL", ToJson([line |-> l, b |-> e.b, failed |-> f,
                   leaked |-> {e.yielded[i].label : i \in {j \in 1..Len(e.yielded) : e.yielded[j].label \notin {"authentic", "long_authentic"} \/ ~e.yielded[j].verified}}])>>)
           ELSE IF ~Conforms(e) THEN PrintT(<<"DRIFT", ToJson([line |-> l, b |-> e.b, kind |-> e.kind, labels |-> e.labels])>>) ELSE TRUE
        /\ l' = l + 1
Spec == Init /\ [][Next]_l
TraceAccepted == IF TLCGet("stats").diameter - 1 = Len(Rec) THEN TRUE
                 ELSE PrintT(<<"REJECTED", TLCGet("stats").diameter, Len(Rec)>>) /\ FALSE
=============================================================================
