-------------------------------- MODULE PutQ --------------------------------
(* core/put_query.rs (tallies, check(), 3xx majority) and core.rs check_concurrency_errors /        *)
(* actor.rs put (local conflict rules for a second mutable put on the same target).                 *)
(* A run of the store phase is the sequence of replies that reach the writer, in arrival order:     *)
(* "ack", or an error code; requests whose reply never arrives expire.                              *)
EXTENDS Integers, Sequences, FiniteSets, TLC
CONSTANTS WideCounters,     \* TRUE iff tallies are wider than 8 bits (deviation #5 repaired)
          EarlyMajority     \* TRUE = today's check(): a mutable put fails as soon as a 3xx majority is in (KF-C08-1)

Wrap(x) == IF WideCounters THEN x ELSE x % 256
\* errors: sequence of <<count, code>> kept with the code's bubbling rule
RECURSIVE Bubble(_, _)
Bubble(e, i) == IF i > 1 /\ e[i][1] > e[i - 1][1]
                THEN Bubble([e EXCEPT ![i] = e[i - 1], ![i - 1] = e[i]], i - 1) ELSE e
AddErr(e, code) == IF \E i \in 1..Len(e) : e[i][2] = code
                   THEN LET i == CHOOSE j \in 1..Len(e) : e[j][2] = code
                        IN Bubble([e EXCEPT ![i] = <<Wrap(e[i][1] + 1), code>>], i)
                   ELSE Append(e, <<1, code>>)
Is3xx(c) == c \in {301, 302}
Name(kind, c) == IF kind = "mut" THEN (IF c = 301 THEN "CasFailed" ELSE "NotMostRecent")
                 ELSE IF c = 301 THEN "ErrorResponse:301" ELSE "ErrorResponse:302"

\* fold over the arrivals; sent = number of store requests sent
RECURSIVE Fold(_, _, _, _, _, _)
Fold(kind, sent, arr, i, acks, errs) ==
  IF i > Len(arr)
  THEN \* everything that will arrive has arrived; the rest expires
       [res |-> IF acks > 0 THEN "ok"
                ELSE IF errs # <<>> /\ Is3xx(errs[1][2]) THEN Name(kind, errs[1][2]) ELSE "Timeout",
        used |-> Len(arr)]
  ELSE LET a == arr[i]
           acks1 == IF a = 0 THEN Wrap(acks + 1) ELSE acks
           errs1 == IF a = 0 THEN errs ELSE AddErr(errs, a)
           allIn == i = sent
           half == Wrap((sent \div 2) + 1)
           early == EarlyMajority /\ ~allIn /\ kind = "mut" /\ errs1 # <<>> /\ Is3xx(errs1[1][2]) /\ errs1[1][1] >= half
       IN IF early THEN [res |-> Name(kind, errs1[1][2]), used |-> i] ELSE Fold(kind, sent, arr, i + 1, acks1, errs1)
\* arr: sequence of 0 (ack) or error codes, Len(arr) <= sent.  Result = [res, used]: the outcome and how many
\* arrivals were consumed while the call was still pending
Run(kind, sent, arr) == IF sent = 0 THEN [res |-> "NoClosestNodes", used |-> 0] ELSE Fold(kind, sent, arr, 1, 0, <<>>)
Result(kind, sent, arr) == Run(kind, sent, arr).res
\* the arrivals that reached the writer while the call was pending
Pending(kind, sent, arr) == SubSeq(arr, 1, Run(kind, sent, arr).used)

(* ------------------------------ L1 (C08) ------------------------------- *)
Count(arr, c) == Cardinality({i \in 1..Len(arr) : arr[i] = c})
\* arr = everything that reached the writer before the requests expired (NOT only what arrived while the caller was still
\* waiting: a put that gives up before its requests are answered or expired must not thereby escape this formula)
C08_OkIffAck(kind, sent, arr, res) == (res = "ok") <=> (Count(arr, 0) > 0)
C08_OkOnlyIfAck(kind, sent, arr, res) == (res = "ok") => (Count(arr, 0) > 0)
C08_ConcurrencyOnlyIfAnswered(kind, sent, arr, res) ==
   /\ (res = "CasFailed") => (kind = "mut" /\ Count(arr, 301) > 0)
   /\ (res = "NotMostRecent") => (kind = "mut" /\ Count(arr, 302) > 0)
C08_QueryErrorOtherwise(kind, sent, arr, res) ==
   res \in {"ok", "CasFailed", "NotMostRecent", "Timeout", "NoClosestNodes", "ErrorResponse:301", "ErrorResponse:302"}
\* the known finding (KF-C08-1): the put was told "failed" although an acknowledgement arrived before its requests expired
\* (before or after the verdict), because a 3xx majority was in first - the deliberate early exit of PutQuery::check
EarlyExitAfterAck(kind, sent, arr, res) == kind = "mut" /\ res \in {"CasFailed", "NotMostRecent"} /\ Count(arr, 0) > 0

(* ------------------------------ L1 (C17) ------------------------------- *)
\* local rule table for a second put_mutable on a target with a put in flight:
\* first = [sig, seq], second = [sig, seq, cas]  (cas = -1: none)
LocalRule(first, second) ==
  IF second.sig = first.sig THEN "go"                \* identical item: accepted, both calls succeed
  ELSE IF second.seq < first.seq THEN "NotMostRecent"
  ELSE IF second.cas # -1 THEN (IF second.cas = first.seq THEN "go" ELSE "CasFailed")   \* go = supersedes
  ELSE "ConflictRisk"
=============================================================================
