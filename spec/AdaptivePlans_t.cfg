SPECIFICATION Spec
CONSTANTS
  MaxLen = 5
  MaxRefresh = 2
INVARIANT Emit
CHECK_DEADLOCK FALSE
