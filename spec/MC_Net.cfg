SPECIFICATION Spec
CONSTANTS
  N = {1, 2, 3, 4, 5}
  First = 1
  K = 5
  Target = 7
  WithRefresh = FALSE
INVARIANT Found
CHECK_DEADLOCK FALSE
