------------------------------ MODULE JoinTrace ------------------------------
(* C13 on real networks: one line per network after all nodes joined.                                 *)
(*  Bootstrapped   : every node that was given a live server ends with a non-empty routing table, and    *)
(*                   the late joiner's real bootstrapped() returned true;                              *)
(*  FirstNodeLearns: the bootstrap-less first node's tables contain every server that bootstrapped      *)
(*                   from it (up to K servers; beyond that capacity limits apply);                      *)
(*  Connected      : the directed knows-graph (main + signed tables) restricted to servers is strongly   *)
(*                   connected and every client knows a server (clients are in nobody's table);         *)
(*  AllQueried     : with up to K servers, a lookup started on any node queries every other server;     *)
(*  DeadBootstrap  : with only dead bootstrap addresses bootstrapped() returns false within the bound.  *)
EXTENDS Integers, Sequences, FiniteSets, TLC, Json, IOUtils, TLCExt
CONSTANT K
VARIABLE l
Rec == ndJsonDeserialize(IOEnv.TRACE)
SeqSet(q) == {q[i] : i \in 1..Len(q)}
\* the table verdicts on one snapshot of every node's tables (taken after the joins, and again after every node used the network)
Tables(e, N) ==
  LET S == SeqSet(e.servers)
      idx == 1..Len(N)
      addrOf == [i \in idx |-> N[i].addr]
      knows == [i \in idx |-> SeqSet(N[i].rt) \cup SeqSet(N[i].srt)]
      byAddr(a) == CHOOSE i \in idx : addrOf[i] = a
      present == {addrOf[i] : i \in idx}
      liveS == S \cap present
      RECURSIVE Reach(_, _)
      Reach(F, n) == IF n = 0 THEN F
                     ELSE LET G == F \cup UNION {knows[byAddr(a)] \cap liveS : a \in F} IN
                          IF G = F THEN F ELSE Reach(G, n - 1)
      connected == \A a \in liveS : Reach({a}, Cardinality(liveS)) = liveS
      clientsKnow == \A i \in idx : (~N[i].server) => (knows[i] \cap liveS # {})
      boot == \A i \in idx : N[i].has_bootstrap => Len(N[i].rt) > 0
      firstLearns == Cardinality(liveS) > K \/ (liveS \ {e.first}) \subseteq knows[byAddr(e.first)]
  IN (IF boot THEN {} ELSE {"C13_Bootstrapped"})
     \cup (IF firstLearns THEN {} ELSE {"C13_FirstNodeLearns"})
     \cup (IF connected /\ clientsKnow THEN {} ELSE {"C13_Connected"})
Check(e) ==
  LET S == SeqSet(e.servers)
      idx == 1..Len(e.nodes)
      addrOf == [i \in idx |-> e.nodes[i].addr]
      knows == [i \in idx |-> SeqSet(e.nodes[i].rt) \cup SeqSet(e.nodes[i].srt)]
      byAddr(a) == CHOOSE i \in idx : addrOf[i] = a
      present == {addrOf[i] : i \in idx}
      liveS == S \cap present
      RECURSIVE Reach(_, _)
      Reach(F, n) == IF n = 0 THEN F
                     ELSE LET G == F \cup UNION {knows[byAddr(a)] \cap liveS : a \in F} IN
                          IF G = F THEN F ELSE Reach(G, n - 1)
      connected == \A a \in liveS : Reach({a}, Cardinality(liveS)) = liveS
      clientsKnow == \A i \in idx : (~e.nodes[i].server) => (knows[i] \cap liveS # {})
      boot == \A i \in idx : e.nodes[i].has_bootstrap => Len(e.nodes[i].rt) > 0
      firstLearns == Cardinality(liveS) > K \/ (liveS \ {e.first}) \subseteq knows[byAddr(e.first)]
      allQueried == Cardinality(liveS) > K \/
                    \A j \in 1..Len(e.lookups) :
                       LET me == addrOf[CHOOSE i \in idx : e.nodes[i].n = e.lookups[j].n] IN
                       e.lookups[j].done /\ (liveS \ {me}) \subseteq SeqSet(e.lookups[j].queried)
      late == e.late.done /\ e.late.result = TRUE
      dead == e.dead.done /\ e.dead.result = FALSE /\ e.dead.dur_ms <= (e.dead.addresses + 2) * (e.dead.tmax_ms + 250) * 2
  IN (IF late THEN {} ELSE {"C13_Bootstrapped"})
     \cup Tables(e, e.nodes) \cup Tables(e, e.nodes_after)
     \cup (IF allQueried THEN {} ELSE {"C13_AllQueried"})
     \cup (IF dead THEN {} ELSE {"C13_DeadBootstrap"})
     \cup (IF e.panicked = <<>> THEN {} ELSE {"C13_NoPanic"})
Init == l = 1
Next == /\ l <= Len(Rec)
        /\ LET e == Rec[l]
               \* a joiner behind a link slower than the initial request timeout still bootstraps (the adaptive timeout learns from late answers)
               \* every server a lookup missed had two or more node ids listed at its IP (a stale id shadows the current one in the
               \* candidate list: the per-IP rule of KF-C07-1 / KF-C11-1)
               onlyShadowed == e.e = "net" /\ \A j \in 1..Len(e.lookups) :
                                  \A k \in 1..Len(e.lookups[j].missed_ids_listed) : e.lookups[j].missed_ids_listed[k][2] >= 2
               f == IF e.e = "slowjoin"
                    THEN (IF e.joined /\ e.bootstrapped THEN {} ELSE {"C13_SlowLinkJoins"}) \cup (IF e.panicked THEN {"C13_NoPanic"} ELSE {})
                    ELSE IF e.e = "askjoin"
                    \* a caller that keeps asking bootstrapped() - while the first lookup runs, while the node's address is being
                    \* confirmed, after it has taken its new id - gets an answer every time, and the answer is true
                    THEN (IF e.returned = e.calls /\ e.true = e.calls /\ e.table > 0 THEN {} ELSE {"C13_Bootstrapped"})
                         \cup (IF e.panicked THEN {"C13_NoPanic"} ELSE {})
                    ELSE Check(e) IN
           IF f # {} THEN PrintT(<<"VIOL", ToJson([line |-> l, b |-> e.b, failed |-> f, spec |-> e.spec, only_shadowed |-> onlyShadowed])>>) ELSE TRUE
        /\ l' = l + 1
Spec == Init /\ [][Next]_l
TraceAccepted == IF TLCGet("stats").diameter - 1 = Len(Rec) THEN TRUE
                 ELSE PrintT(<<"REJECTED", TLCGet("stats").diameter, Len(Rec)>>) /\ FALSE
=============================================================================
