SPECIFICATION Spec
CONSTANTS
  WideCounters = TRUE
  EarlyMajority = TRUE
  MaxN = 5
  Codes = {0, 203, 301, 302}
INVARIANT L1
INVARIANT RuleTable
CHECK_DEADLOCK FALSE
