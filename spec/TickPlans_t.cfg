SPECIFICATION Spec
CONSTANTS
  Triples = TRUE
  MaxIdx = 9
INVARIANT Emit
CHECK_DEADLOCK FALSE
